#!/bin/sh
# tools/try_revert.sh <fix-commit> <Cnn...> : reverse-apply a fix commit in /repo's working tree, run checks, restore.
[ -z "$(git -C /repo status --porcelain)" ] || { echo "REFUSING: /repo has uncommitted changes (this tool ends with git checkout -- .)"; exit 4; }
c="$1"; shift
git -C /repo show "$c" | git -C /repo apply -R || { echo "cannot reverse-apply $c"; exit 3; }
for p in "$@"; do /verif/check "$p" --tier quick 2>&1 | grep -E "VIOLATION|ANALYSIS-ERROR|finding|^\[" | head -12; done
git -C /repo checkout -- .

#!/usr/bin/env python3
"""Regenerate /verif/MANIFEST.json from the table below.  A property is claimed iff it has a rule
module under sa/rules and an entry in CLAIMS; everything else is listed under not_applicable."""
import json
import os

HERE = os.path.dirname(os.path.dirname(os.path.abspath(__file__)))

CLAIMS = {
    # id: (technique, level text, level note, design ref)
}

NOT_YET = {}


def load_claims():
    with open(os.path.join(HERE, "tools", "claims.json")) as fh:
        return json.load(fh)


def main():
    data = load_claims()
    claims = data["claims"]
    na = data["not_applicable"]
    checks = []
    for pid in sorted(claims):
        c = claims[pid]
        if not os.path.exists(os.path.join(HERE, "sa", "rules", pid.lower() + ".py")):
            raise SystemExit(f"claimed {pid} has no rule module")
        checks.append({
            "property_id": pid,
            "quick_cmd": f"./check {pid} --tier quick",
            "thorough_cmd": f"./check {pid} --tier thorough",
            "evidence_file": f"/verif/evidence/{pid}.json",
            "replay_cmd_template": f"./check {pid} --replay {{path}}",
            "engine": "sa",
            "level_claimed": {"category": "other", "text": c["level"], "design_ref": c.get("design_ref", "DESIGN.md §5 " + pid)},
            "level_note": c["note"],
            "technique": c["technique"],
        })
    ids = [json.loads(l)["id"] for l in open(os.path.join(HERE, "properties.jsonl"))]
    nal = []
    for pid in ids:
        if pid not in claims:
            nal.append({"property_id": pid, "reason": na.get(pid, "no sound static rule built for this property in this round")})
    man = {
        "version": 1,
        "setup_cmd": "true",
        "hooks": {
            "guard": "REDUINO_VERIF",
            "enable": "none needed: every check parses /repo's working tree, nothing in /repo is instrumented or executed",
            "baseline_off_cmd": "cd /repo && /venv/bin/python -m pytest -ra -q -p no:cacheprovider --timeout=900 --continue-on-collection-errors",
            "source_commits": [],
            "add_only": True,
        },
        "engines": [
            {"name": "sa", "path": "/verif/sa", "serves_properties": sorted(claims),
             "kind_free_text": "repository-specific static analysis in pure Python (ast): source model, structured dataflow (must/path facts, call counts), literal-table and decision-list evaluation on the syntax tree, emission-path enumeration of the emitter's C++ templates and clang front-end (-fsyntax-only / JSON AST) over the extracted C++"}
        ],
        "checks": checks,
        "not_applicable": nal,
        "notes": data.get("notes", ""),
    }
    with open(os.path.join(HERE, "MANIFEST.json"), "w") as fh:
        json.dump(man, fh, indent=1)
    print(f"MANIFEST: {len(checks)} checks, {len(nal)} not_applicable")


if __name__ == "__main__":
    main()

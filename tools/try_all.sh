#!/bin/sh
# tools/try_all.sh <patch> : apply to /repo, run all 20 quick checks in parallel, list those that fire, revert.
[ -z "$(git -C /repo status --porcelain)" ] || { echo "REFUSING: /repo has uncommitted changes (this tool ends with git checkout -- .)"; exit 4; }
p="$1"
git -C /repo apply "$p" || { echo "PATCH DOES NOT APPLY: $p"; exit 3; }
for c in $(seq -w 1 20); do ( /verif/check C$c --tier quick >/tmp/ta_$c.log 2>&1; echo "C$c:$?" ) & done | sort | grep -v ':0$' | tr '\n' ' '
wait
echo
for f in /tmp/ta_*.log; do grep -h -m2 -E "^  finding|ANALYSIS-ERROR" $f | cut -c1-220; done
rm -f /tmp/ta_*.log
git -C /repo checkout -- .

#!/usr/bin/env python3
"""tools/confirm_par.py <round dir> [--jobs N]: for each Cnn/patchK.diff confirm in scratch worktrees of /repo (removed afterwards) that
the patch applies, the 123 tests pass with it, and the demo behaves as its kind demands (benign: exit 0 with and without;
breaking: exit != 0 with, 0 without).  Writes <round dir>/confirm.tsv."""
import json, os, queue, re, shutil, subprocess, sys, tempfile, threading

def sh(*a, **k):
    return subprocess.run(a, capture_output=True, text=True, **k)

rd = sys.argv[1]
jobs = int(sys.argv[sys.argv.index("--jobs") + 1]) if "--jobs" in sys.argv else 6
items = []
for d in sorted(os.listdir(rd)):
    if re.fullmatch(r"C\d\d", d):
        for k in range(1, 9):
            if os.path.exists(f"{rd}/{d}/patch{k}.diff"):
                kind = "breaking"
                try:
                    kind = json.load(open(f"{rd}/{d}/meta{k}.json")).get("kind", "breaking")
                except Exception:
                    pass
                items.append((d, k, kind))
base = tempfile.mkdtemp(prefix="confirm_")
wts = []
res = {}
try:
    for j in range(jobs):
        wt = f"{base}/w{j}"
        r = sh("git", "-C", "/repo", "worktree", "add", "--detach", wt, "HEAD")
        if r.returncode:
            raise SystemExit(r.stderr)
        wts.append(wt)
    q = queue.Queue()
    for it in items:
        q.put(it)
    lock = threading.Lock()

    def demo(wt, path):
        try:
            return subprocess.run(["/venv/bin/python", path], cwd=wt, env=dict(os.environ, PYTHONPATH=f"{wt}/src"), capture_output=True, timeout=600).returncode
        except subprocess.TimeoutExpired:
            return "timeout"

    def worker(j):
        wt = wts[j]
        while True:
            try:
                d, k, kind = q.get_nowait()
            except queue.Empty:
                return
            sh("git", "-C", wt, "checkout", "--", "."); sh("git", "-C", wt, "clean", "-fdq")
            dp = f"{rd}/{d}/demo{k}.py"
            clean = demo(wt, dp)
            ap = sh("git", "-C", wt, "apply", f"{rd}/{d}/patch{k}.diff")
            t = sh("/venv/bin/python", "-m", "pytest", "-q", "-p", "no:cacheprovider", "--timeout=900", "-o", "addopts=", cwd=wt)
            m = re.search(r"(\d+) passed", t.stdout)
            failed = re.search(r"(\d+) failed", t.stdout)
            with_ = demo(wt, dp)
            sh("git", "-C", wt, "checkout", "--", "."); sh("git", "-C", wt, "clean", "-fdq")
            ok = ap.returncode == 0 and m and m.group(1) == "123" and not failed and clean == 0 and ((with_ == 0) if kind == "benign" else (with_ not in (0, "timeout")))
            with lock:
                res[(d, k)] = (kind, ap.returncode == 0, m.group(1) if m else "?", clean, with_, "OK" if ok else "BAD")
                print(d, k, res[(d, k)], flush=True)
    th = [threading.Thread(target=worker, args=(j,)) for j in range(jobs)]
    [t.start() for t in th]; [t.join() for t in th]
    with open(f"{rd}/confirm.tsv", "w") as fh:
        for key in sorted(res):
            fh.write("\t".join(map(str, key + res[key])) + "\n")
    print("BAD:", [k for k, v in sorted(res.items()) if v[-1] != "OK"])
finally:
    for wt in wts:
        sh("git", "-C", "/repo", "worktree", "remove", "--force", wt)
    shutil.rmtree(base, ignore_errors=True)
    sh("git", "-C", "/repo", "worktree", "prune")

#!/bin/sh
# tools/confirm_seeds.sh <srcdir> : for each Cnn/patchK.diff under <srcdir> confirm in a scratch worktree that
#  (a) the patch applies, (b) the 123 tests pass, (c) the demo fails with it and passes without it,
#  (d) which /verif checks raise an alarm; results are appended to <srcdir>/confirm.tsv
src="$1"
wt=/tmp/confirm-wt
rm -rf "$wt"; git -C /repo worktree prune; git -C /repo worktree add -q --detach "$wt" HEAD || exit 2
: > "$src/confirm.tsv"
for d in "$src"/C*/; do
  id=$(basename "$d")
  for k in 1 2 3 4 5; do
    p="$d/patch$k.diff"; [ -f "$d/patch$k.rebased.diff" ] && p="$d/patch$k.rebased.diff"
    [ -f "$p" ] || continue
    git -C "$wt" checkout -q -- . ; git -C "$wt" clean -fdq
    ( cd "$wt" && PYTHONPATH="$wt/src" timeout 300 /venv/bin/python "$d/demo$k.py" >/dev/null 2>&1 ); clean=$?
    if git -C "$wt" apply "$p" 2>/dev/null; then applies=yes; else applies=no; fi
    tests=$(cd "$wt" && /venv/bin/python -m pytest -q -p no:cacheprovider --timeout=900 -o addopts="" 2>&1 | tail -1 | grep -o '[0-9]* passed' | head -1)
    ( cd "$wt" && PYTHONPATH="$wt/src" timeout 300 /venv/bin/python "$d/demo$k.py" >/dev/null 2>&1 ); with=$?
    printf "%s\t%s\tapplies=%s\ttests=%s\tdemo_clean=%s\tdemo_with=%s\n" "$id" "$k" "$applies" "$tests" "$clean" "$with" >> "$src/confirm.tsv"
  done
done
git -C "$wt" checkout -q -- . ; git -C /repo worktree remove --force "$wt"
cat "$src/confirm.tsv"

#!/bin/sh
# tools/seed_matrix.sh <seeddir> [all]: apply each seed to /repo, run the owning check (or all 20 in parallel), revert.
[ -z "$(git -C /repo status --porcelain)" ] || { echo "REFUSING: /repo has uncommitted changes (this tool ends with git checkout -- .)"; exit 4; }
src="$1"; mode="$2"
out="$src/matrix.tsv"; : > "$out"
for d in "$src"/C*/; do
  id=$(basename "$d" | cut -c1-3)
  for k in 1 2 3 4 5; do
    p="$d/patch$k.diff"; [ -f "$d/patch$k.rebased.diff" ] && p="$d/patch$k.rebased.diff"
    [ -f "$p" ] || { [ -f "$d/patch.diff" ] && [ $k = 1 ] && p="$d/patch.diff" || continue; }
    git -C /repo apply "$p" || { printf "%s\t%s\tDOES-NOT-APPLY\n" "$(basename $d)" "$k" >> "$out"; continue; }
    if [ "$mode" = all ]; then
      res=$(for c in $(seq -w 1 20); do ( /verif/check C$c --tier quick >/tmp/sm_$c.log 2>&1; echo "C$c:$?" ) & done; wait)
      fired=$(echo "$res" | tr ' ' '\n' | grep -v ':0$' | sort | tr '\n' ' ')
      first=""
    else
      /verif/check "$id" --tier quick >/tmp/sm_own.log 2>&1; fired="$id:$?"
      first=$(grep -h -m1 -E "finding|ANALYSIS-ERROR" /tmp/sm_own.log | cut -c1-170)
    fi
    printf "%s\t%s\t%s\t%s\n" "$(basename $d)" "$k" "$fired" "$first" >> "$out"
    git -C /repo checkout -- .
  done
done
rm -f /tmp/sm_*.log
cat "$out"

#!/usr/bin/env python3
"""tools/seed_own.py [Cnn ...]: every breaking seed of /verif/seeded whose property is listed is applied to a scratch worktree and
its owning check is run (VERIF_REPO); prints the seeds that are NOT reported.  /repo is never touched."""
import concurrent.futures as cf, json, os, re, shutil, subprocess, sys, tempfile, threading, queue
ROOT = os.path.dirname(os.path.dirname(os.path.abspath(__file__)))
def sh(*a, **k): return subprocess.run(a, capture_output=True, text=True, **k)
props = [a for a in sys.argv[1:] if re.fullmatch(r"C\d\d", a)] or [f"C{i:02d}" for i in range(1, 21)]
jobs = 8
items = []
for d in sorted(os.listdir(os.path.join(ROOT, "seeded"))):
    if d[:3] not in props: continue
    mp = os.path.join(ROOT, "seeded", d, "meta.json")
    kind = "breaking"
    try: kind = json.load(open(mp)).get("kind", "breaking")
    except Exception: pass
    p = os.path.join(ROOT, "seeded", d, "patch.diff")
    if os.path.exists(p): items.append((d, kind, p))
base = tempfile.mkdtemp(prefix="so_wt_")
wts = []
try:
    for j in range(jobs):
        wt = os.path.join(base, f"w{j}")
        r = sh("git", "-C", "/repo", "worktree", "add", "--detach", wt, "HEAD")
        if r.returncode: raise SystemExit(r.stderr)
        ev = os.path.join(base, f"ev{j}"); os.makedirs(ev); wts.append((wt, ev))
    q = queue.Queue()
    for it in items: q.put(it)
    lock = threading.Lock(); res = {}
    def worker(j):
        wt, ev = wts[j]
        while True:
            try: d, kind, p = q.get_nowait()
            except queue.Empty: return
            sh("git", "-C", wt, "checkout", "--", "."); sh("git", "-C", wt, "clean", "-fdq")
            a = sh("git", "-C", wt, "apply", p)
            if a.returncode:
                with lock: res[d] = (kind, None, "DOES-NOT-APPLY"); continue
            env = dict(os.environ, VERIF_REPO=wt, VERIF_EVIDENCE_DIR=ev, VERIF_REPLAY_DIR=ev)
            c = sh(os.path.join(ROOT, "check"), d[:3], "--tier", "quick", env=env)
            first = next((l.strip()[:200] for l in c.stdout.splitlines() if re.match(r"\s*finding|ANALYSIS-ERROR", l)), "")
            sh("git", "-C", wt, "checkout", "--", ".")
            with lock: res[d] = (kind, c.returncode, first)
    th = [threading.Thread(target=worker, args=(j,)) for j in range(jobs)]
    [t.start() for t in th]; [t.join() for t in th]
    nb = sum(1 for k, _, _ in res.values() if k == "breaking"); rep = 0
    for d in sorted(res):
        kind, rc, first = res[d]
        if kind == "breaking":
            if rc == 1: rep += 1
            else: print(f"NOT-REPORTED {d} rc={rc} {first}")
        elif rc != 0:
            print(f"FALSE-ALARM {d} rc={rc} {first}")
    print(f"breaking reported {rep}/{nb}; benign {len(res) - nb}")
finally:
    for wt, _ in wts: sh("git", "-C", "/repo", "worktree", "remove", "--force", wt)
    shutil.rmtree(base, ignore_errors=True); sh("git", "-C", "/repo", "worktree", "prune")

#!/bin/sh
# tools/try_patch.sh <patch> <Cnn> [more Cnn...]  - apply to /repo, run checks, revert.
[ -z "$(git -C /repo status --porcelain)" ] || { echo "REFUSING: /repo has uncommitted changes (this tool ends with git checkout -- .)"; exit 4; }
p="$1"; shift
git -C /repo apply "$p" || { echo "PATCH DOES NOT APPLY: $p"; exit 3; }
for c in "$@"; do
  /verif/check "$c" --tier quick 2>&1 | grep -E "VIOLATION|ANALYSIS-ERROR|finding|^\[" | head -12
done
git -C /repo checkout -- . 

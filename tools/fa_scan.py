#!/usr/bin/env python3
"""tools/fa_scan.py <round dir> [--only benign|breaking] [--jobs N] [--out file]
Round directories hold Cnn/patchK.diff + metaK.json (kind benign|breaking).  Every patch is applied to a scratch worktree
of /repo (under /tmp/fa_wt, removed afterwards), all 20 quick checks run against it (VERIF_REPO), and the firing checks with
their first findings are reported.  /repo itself is never touched."""
import concurrent.futures as cf
import json
import os
import re
import shutil
import subprocess
import sys
import tempfile

ROOT = os.path.dirname(os.path.dirname(os.path.abspath(__file__)))
IDS = [f"C{i:02d}" for i in range(1, 21)]


def sh(*a, **k):
    return subprocess.run(a, capture_output=True, text=True, **k)


def one_check(wt, ev, cid):
    env = dict(os.environ, VERIF_REPO=wt, VERIF_EVIDENCE_DIR=ev, VERIF_REPLAY_DIR=ev)
    p = sh(os.path.join(ROOT, "check"), cid, "--tier", "quick", env=env)
    lines = [l[:300] for l in p.stdout.splitlines() if re.match(r"\s*finding|ANALYSIS-ERROR", l)]
    return cid, p.returncode, lines


def scan(task):
    wt, ev, label, patch, inner = task
    sh("git", "-C", wt, "checkout", "--", ".")
    sh("git", "-C", wt, "clean", "-fdq")
    a = sh("git", "-C", wt, "apply", patch)
    if a.returncode != 0:
        return label, None, [f"DOES-NOT-APPLY {a.stderr.strip()[:200]}"]
    with cf.ThreadPoolExecutor(max_workers=inner) as ex:
        res = list(ex.map(lambda c: one_check(wt, ev, c), IDS))
    sh("git", "-C", wt, "checkout", "--", ".")
    fired = [(c, rc) for c, rc, _ in res if rc != 0]
    lines = [f"[{c}] {l}" for c, rc, ls in res if rc != 0 for l in ls[:6]]
    return label, fired, lines


def main():
    args = sys.argv[1:]
    rd = args[0]
    only = args[args.index("--only") + 1] if "--only" in args else None
    jobs = int(args[args.index("--jobs") + 1]) if "--jobs" in args else 4
    out = args[args.index("--out") + 1] if "--out" in args else None
    sel = args[args.index("--sel") + 1].split(",") if "--sel" in args else None
    items = []
    for d in sorted(os.listdir(rd)):
        if not re.fullmatch(r"C\d\d", d):
            continue
        for k in range(1, 9):
            p = os.path.join(rd, d, f"patch{k}.diff")
            if not os.path.exists(p):
                continue
            kind = "breaking"
            mp = os.path.join(rd, d, f"meta{k}.json")
            if os.path.exists(mp):
                try:
                    kind = json.load(open(mp)).get("kind", "breaking")
                except Exception:
                    pass
            if only and kind != only:
                continue
            if sel and f"{d}-{k}" not in sel:
                continue
            items.append((f"{d}-{k}", kind, p))
    base = tempfile.mkdtemp(prefix="fa_wt_")
    wts = []
    try:
        for j in range(jobs):
            wt = os.path.join(base, f"w{j}")
            r = sh("git", "-C", "/repo", "worktree", "add", "--detach", wt, "HEAD")
            if r.returncode != 0:
                raise SystemExit(r.stderr)
            ev = os.path.join(base, f"ev{j}")
            os.makedirs(ev)
            wts.append((wt, ev))
        results = {}
        import queue
        import threading
        q = queue.Queue()
        for it in items:
            q.put(it)
        lock = threading.Lock()

        def worker(j):
            wt, ev = wts[j]
            while True:
                try:
                    label, kind, p = q.get_nowait()
                except queue.Empty:
                    return
                r = scan((wt, ev, label, p, max(2, 20 // jobs)))
                with lock:
                    results[label] = (kind, r)
                    f = r[1]
                    print(f"{label}\t{kind}\t{' '.join(f'{c}:{rc}' for c, rc in f) if f is not None else 'NOAPPLY'}", flush=True)

        th = [threading.Thread(target=worker, args=(j,)) for j in range(jobs)]
        for t in th:
            t.start()
        for t in th:
            t.join()
        if out:
            with open(out, "w") as fh:
                for label in sorted(results):
                    kind, (_, fired, lines) = results[label]
                    fh.write(f"=== {label} ({kind}) {' '.join(f'{c}:{rc}' for c, rc in (fired or []))}\n")
                    for l in lines:
                        fh.write(l + "\n")
    finally:
        for wt, _ in wts:
            sh("git", "-C", "/repo", "worktree", "remove", "--force", wt)
        shutil.rmtree(base, ignore_errors=True)
        sh("git", "-C", "/repo", "worktree", "prune")


if __name__ == "__main__":
    main()

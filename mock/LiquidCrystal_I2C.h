#pragma once
#include <Arduino.h>
class LiquidCrystal_I2C {
 public:
  LiquidCrystal_I2C(uint8_t lcd_Addr, uint8_t lcd_cols, uint8_t lcd_rows);
  void init();
  void begin(uint8_t cols, uint8_t rows, uint8_t charsize = 0);
  void clear();
  void home();
  void noDisplay();
  void display();
  void noBacklight();
  void backlight();
  void setCursor(uint8_t, uint8_t);
  void createChar(uint8_t, uint8_t[]);
  size_t print(const String &);
  size_t print(const char[]);
  size_t print(char);
  size_t print(int, int = 10);
  size_t write(uint8_t);
};

#pragma once
#include <Arduino.h>
class TwoWire { public: void begin(); };
extern TwoWire Wire;

// Mock Arduino core for type checking the C++ that Reduino emits (never linked, never run).
#pragma once
#include <stddef.h>
#include <stdint.h>
#include <string.h>
#include <math.h>

#define HIGH 0x1
#define LOW 0x0
#define INPUT 0x0
#define OUTPUT 0x1
#define INPUT_PULLUP 0x2
#define LED_BUILTIN 13
#define A0 14
#define A1 15
#define A2 16
#define A3 17
#define A4 18
#define A5 19
#define A6 20
#define A7 21

typedef bool boolean;
typedef uint8_t byte;

class __FlashStringHelper;
#define F(string_literal) (reinterpret_cast<const __FlashStringHelper *>(string_literal))

class String {
 public:
  String(const char *cstr = "");
  String(const String &str);
  String(const __FlashStringHelper *str);
  explicit String(char c);
  explicit String(unsigned char, unsigned char base = 10);
  explicit String(int, unsigned char base = 10);
  explicit String(unsigned int, unsigned char base = 10);
  explicit String(long, unsigned char base = 10);
  explicit String(unsigned long, unsigned char base = 10);
  explicit String(float, unsigned char decimalPlaces = 2);
  explicit String(double, unsigned char decimalPlaces = 2);
  ~String();
  String &operator=(const String &rhs);
  String &operator=(const char *cstr);
  String &operator=(const __FlashStringHelper *str);
  unsigned int length() const;
  String &operator+=(const String &rhs);
  String &operator+=(const char *cstr);
  String &operator+=(char c);
  String &operator+=(int num);
  bool operator==(const String &rhs) const;
  bool operator==(const char *cstr) const;
  bool operator!=(const String &rhs) const;
  bool operator!=(const char *cstr) const;
  bool operator<(const String &rhs) const;
  bool operator>(const String &rhs) const;
  char operator[](unsigned int index) const;
  char &operator[](unsigned int index);
  char charAt(unsigned int index) const;
  String substring(unsigned int beginIndex) const;
  String substring(unsigned int beginIndex, unsigned int endIndex) const;
  long toInt() const;
  float toFloat() const;
  const char *c_str() const;
  int indexOf(char ch) const;
  void trim();
};
String operator+(const String &lhs, const String &rhs);
String operator+(const String &lhs, const char *cstr);
String operator+(const String &lhs, char c);
String operator+(const char *cstr, const String &rhs);

class HardwareSerial {
 public:
  void begin(unsigned long baud);
  size_t print(const String &);
  size_t print(const char[]);
  size_t print(char);
  size_t print(int, int = 10);
  size_t print(unsigned int, int = 10);
  size_t print(long, int = 10);
  size_t print(unsigned long, int = 10);
  size_t print(double, int = 2);
  size_t print(const __FlashStringHelper *);
  size_t println(const String &);
  size_t println(const char[]);
  size_t println(char);
  size_t println(int, int = 10);
  size_t println(unsigned int, int = 10);
  size_t println(long, int = 10);
  size_t println(unsigned long, int = 10);
  size_t println(double, int = 2);
  size_t println(const __FlashStringHelper *);
  size_t println(void);
  int available(void);
  int read(void);
  String readStringUntil(char terminator);
};
extern HardwareSerial Serial;

void pinMode(uint8_t pin, uint8_t mode);
void digitalWrite(uint8_t pin, uint8_t val);
int digitalRead(uint8_t pin);
int analogRead(uint8_t pin);
void analogWrite(uint8_t pin, int val);
unsigned long millis(void);
unsigned long micros(void);
void delay(unsigned long ms);
void delayMicroseconds(unsigned int us);
unsigned long pulseIn(uint8_t pin, uint8_t state, unsigned long timeout = 1000000UL);
void tone(uint8_t pin, unsigned int frequency, unsigned long duration = 0);
void noTone(uint8_t pin);
long map(long, long, long, long, long);

// Arduino defines these as macros; function templates give the same typing for the checked uses
#undef abs
#undef min
#undef max
template <class T> T abs(T x);
template <class T, class U> auto min(T a, U b) -> decltype(a < b ? a : b);
template <class T, class U> auto max(T a, U b) -> decltype(a < b ? b : a);

void setup();
void loop();

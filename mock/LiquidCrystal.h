#pragma once
#include <Arduino.h>
class LiquidCrystal {
 public:
  LiquidCrystal(uint8_t rs, uint8_t enable, uint8_t d0, uint8_t d1, uint8_t d2, uint8_t d3);
  LiquidCrystal(uint8_t rs, uint8_t rw, uint8_t enable, uint8_t d0, uint8_t d1, uint8_t d2, uint8_t d3);
  void begin(uint8_t cols, uint8_t rows, uint8_t charsize = 0);
  void clear();
  void home();
  void noDisplay();
  void display();
  void setCursor(uint8_t, uint8_t);
  void createChar(uint8_t, uint8_t[]);
  size_t print(const String &);
  size_t print(const char[]);
  size_t print(char);
  size_t print(int, int = 10);
  size_t write(uint8_t);
};

"""script-level oracle on top of sa/sketch.py: the firmware trace of a script (parse -> emit -> clang AST -> C evaluation
on a scripted board) is compared with the trace CPython's execution of the same script leaves on recording stubs."""
from __future__ import annotations

import re
from typing import Dict, List, Tuple

from . import sketch
from .core import AnalysisError

HEAD = ("from Reduino.Utils import sleep\nfrom Reduino.Actuators import Led\nfrom Reduino.Sensors import Potentiometer\n"
        "from Reduino.Communication import SerialMonitor\n"
        "mon = SerialMonitor(9600)\npot = Potentiometer('A0')\nled = Led(13)\n")
BUTTON_HEAD = "from Reduino.Sensors import Button\nbtn = Button(2)\n"


class _Mon:
    def __init__(self, trace):
        self.trace = trace

    def write(self, v):
        self.trace.append(("println", v))


class _Pot:
    def __init__(self, values):
        self.values, self.n = list(values), 0

    def read(self):
        v = self.values[min(self.n, len(self.values) - 1)]
        self.n += 1
        return v


class _Btn:
    """the firmware samples a button once per loop() pass (before user statements); the stand-in does the same"""
    def __init__(self, values):
        self.values, self.n, self.sample = list(values), 0, 0

    def tick(self):
        self.sample = self.values[min(self.n, len(self.values) - 1)]
        self.n += 1

    def is_pressed(self):
        return self.sample == 1


class _Led:
    def __init__(self, trace, pin=13):
        self.trace, self.pin, self.state = trace, pin, 0

    def on(self):
        self.state = 1
        self.trace.append(("digitalWrite", self.pin, 1))

    def off(self):
        self.state = 0
        self.trace.append(("digitalWrite", self.pin, 0))

    def toggle(self):
        self.state = 1 - self.state
        self.trace.append(("digitalWrite", self.pin, self.state))


def python_trace(body: str, passes: int, analog, digital=(0,)) -> List[tuple]:
    trace: List[tuple] = []
    btn = _Btn(digital)
    btn.tick()               # the declaration takes the initial sample in setup()
    genv = {"btn": btn, "__tick": btn.tick,"__builtins__": {"range": range, "len": len, "abs": abs, "max": max, "min": min, "int": int, "float": float, "str": str, "bool": bool, "Exception": Exception},
            "mon": _Mon(trace), "pot": _Pot(analog), "led": _Led(trace), "sleep": lambda ms: trace.append(("delay", ms))}
    code = re.sub(r"^while True:\s*\n(\s+)", lambda m_: f"for __pass in range({passes}):\n{m_.group(1)}__tick()\n{m_.group(1)}", body, flags=re.M)
    exec(compile(code, "<e2e script>", "exec"), genv)        # the checker's own script on the checker's own stubs
    return trace


def _norm(v):
    if isinstance(v, bool):
        return int(v)
    if isinstance(v, float):
        return round(v, 4)
    return v


def _same(a, b):
    if a[0] != b[0] or len(a) != len(b):
        return False
    for x, y in zip(a[1:], b[1:]):
        x, y = _norm(x), _norm(y)
        if isinstance(x, (int, float)) and isinstance(y, (int, float)):
            if abs(x - y) > 1e-3 * max(1.0, abs(x), abs(y)):
                return False
        elif x != y:
            return False
    return True


KEEP = {"println", "print", "delay", "digitalWrite"}


LAST_READS: List[int] = []


def firmware_trace(text: str, passes: int, analog, max_steps=400000, digital=(0,)):
    ev, glob, live = sketch.run(text, passes, sketch.Board(analog=analog, digital=digital), max_steps=max_steps)
    out = []
    del LAST_READS[:]
    for nm, a in ev:
        if nm in ("<setup>", "<loop>"):
            LAST_READS.append(0)
        elif nm == "digitalRead" and LAST_READS:
            LAST_READS[-1] += 1
        if nm in KEEP:
            out.append((nm,) + tuple(a))
    return out, live


def compare(body: str, passes: int, schedules=((0,), (1000,))) -> Tuple[str, str]:
    """-> ('refused', exception) | ('equal', '') | ('differ', explanation) | ('leak', explanation)"""
    st, text = sketch.transpile(HEAD + body)
    if st != "ok":
        return "refused", text
    for analog in schedules:
        want = python_trace(body, passes, analog)
        try:
            got, live = firmware_trace(text, passes, analog)
        except sketch.SketchUnsupported as e:
            raise AnalysisError(f"the emitted sketch left the evaluable C subset: {e}")
        if len(got) != len(want) or not all(_same(g, w) for g, w in zip(got, want)):
            i_ = next((i for i, (g, w) in enumerate(zip(got, want)) if not _same(g, w)), min(len(got), len(want)))
            return "differ", f"sensor schedule {list(analog)}: event #{i_ + 1} is {got[i_] if i_ < len(got) else 'missing'} on the device and {want[i_] if i_ < len(want) else 'missing'} in Python ({len(got)} vs {len(want)} events)"
    return "equal", ""


# ---------------------------------------------------------------------------------------------
# corpus: label -> (body after HEAD, loop passes, tags)
#   tags: 'c01' trace equality, 'c02' values that only survive in the right C++ type, 'c05' phases/ordering,
#         'c06' must compile, 'c09' heap stays flat over the passes
# every script is small and has one purpose, so a known finding on one script cannot hide a second defect
# ---------------------------------------------------------------------------------------------
CORPUS: Dict[str, Tuple[str, int, str]] = {
    # control flow
    "nested-range-start-step": ("n = 0\nwhile n < 2:\n    acc = 0\n    for i in range(2, 8, 2):\n        acc += i\n    mon.write(acc)\n    n = n + 1\nwhile True:\n    mon.write(n)\n", 1, "c01 c06"),
    "range-start-from-outer-variable": ("while True:\n    for row in range(3):\n        for col in range(row + 1, 4):\n            mon.write(row * 10 + col)\n", 1, "c01 c06"),
    "range-with-step-in-try-and-for": ("while True:\n    for k in range(2):\n        got = 0\n        for j in range(1, 10, 3):\n            got = got + j\n        mon.write(got)\n", 1, "c01 c06"),
    "range-negative-step": ("while True:\n    for i in range(5, 0, -2):\n        mon.write(i)\n", 1, "c01 c06"),
    "empty-branch-condition-effects": ("k = 0\ndef probe(v):\n    mon.write(v)\n    return v > 5\nwhile True:\n    k = k + 1\n    if probe(k):\n        pass\n    elif probe(k + 10):\n        pass\n    mon.write(0)\n", 2, "c01 c06"),
    "chain-compare-effects": ("def mid():\n    mon.write(7)\n    return 5\nwhile True:\n    if 1 < mid() < 9:\n        mon.write(1)\n", 1, "c01 c06"),
    "short-circuit": ("def t(v):\n    mon.write(v)\n    return v > 0\nwhile True:\n    if t(0) and t(1):\n        mon.write(100)\n    if t(2) or t(3):\n        mon.write(200)\n", 1, "c01 c06"),
    "break-in-inner-while": ("while True:\n    i = 0\n    while i < 6:\n        i = i + 1\n        if i == 4:\n            break\n        mon.write(i)\n    mon.write(99)\n", 2, "c01 c05 c06"),
    "break-in-for": ("while True:\n    for i in range(6):\n        if i == 3:\n            break\n        mon.write(i)\n    mon.write(77)\n", 2, "c01 c05 c06"),
    "early-return": ("def f(v):\n    if v > 2:\n        return 1\n    mon.write(v)\n    return 0\nwhile True:\n    a = f(1)\n    b = f(3)\n    mon.write(a + b * 10)\n", 1, "c01 c06"),
    "ternary": ("x = 0\nwhile True:\n    x = x + 1\n    y = 10 if x > 1 else 20\n    mon.write(y)\n", 2, "c01 c06"),
    "range-bound-effects": ("def lim():\n    mon.write(9)\n    return 3\nwhile True:\n    for i in range(lim()):\n        mon.write(i)\n", 1, "c01 c06"),
    "range-bound-changed-in-body": ("n = 3\nwhile True:\n    n = 3\n    for i in range(n):\n        n = n - 1\n        mon.write(i)\n", 1, "c01 c06"),
    "arg-order": ("def a():\n    mon.write(1)\n    return 1\ndef b():\n    mon.write(2)\n    return 2\ndef add(x, y):\n    return x + y\nwhile True:\n    mon.write(add(a(), b()))\n", 1, "c01 c06"),
    "while-cond-effects": ("k = 0\ndef more():\n    mon.write(k)\n    return k < 3\nwhile True:\n    k = 0\n    while more():\n        k = k + 1\n", 1, "c01 c06"),
    "nested-if-in-for": ("while True:\n    for i in range(4):\n        if i == 1:\n            mon.write(10)\n        elif i == 2:\n            mon.write(20)\n        else:\n            mon.write(i)\n", 1, "c01 c06"),
    "else-of-nested-if": ("while True:\n    v = pot.read()\n    if v > 500:\n        if v > 900:\n            mon.write(1)\n        else:\n            mon.write(2)\n    else:\n        if v < 1:\n            mon.write(3)\n        else:\n            mon.write(4)\n", 1, "c01 c06"),
    "sensor-branch": ("while True:\n    v = pot.read()\n    if v > 500:\n        mon.write(1)\n    elif v > 100:\n        mon.write(2)\n    else:\n        mon.write(3)\n", 1, "c01 c06"),
    "try-except": ("while True:\n    try:\n        mon.write(1)\n    except Exception:\n        mon.write(2)\n    mon.write(3)\n", 1, "c01 c06"),
    "recursion": ("def fact(n):\n    if n < 2:\n        return 1\n    return n * fact(n - 1)\nwhile True:\n    mon.write(fact(5))\n", 1, "c01 c06"),
    "local-shadow": ("v = 5\ndef f():\n    v = 1\n    return v\nwhile True:\n    mon.write(f() + v)\n", 1, "c01 c06"),
    "global-in-function": ("hits = 0\ndef bump():\n    global hits\n    hits = hits + 1\n    return hits\nwhile True:\n    bump()\n    mon.write(hits)\n", 2, "c01 c05 c06"),
    "loop-variable-after-the-loop": ("while True:\n    for i in range(3):\n        mon.write(i)\n    mon.write(i)\n", 1, "c06"),
    # expressions
    "builtins": ("x = -7\nwhile True:\n    mon.write(abs(x))\n    mon.write(max(x, 3))\n    mon.write(min(x, 3, 1))\n    mon.write(int(2.9))\n    mon.write(float(3) / 2)\n    mon.write(str(5) + 'x')\n", 1, "c01 c06"),
    "fstring-expr": ("n = 3\nwhile True:\n    n = n + 1\n    mon.write(f'n={n} twice={n * 2}')\n", 2, "c01 c06"),
    "not-and-bool": ("f = False\nwhile True:\n    f = not f\n    if f:\n        mon.write(1)\n    else:\n        mon.write(0)\n", 3, "c01 c05 c06"),
    "compare-ops": ("x = 3\nwhile True:\n    mon.write(x == 3)\n    mon.write(x != 3)\n    mon.write(x >= 4)\n    mon.write(1 < x < 5)\n", 1, "c01 c06"),
    "aug-ops": ("a = 7\nwhile True:\n    a += 3\n    a -= 1\n    a *= 2\n    mon.write(a)\n    b = a // 4\n    c = a % 4\n    mon.write(b)\n    mon.write(c)\n", 2, "c01 c05 c06"),
    "aug-with-call": ("t = 0\ndef inc():\n    mon.write(5)\n    return 2\nwhile True:\n    t += inc()\n    mon.write(t)\n", 2, "c01 c06"),
    "str-compare": ("s = 'on'\nwhile True:\n    if s == 'on':\n        s = 'off'\n    else:\n        s = 'on'\n    mon.write(s)\n", 3, "c01 c05 c06"),
    "string-build": ("s = 'a'\nwhile True:\n    t = s + 'b'\n    mon.write(t)\n    mon.write(f'n={len(t)}')\n", 1, "c01 c06"),
    # tuple assignment
    "swap-in-loop": ("a = 1\nb = 2\nwhile True:\n    a, b = b, a\n    mon.write(a * 10 + b)\n", 3, "c01 c05 c06"),
    "tuple-helper-reads-target": ("count = 10\nprev = 0\ndef peek():\n    return count\nwhile True:\n    count, prev = 0, peek()\n    mon.write(prev)\n    count = 6\n", 2, "c01 c06"),
    "tuple-float-into-new-name": ("total = 2.5\nwhile True:\n    total, last = 0, total\n    mon.write(last)\n    total = 2.5\n", 2, "c01 c02 c06"),
    "tuple-float-rotation": ("a = 1\nb = 2.5\nc = 4\nwhile True:\n    a, b, c = c, a, b\n    mon.write(b)\n    a = 1\n    b = 2.5\n    c = 4\n", 1, "c02 c06"),
    # types that must hold the value
    "int-float-mix": ("a = 3\nb = 0.5\nwhile True:\n    c = a * b\n    mon.write(c)\n    d = a + 1\n    mon.write(d)\n", 1, "c01 c02 c06"),
    "two-call-signatures-narrow-first": ("h = 2.5\ndef bump(a):\n    return a + 1\nwhile True:\n    r1 = bump(2)\n    r2 = bump(h)\n    mon.write(r1)\n    mon.write(r2)\n", 1, "c02 c06"),
    "two-call-signatures-wide-first": ("h = 2.5\ndef bump(a):\n    return a + 1\nwhile True:\n    r2 = bump(h)\n    r1 = bump(2)\n    mon.write(r1)\n    mon.write(r2)\n", 1, "c02 c06"),
    "float-literal-argument-of-a-two-variant-helper": ("def bump(a):\n    return a + 1\nwhile True:\n    r1 = bump(2)\n    r2 = bump(2.5)\n    mon.write(r2)\n", 1, "c06"),
    "helper-called-only-inside-a-device-argument": ("def dbl(v):\n    return v * 2\nwhile True:\n    mon.write(dbl(0.25) * 4)\n", 1, "c02 c06"),
    "hoisted-float-in-function-after-top-level-hoist": ("x = 0\nif x > 1:\n    top = 1\nelse:\n    top = 2\ndef level(a):\n    if a > 0:\n        v = 1.5\n    else:\n        v = 0.5\n    return v\nwhile True:\n    p = level(1)\n    q = level(0)\n    mon.write(p)\n    mon.write(q)\n", 1, "c02 c06"),
    "same-hoisted-name-int-then-float-variant": ("x = 0\nh = 1.25\nif x > 1:\n    top = 1\nelse:\n    top = 2\ndef scale(a):\n    if a > 0:\n        v = a * 2\n    else:\n        v = a\n    return v\nwhile True:\n    p = scale(2)\n    q = scale(h)\n    mon.write(p)\n    mon.write(q)\n", 1, "c02 c06"),
    "float-parameter-kept": ("h = 0.5\ndef half(v):\n    w = v\n    v = 1\n    return w + v\nwhile True:\n    r = half(h)\n    mon.write(r)\n", 1, "c02 c06"),
    "float-accumulator": ("acc = 0.0\nwhile True:\n    acc = acc + 0.25\n    mon.write(acc * 4)\n", 3, "c02 c05 c06"),
    # phases and persistence
    "prologue-once": ("boot = 0\nboot = boot + 1\nmon.write(boot)\nfor i in range(2):\n    mon.write(i)\nwhile True:\n    boot = boot + 10\n    mon.write(boot)\n", 3, "c01 c05 c06"),
    "prologue-order-with-devices": ("mon.write(1)\nled.on()\nsleep(5)\nmon.write(2)\nled.off()\nwhile True:\n    led.toggle()\n    sleep(7)\n", 2, "c01 c05 c06"),
    "global-initialised-from-reassigned-operand": ("base = 2\nfor i in range(3):\n    base = base * 2\nlimit = base + 5\nwhile True:\n    mon.write(limit)\n", 1, "c01 c05 c06"),
    "global-after-branch-accumulation": ("result = 0\nstep = 4\nif step > 1:\n    result = result + step\nfinal = result * 3\nwhile True:\n    mon.write(final)\n", 1, "c01 c05 c06"),
    "global-after-tuple-swap": ("lo = 1\nhi = 2\nlo, hi = hi, lo\nspan = lo + 10\nwhile True:\n    mon.write(span)\n    mon.write(hi)\n", 1, "c01 c05 c06"),
    "first-assignment-opens-the-loop": ("while True:\n    frame = 1\n    frame = frame + pot.read()\n    mon.write(frame)\n", 2, "c01 c05 c06"),
    "button-sample-first-statement-declares": ("while True:\n    pressed = btn.is_pressed()\n    if pressed:\n        mon.write(1)\n    else:\n        mon.write(0)\n", 4, "c05 c06 c15"),
    "button-sample-after-first-assignment": ("while True:\n    frame = 1\n    if btn.is_pressed():\n        frame = frame + 1\n    mon.write(frame)\n", 4, "c05 c06 c15"),
    "button-sample-same-in-one-pass": ("while True:\n    a = btn.is_pressed()\n    sleep(3)\n    b = btn.is_pressed()\n    if a == b:\n        mon.write(1)\n    else:\n        mon.write(0)\n", 3, "c05 c06 c15"),
    "button-in-nested-while-condition": ("while True:\n    n = 0\n    while btn.is_pressed() and n < 3:\n        n = n + 1\n        sleep(2)\n    mon.write(n)\n", 4, "c15 c06"),
    "button-in-helper-called-from-the-loop": ("def armed():\n    return btn.is_pressed()\nwhile True:\n    if armed():\n        mon.write(1)\n    sleep(1)\n    if armed():\n        mon.write(2)\n    mon.write(0)\n", 4, "c15 c06"),
    "button-in-boolean-expression": ("hold = 0\nwhile True:\n    if btn.is_pressed() and not hold > 1:\n        hold = hold + 1\n    elif not btn.is_pressed():\n        hold = 0\n    mon.write(hold)\n", 5, "c15 c06"),
    "button-value-in-arithmetic": ("total = 0\nwhile True:\n    total = total + btn.is_pressed() * 2 + btn.is_pressed()\n    mon.write(total)\n", 4, "c15 c06"),
    "led-and-sleep": ("while True:\n    led.on()\n    sleep(100)\n    led.off()\n    sleep(50)\n    led.toggle()\n", 2, "c01 c05 c06"),
    # lists
    "list-index-and-append": ("xs = [4, 5, 6]\nwhile True:\n    v = pot.read()\n    xs.append(v)\n    mon.write(xs[0] + xs[2])\n", 2, "c01 c06 c09"),
    "list-remove-runtime": ("xs = [1, 2, 3, 2]\nwhile True:\n    xs.remove(2)\n    xs.append(9)\n    mon.write(xs[1])\n", 2, "c01 c06 c09"),
    "list-remove-duplicates-then-values": ("pat = [1, 0, 1, 0]\npat.remove(1)\nwhile True:\n    mon.write(pat[0] * 100 + pat[1] * 10 + pat[2])\n", 1, "c01 c06"),
    "list-swap-keeps-heap-flat": ("a = [1, 2]\nb = [3, 4, 5]\nwhile True:\n    a, b = b, a\n    mon.write(a[0])\n", 3, "c01 c06 c09"),
    "list-cleared-each-pass": ("buf = [0]\nwhile True:\n    buf = []\n    buf.append(pot.read())\n    buf.append(2)\n    mon.write(buf[1])\n", 3, "c01 c06 c09"),
    "list-first-assigned-in-branch": ("while True:\n    v = pot.read()\n    if v > 5:\n        xs = [1, 2]\n    else:\n        xs = [3, 4]\n    mon.write(xs[0])\n", 2, "c06"),
    "list-first-assigned-in-loop-body": ("n = 0\nwhile n < 2:\n    ys = [n, n]\n    n = n + 1\nwhile True:\n    mon.write(n)\n", 1, "c06"),
    "len-of-serial-text-without-lists": ("while True:\n    msg = mon.read()\n    mon.write(len(msg))\n", 1, "c06"),
    "string-literal-with-backslash": ("while True:\n    mon.write('C:\\\\temp')\n    mon.write('a\\\\d+')\n", 1, "c01 c06"),
}


def _task(item):
    label, body, passes = item
    try:
        if not set(CORPUS[label][2].split()) & {"c01", "c02", "c05", "c09", "c15"}:
            st, text = sketch.transpile(HEAD + (BUTTON_HEAD if "btn." in body else "") + body)
            if st != "ok":
                return label, ("refused", text, None)
            try:
                sketch.unit(text)
            except sketch.Uncompilable as e:
                return label, ("uncompilable", str(e), None)
            return label, ("compiles", "", None)
        return label, compare_full(body, passes)
    except AnalysisError as e:
        return label, ("error", str(e), None)


def compare_full(body, passes, schedules=((0, 0, 0), (1000, 700, 3))):
    """-> (status, detail, live heap counts | None); status in refused / uncompilable / equal / differ"""
    uses_btn = "btn." in body
    st, text = sketch.transpile(HEAD + (BUTTON_HEAD if uses_btn else "") + body)
    if st != "ok":
        return "refused", text, None
    lives = None
    for analog in schedules:
        digital = (1, 0, 1, 1, 0) if analog[0] else (0, 1, 1, 0, 1)
        try:
            want = python_trace(body, passes, analog, digital)
        except Exception as e:      # the checker's own script must run under CPython
            raise AnalysisError(f"the corpus script does not run under CPython: {type(e).__name__}: {e}")
        try:
            got, live = firmware_trace(text, passes, analog, digital=digital)
        except sketch.Uncompilable as e:
            return "uncompilable", str(e), None
        except sketch.SketchUnsupported as e:
            raise AnalysisError(f"the emitted sketch left the evaluable C subset: {e}")
        lives = live
        if "btn." in body and any(n_ != 1 for n_ in LAST_READS):
            return "differ", f"pin reads per phase (setup, then each loop() pass): {list(LAST_READS)} - the button pin must be sampled exactly once in setup() and once per pass, every is_pressed() of a pass answers from that sample", live
        if len(got) != len(want) or not all(_same(g, w) for g, w in zip(got, want)):
            i_ = next((i for i, (g, w) in enumerate(zip(got, want)) if not _same(g, w)), min(len(got), len(want)))
            return "differ", f"sensor schedule {list(analog)}: event #{i_ + 1} is {got[i_] if i_ < len(got) else 'missing'} on the device and {want[i_] if i_ < len(want) else 'missing'} in Python ({len(got)} device events, {len(want)} Python events)", live
    return "equal", "", lives


_RESULTS = None


def results():
    """all corpus scripts, evaluated once per process (fork pool)"""
    global _RESULTS
    if _RESULTS is None:
        import concurrent.futures as cf
        import multiprocessing
        import os
        items = [(k, v[0], v[1]) for k, v in CORPUS.items()]
        sketch.transpile(HEAD + "while True:\n    z0 = 0\n")      # warm the module caches before forking
        try:
            with cf.ProcessPoolExecutor(max_workers=__import__('sa.core', fromlist=['workers']).workers(8), mp_context=multiprocessing.get_context("fork")) as ex:
                out = list(ex.map(_task, items))
        except (OSError, ValueError, cf.process.BrokenProcessPool):
            out = [_task(i_) for i_ in items]
        _RESULTS = dict(out)
    return _RESULTS


def rule_traces(cx, rid, tag, anchor, what, floor=8):
    """trace equality for the corpus scripts carrying `tag`"""
    r = cx.rule(rid, what, floor=floor)
    n_eq = 0
    for label, (body, passes, tags) in CORPUS.items():
        if tag not in tags.split():
            continue
        st, detail, live = results()[label]
        if st == "error":
            raise AnalysisError(f"e2e script `{label}`: {detail}")
        if st in ("refused", "uncompilable"):
            r.ok(f"{label}: {st} ({detail[:60]})")
            continue
        n_eq += st == "equal"
        r.check(st == "equal", f"e2e[{label}]", anchor, f"script `{label}` ({passes} loop pass(es)): {detail}", sample=f"{label}: device trace = CPython trace")
    if n_eq < 5:
        raise AnalysisError(f"{rid}: fewer than five corpus scripts could be compared")
    return r


def rule_compiles(cx, rid, anchor):
    r = cx.rule(rid, "every corpus script the transpiler accepts yields a translation unit clang accepts against the mock core (declarations before uses, initialisers of the declared type, helper templates complete, string literals well formed)", floor=20)
    for label, (body, passes, tags) in CORPUS.items():
        if "c06" not in tags.split():
            continue
        st, detail, live = results()[label]
        if st == "error":
            raise AnalysisError(f"e2e script `{label}`: {detail}")
        if st == "refused":
            r.ok(f"{label}: refused ({detail[:40]})")
            continue
        r.check(st != "uncompilable", f"compiles[{label}]", anchor, f"script `{label}` is accepted but the sketch does not compile: {detail}", sample=f"{label}: compiles")
    return r


def rule_heap(cx, rid, anchor):
    r = cx.rule(rid, "list scripts keep the number of live heap buffers constant from one loop() pass to the next (C evaluation of the whole sketch with a tracked heap: every new[] not released by delete[] is counted after each pass)", floor=3)
    for label, (body, passes, tags) in CORPUS.items():
        if "c09" not in tags.split():
            continue
        st, detail, live = results()[label]
        if st == "error":
            raise AnalysisError(f"e2e script `{label}`: {detail}")
        if live is None:
            r.ok(f"{label}: {st}")
            continue
        flat = len(set(live[1:])) <= 1
        r.check(flat, f"heap[{label}]", anchor, f"script `{label}`: live heap buffers after setup and each loop() pass: {live} - the count grows from pass to pass", sample=f"{label}: {live}")
    return r

"""E1 - source model of /repo/src/Reduino (parse only, nothing is imported or run)."""
from __future__ import annotations

import ast
import os
from typing import Dict, Iterable, Iterator, List, Optional, Tuple

from .core import REPO, AnalysisError, sha

PKG = "src/Reduino"


class Mod:
    def __init__(self, rel: str):
        self.rel = rel
        self.path = os.path.join(REPO, rel)
        if not os.path.exists(self.path):
            raise AnalysisError(f"anchor file vanished: {rel}")
        with open(self.path, encoding="utf-8") as fh:
            self.text = fh.read()
        self.sha = sha(self.text)
        try:
            self.tree = ast.parse(self.text, filename=rel)
        except SyntaxError as e:
            raise AnalysisError(f"{rel} does not parse: {e}")
        self.lines = self.text.splitlines()
        self.parent: Dict[ast.AST, ast.AST] = {}
        for n in ast.walk(self.tree):
            for c in ast.iter_child_nodes(n):
                self.parent[c] = n
        self.funcs: Dict[str, ast.FunctionDef] = {}
        self.classes: Dict[str, ast.ClassDef] = {}
        self._index(self.tree, "")
        self.imports: Dict[str, Tuple[str, Optional[str]]] = {}
        for st in ast.walk(self.tree):
            if isinstance(st, ast.Import):
                for a in st.names:
                    self.imports[(a.asname or a.name).split(".")[0]] = (a.name if a.asname else a.name.split(".")[0], None)
            elif isinstance(st, ast.ImportFrom) and st.module and not st.level:
                for a in st.names:
                    self.imports[a.asname or a.name] = (st.module, a.name)
        self.consts: Dict[str, ast.AST] = {}
        for st in self.tree.body:
            if isinstance(st, ast.Assign) and len(st.targets) == 1 and isinstance(st.targets[0], ast.Name):
                self.consts[st.targets[0].id] = st.value
            elif isinstance(st, ast.AnnAssign) and isinstance(st.target, ast.Name) and st.value is not None:
                self.consts[st.target.id] = st.value
            elif isinstance(st, ast.Assign) and len(st.targets) == 1 and isinstance(st.targets[0], (ast.Tuple, ast.List)) \
                    and isinstance(st.value, (ast.Tuple, ast.List)) and len(st.value.elts) == len(st.targets[0].elts) \
                    and not any(isinstance(e, ast.Starred) for e in st.targets[0].elts + st.value.elts):
                # A, B = 1, 2
                for t, v in zip(st.targets[0].elts, st.value.elts):
                    if isinstance(t, ast.Name):
                        self.consts[t.id] = v
            elif isinstance(st, ast.Assign) and len(st.targets) > 1 and all(isinstance(t, ast.Name) for t in st.targets):
                # A = B = 1
                for t in st.targets:
                    self.consts[t.id] = st.value

    def _index(self, node, prefix):
        for c in ast.iter_child_nodes(node):
            if isinstance(c, (ast.FunctionDef, ast.AsyncFunctionDef)):
                q = prefix + c.name
                # keep the first definition under the plain name, later ones get #n
                if q in self.funcs:
                    k = 2
                    while f"{q}#{k}" in self.funcs:
                        k += 1
                    q = f"{q}#{k}"
                self.funcs[q] = c
                self._index(c, prefix + c.name + ".")
            elif isinstance(c, ast.ClassDef):
                self.classes[prefix + c.name] = c
                self._index(c, prefix + c.name + ".")
            else:
                self._index(c, prefix)

    # -- lookup ------------------------------------------------------------------------------
    def func(self, qual: str) -> ast.FunctionDef:
        f = self.funcs.get(qual)
        if f is None:
            raise AnalysisError(f"anchor function vanished: {self.rel}:{qual}")
        return f

    def cls(self, name: str) -> ast.ClassDef:
        c = self.classes.get(name)
        if c is None:
            raise AnalysisError(f"anchor class vanished: {self.rel}:{name}")
        return c

    def const(self, name: str) -> ast.AST:
        c = self.consts.get(name)
        if c is None:
            raise AnalysisError(f"anchor constant vanished: {self.rel}:{name}")
        return c

    def seg(self, node: ast.AST) -> str:
        return ast.get_source_segment(self.text, node) or ""

    def enclosing_func(self, node: ast.AST) -> Optional[ast.FunctionDef]:
        p = self.parent.get(node)
        while p is not None and not isinstance(p, (ast.FunctionDef, ast.AsyncFunctionDef)):
            p = self.parent.get(p)
        return p

    def qualname_of(self, fn: ast.AST) -> str:
        rev = getattr(self, "_rev", None)
        if rev is None:
            rev = {id(f): q for q, f in self.funcs.items()}
            self._rev = rev
        return rev.get(id(fn), getattr(fn, "name", "?"))

    def ancestors(self, node: ast.AST) -> Iterator[ast.AST]:
        p = self.parent.get(node)
        while p is not None:
            yield p
            p = self.parent.get(p)


_CACHE: Dict[str, Mod] = {}


def mod(rel: str) -> Mod:
    if not rel.startswith("src/"):
        rel = f"{PKG}/{rel}"
    m = _CACHE.get(rel)
    if m is None:
        m = Mod(rel)
        _CACHE[rel] = m
    return m


def all_package_files() -> List[str]:
    out = []
    root = os.path.join(REPO, PKG)
    for d, _dirs, files in os.walk(root):
        if "__pycache__" in d:
            continue
        for f in sorted(files):
            if f.endswith(".py"):
                out.append(os.path.relpath(os.path.join(d, f), REPO))
    return sorted(out)


# -- generic AST helpers ---------------------------------------------------------------------

def walk_local(node: ast.AST, include_self: bool = True) -> Iterator[ast.AST]:
    """Walk ``node`` without descending into nested function/class/lambda bodies."""
    stack = [node]
    first = True
    while stack:
        n = stack.pop()
        if not first and isinstance(n, (ast.FunctionDef, ast.AsyncFunctionDef, ast.ClassDef, ast.Lambda)):
            continue
        if not first or include_self:
            yield n
        first = False
        stack.extend(reversed(list(ast.iter_child_nodes(n))))


def dotted(node: ast.AST) -> Optional[str]:
    """``a.b.c`` -> "a.b.c" for Name/Attribute chains, else None."""
    parts = []
    while isinstance(node, ast.Attribute):
        parts.append(node.attr)
        node = node.value
    if isinstance(node, ast.Name):
        parts.append(node.id)
        return ".".join(reversed(parts))
    return None


def call_name(node: ast.AST) -> Optional[str]:
    if isinstance(node, ast.Call):
        return dotted(node.func)
    return None


def calls_in(node: ast.AST, local: bool = True) -> Iterator[ast.Call]:
    it = walk_local(node) if local else ast.walk(node)
    for n in it:
        if isinstance(n, ast.Call):
            yield n


def const_value(node: ast.AST):
    if isinstance(node, ast.Constant):
        return node.value
    raise ValueError("not a constant")


def is_const(node: ast.AST, value=None) -> bool:
    if not isinstance(node, ast.Constant):
        return False
    return True if value is None else (node.value == value and type(node.value) is type(value))


def kwarg(call: ast.Call, name: str) -> Optional[ast.AST]:
    for kw in call.keywords:
        if kw.arg == name:
            return kw.value
    return None


def names_in(node: ast.AST) -> set:
    return {n.id for n in ast.walk(node) if isinstance(n, ast.Name)}


def norm(node: ast.AST) -> str:
    """Normalised text of a node (layout/quoting independent)."""
    return ast.unparse(node)


def stmt_key(node: ast.AST, limit: int = 70) -> str:
    s = " ".join(ast.unparse(node).split())
    return s if len(s) <= limit else s[: limit - 3] + "..."


def func_params(fn: ast.FunctionDef) -> List[Tuple[str, str, Optional[ast.AST]]]:
    """[(name, kind, default)] with kind in posonly/pos/kwonly/vararg/kwarg; default None if required."""
    a = fn.args
    out = []
    pos = list(a.posonlyargs) + list(a.args)
    nd = len(a.defaults)
    for i, p in enumerate(pos):
        d = a.defaults[i - (len(pos) - nd)] if i >= len(pos) - nd else None
        kind = "posonly" if i < len(a.posonlyargs) else "pos"
        out.append((p.arg, kind, d))
    if a.vararg:
        out.append((a.vararg.arg, "vararg", None))
    for p, d in zip(a.kwonlyargs, a.kw_defaults):
        out.append((p.arg, "kwonly", d))
    if a.kwarg:
        out.append((a.kwarg.arg, "kwarg", None))
    return out


class Locals:
    """Single-assignment view of a function's locals (reaching definitions for the easy case)."""

    def __init__(self, fn: ast.FunctionDef):
        self.fn = fn
        self.defs: Dict[str, List[ast.AST]] = {}
        self.params = {p[0] for p in func_params(fn)}
        for n in walk_local(fn, include_self=False):
            if isinstance(n, ast.Assign):
                for t in n.targets:
                    self._bind(t, n.value)
            elif isinstance(n, ast.AnnAssign) and n.value is not None:
                self._bind(n.target, n.value)
            elif isinstance(n, ast.AugAssign):
                self._bind(n.target, n)
            elif isinstance(n, (ast.For, ast.AsyncFor)):
                self._bind(n.target, n)
            elif isinstance(n, (ast.With, ast.AsyncWith)):
                for it in n.items:
                    if it.optional_vars is not None:
                        self._bind(it.optional_vars, n)
            elif isinstance(n, ast.NamedExpr):
                self._bind(n.target, n.value)
            elif isinstance(n, ast.ExceptHandler) and n.name:
                self.defs.setdefault(n.name, []).append(n)

    def _bind(self, t, v):
        if isinstance(t, ast.Name):
            self.defs.setdefault(t.id, []).append(v)
        elif isinstance(t, (ast.Tuple, ast.List)):
            for i, e in enumerate(t.elts):
                if isinstance(v, (ast.Tuple, ast.List)) and len(v.elts) == len(t.elts):
                    self._bind(e, v.elts[i])
                else:
                    self._bind(e, ast.Subscript(value=v, slice=ast.Constant(value=i), ctx=ast.Load()) if isinstance(v, ast.expr) else v)
        elif isinstance(t, ast.Starred):
            self._bind(t.value, v)

    def rebound(self, name: str) -> bool:
        return name in self.defs and (name in self.params or len(self.defs[name]) > 1)

    def resolve(self, node: ast.AST, depth: int = 0) -> ast.AST:
        """Follow Name -> its unique defining expression (parameters and multiply-assigned names stay)."""
        while isinstance(node, ast.Name) and depth < 20:
            ds = self.defs.get(node.id)
            if node.id in self.params or not ds or len(ds) != 1 or not isinstance(ds[0], ast.expr):
                return node
            node = ds[0]
            depth += 1
        return node


def inline_self_calls(meths: Dict[str, ast.FunctionDef], fn: ast.FunctionDef, depth: int = 2) -> ast.FunctionDef:
    """Copy of ``fn`` in which statement-level ``self.helper()`` calls (no arguments) are replaced by the helper's
    body, wrapped as ``while True: <body with return -> break>; break`` so that an early return of the helper
    only leaves the helper.  Lets path analyses see logic that was moved into a private helper."""
    import copy

    class RetToBreak(ast.NodeTransformer):
        def visit_FunctionDef(self, n):
            return n

        def visit_Return(self, n):
            return ast.copy_location(ast.Break(), n)

    def expand(stmts, d):
        out = []
        for st in stmts:
            if d > 0 and isinstance(st, ast.Expr) and isinstance(st.value, ast.Call) and isinstance(st.value.func, ast.Attribute) \
                    and isinstance(st.value.func.value, ast.Name) and st.value.func.value.id == "self" and not st.value.args and not st.value.keywords \
                    and st.value.func.attr in meths and meths[st.value.func.attr] is not fn:
                callee = copy.deepcopy(meths[st.value.func.attr])
                body = [RetToBreak().visit(b) for b in expand(callee.body, d - 1)]
                body.append(ast.Break())
                w = ast.While(test=ast.Constant(value=True), body=body, orelse=[])
                ast.copy_location(w, st)
                ast.fix_missing_locations(w)
                out.append(w)
                continue
            st2 = copy.copy(st)
            for field in ("body", "orelse", "finalbody"):
                if hasattr(st2, field) and isinstance(getattr(st2, field), list) and not isinstance(st2, (ast.FunctionDef, ast.ClassDef)):
                    setattr(st2, field, expand(getattr(st2, field), d))
            if isinstance(st2, ast.Try):
                st2.handlers = [copy.copy(h) for h in st2.handlers]
                for h in st2.handlers:
                    h.body = expand(h.body, d)
            out.append(st2)
        return out

    new = copy.copy(fn)
    new.body = expand(fn.body, depth)
    return new

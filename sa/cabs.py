"""Abstract interpretation of the C++ mini IR (sa/cxx.py): intervals per variable, symbolic lower/upper
bound sets (for clamps against variables), boolean flags updated by call hooks, and path splitting on
designated partition variables (trace partitioning).  Used by the L2 rules (clamps dominate writes,
tone/noTone typestate, loop bounds, truncation before print)."""
from __future__ import annotations

from typing import Any, Callable, Dict, List, Optional, Set, Tuple

from .cxx import show
from .num import INF, Iv

TOP = lambda: Iv()


class State:
    __slots__ = ("v", "lo", "hi", "flags", "log")

    def __init__(self):
        self.v: Dict[str, Iv] = {}
        self.lo: Dict[str, frozenset] = {}   # x -> names known to be <= x
        self.hi: Dict[str, frozenset] = {}   # x -> names known to be >= x
        self.flags: Dict[str, Any] = {}
        self.log: Tuple = ()

    def copy(self):
        s = State()
        s.v = dict(self.v)
        s.lo = dict(self.lo)
        s.hi = dict(self.hi)
        s.flags = dict(self.flags)
        s.log = self.log
        return s

    def _saturate(self):
        """make equalities that hold by value explicit for the tracking variables ('@...'), so that a join with a path
        where the same equality holds symbolically keeps it"""
        for k, iv in self.v.items():
            if not k.startswith("@") or iv.lo != iv.hi or iv.lo_s or iv.hi_s:
                continue
            same = frozenset(y for y, jv in self.v.items() if y != k and not y.startswith("@") and jv.lo == jv.hi == iv.lo and not jv.lo_s and not jv.hi_s)
            if same:
                self.lo[k] = self.lo.get(k, frozenset()) | same
                self.hi[k] = self.hi.get(k, frozenset()) | same

    def join(self, o: "State") -> "State":
        self._saturate()
        o._saturate()
        s = State()
        for k in set(self.v) | set(o.v):
            a, b = self.v.get(k), o.v.get(k)
            if k.startswith("@") and (a is None or b is None):
                s.v[k] = a if a is not None else b   # tracking variable: absent = nothing written yet on that path
            else:
                s.v[k] = a.join(b) if a is not None and b is not None else TOP()
        for d_self, d_o, d_s in ((self.lo, o.lo, s.lo), (self.hi, o.hi, s.hi)):
            for k in set(d_self) | set(d_o):
                if k in d_self and k in d_o:
                    d_s[k] = d_self[k] & d_o[k]
                elif k.startswith("@") and (k not in self.v or k not in o.v):
                    d_s[k] = d_self.get(k) or d_o.get(k)
        for k in set(self.flags) | set(o.flags):
            if k.startswith("@") and (k not in self.flags or k not in o.flags):
                s.flags[k] = self.flags.get(k, o.flags.get(k))   # tracking flag: absent = no event yet on that path
                continue
            a, b = self.flags.get(k, "?"), o.flags.get(k, "?")
            s.flags[k] = a if a == b else "?"
        s.log = self.log if len(self.log) <= len(o.log) else o.log
        return s

    def key(self):
        return (tuple(sorted((k, repr(v)) for k, v in self.v.items())), tuple(sorted((k, str(v)) for k, v in self.flags.items())))


def lname(e) -> Optional[str]:
    """name under which an lvalue is tracked"""
    if e is None:
        return None
    if e[0] == "var":
        return e[1]
    if e[0] == "member":
        b = lname(e[1])
        return f"{b}.{e[2]}" if b else None
    if e[0] == "cast":
        return lname(e[2])
    if e[0] == "mcall" and e[2] == "length" and not e[3]:
        b = lname(e[1])
        return f"{b}.length()" if b else None
    return None


class Exec:
    def __init__(self, on_call: Optional[Callable] = None, invariants: Optional[Dict[str, Iv]] = None, partition: Optional[Set[str]] = None,
                 on_stmt: Optional[Callable] = None, pure_calls: Optional[Dict[str, Iv]] = None, on_assign: Optional[Callable] = None,
                 leq: Optional[Set[Tuple[str, str]]] = None, override: Optional[Callable] = None):
        self.on_mem = None               # (kind, expr, state): kind in index-read/index-write/new/delete
        self.unroll = 0                  # >0: unroll loops whose condition is decided, up to this many iterations
        self.leq = leq or set()          # (a, b): variable a <= variable b is an invariant of the program
        self.override = override         # (name, expr, state) -> Iv or None : documented special transfer
        self.on_call = on_call
        self.on_assign = on_assign
        self.var_types = {}      # declared C++ types of locals (integer division typing)
        self.inv = invariants or {}
        self.partition = partition or set()
        self.on_stmt = on_stmt
        self.pure = {"millis": Iv(0, INF), "micros": Iv(0, INF), "digitalRead": Iv(0, 1), "analogRead": Iv(0, 1023), "pulseIn": Iv(0, INF)}
        if pure_calls:
            self.pure.update(pure_calls)

    # -- expressions -------------------------------------------------------------------------
    def read(self, name, st: State) -> Iv:
        if name in st.v:
            return st.v[name]
        for pat, iv in self.inv.items():
            if name == pat or (pat.endswith("*") and name.startswith(pat[:-1])):
                return iv
        return TOP()

    def ev(self, e, st: State) -> Iv:
        if e is None:
            return TOP()
        t = e[0]
        if t == "lit":
            v = e[1]
            if isinstance(v, bool):
                return Iv(int(v), int(v))
            if isinstance(v, (int, float)):
                return Iv(v, v)
            return TOP()
        if t in ("var", "member"):
            n = lname(e)
            return self.read(n, st) if n else TOP()
        if t == "cast":
            inner = self.ev(e[2], st)
            ty = (e[1] or "")
            if "unsigned" in ty or ty in ("uint8_t", "size_t"):
                if inner.lo < 0:
                    return Iv(0, INF)  # wraps: keep only non-negativity
                return Iv(int(inner.lo) if inner.lo != -INF else 0, inner.hi)
            if ty in ("int", "long", "const int", "const long"):
                lo = inner.lo if inner.lo in (-INF, INF) else float(int(inner.lo))
                hi = inner.hi if inner.hi in (-INF, INF) else float(int(inner.hi))
                return Iv(lo, hi)
            if ty == "bool":
                return Iv(0, 1)
            return inner
        if t == "ctor":
            return self.ev(e[2][0], st) if len(e[2]) == 1 else TOP()
        if t == "un":
            a = self.ev(e[2], st)
            if e[1] == "-":
                return Iv(-a.hi, -a.lo, a.hi_s, a.lo_s)
            if e[1] == "+":
                return a
            if e[1] == "!":
                return Iv(0, 1)
            return TOP()
        if t == "bin":
            op = e[1]
            if op in ("<", "<=", ">", ">=", "==", "!=", "&&", "||"):
                d = self.decide(e, st)
                return Iv(1, 1) if d is True else Iv(0, 0) if d is False else Iv(0, 1)
            a, b = self.ev(e[2], st), self.ev(e[3], st)
            if op == "+":
                return Iv(a.lo + b.lo, a.hi + b.hi, a.lo_s or b.lo_s, a.hi_s or b.hi_s)
            if op == "-":
                return Iv(a.lo - b.hi, a.hi - b.lo, a.lo_s or b.hi_s, a.hi_s or b.lo_s)
            if op == "*":
                cands = []
                for x in (a.lo, a.hi):
                    for y in (b.lo, b.hi):
                        if (x in (INF, -INF) and y == 0) or (y in (INF, -INF) and x == 0):
                            cands.append(0)
                        else:
                            cands.append(x * y)
                return Iv(min(cands), max(cands))
            if op == "/" and self.is_int_expr(e[2], st) and self.is_int_expr(e[3], st):
                # C integer division truncates toward zero (monotone in the dividend for a divisor of fixed sign)
                import math
                if b.lo == b.hi and b.lo not in (0, INF, -INF) and a.lo not in (INF, -INF) and a.hi not in (INF, -INF):
                    q1, q2 = a.lo / b.lo, a.hi / b.lo
                    return Iv(math.trunc(min(q1, q2)), math.trunc(max(q1, q2)))
            if op == "/":
                if b.lo > 0 or (b.lo == 0 and b.lo_s):
                    if a.lo >= 0:
                        return Iv(0 if b.hi == INF else a.lo / b.hi, INF if (a.hi == INF or b.lo == 0) else a.hi / b.lo)
                    if b.lo >= 1:
                        m = max(abs(a.lo), abs(a.hi))
                        return Iv(-m, m)
                return TOP()
            if op == "%":
                if b.lo > 0 and b.hi != INF:
                    return Iv(-(b.hi - 1) if a.lo < 0 else 0, b.hi - 1)
                return TOP()
            if op == "&":
                if b.lo >= 0 and b.hi != INF:
                    return Iv(0, b.hi)
                return TOP()
            return TOP()
        if t == "cond":
            d = self.decide(e[1], st)
            if d is True:
                return self.ev(e[2], st)
            if d is False:
                return self.ev(e[3], st)
            s1 = self.refine(e[1], st.copy(), True)
            s2 = self.refine(e[1], st.copy(), False)
            a = self.ev(e[2], s1) if s1 else None
            b = self.ev(e[3], s2) if s2 else None
            if a and b:
                return a.join(b)
            return a or b or TOP()
        if t == "call":
            nm = e[1] if isinstance(e[1], str) else None
            if nm in self.pure:
                return self.pure[nm]
            if nm == "abs" and e[2]:
                a = self.ev(e[2][0], st)
                return Iv(0 if a.lo <= 0 <= a.hi else min(abs(a.lo), abs(a.hi)), max(abs(a.lo), abs(a.hi)))
            if nm in ("min", "max") and len(e[2]) == 2:
                a, b = self.ev(e[2][0], st), self.ev(e[2][1], st)
                return Iv(min(a.lo, b.lo), min(a.hi, b.hi)) if nm == "min" else Iv(max(a.lo, b.lo), max(a.hi, b.hi))
            return TOP()
        if t == "mcall":
            if e[2] == "length":
                n = lname(e)
                iv = self.read(n, st) if n else TOP()
                return iv.meet(Iv(0, INF))
            return TOP()
        if t == "assign":
            return self.ev(e[3], st)
        if t == "sizeof":
            return Iv(1, INF)
        if t == "post":
            return self.ev(e[2], st)
        if t == "pre":
            a = self.ev(e[2], st)
            d = 1 if e[1] == "++" else -1
            return Iv(a.lo + d, a.hi + d, a.lo_s, a.hi_s)
        return TOP()

    INT_T = {"int", "long", "unsigned long", "unsigned int", "size_t", "uint8_t", "byte", "long long", "const int", "const long", "const unsigned long", "uint16_t", "int16_t", "unsigned char", "const size_t"}

    def is_int_expr(self, e, st: State) -> bool:
        """the expression has an integer C++ type (so `/` truncates): literals, variables declared with an integer type (or,
        for undeclared inputs of a run, given as exact Python ints), integer casts, arithmetic of such"""
        if e is None or not isinstance(e, tuple):
            return False
        t = e[0]
        if t == "lit":
            return isinstance(e[1], int) and not isinstance(e[1], bool)
        if t in ("var", "member"):
            n = lname(e)
            if n is None:
                return False
            ty = self.var_types.get(n)
            if ty is not None:
                return ty in self.INT_T
            iv = st.v.get(n)
            return iv is not None and isinstance(iv.lo, int) and isinstance(iv.hi, int) and not isinstance(iv.lo, bool)
        if t == "cast":
            return (e[1] or "").replace("const ", "") in {x.replace("const ", "") for x in self.INT_T}
        if t == "un" and e[1] in ("-", "+"):
            return self.is_int_expr(e[2], st)
        if t == "bin" and e[1] in ("+", "-", "*", "/", "%"):
            return self.is_int_expr(e[2], st) and self.is_int_expr(e[3], st)
        if t in ("post", "pre"):
            return self.is_int_expr(e[2], st)
        if t == "sizeof":
            return True
        if t == "mcall" and e[2] == "length":
            return True
        return False

    def decide(self, c, st: State):
        """True / False / None for a condition"""
        if c is None:
            return None
        t = c[0]
        if t == "lit":
            return bool(c[1]) if isinstance(c[1], (bool, int, float)) else None
        if t == "un" and c[1] == "!":
            d = self.decide(c[2], st)
            return None if d is None else (not d)
        if t == "bin" and c[1] == "&&":
            a, b = self.decide(c[2], st), self.decide(c[3], st)
            if a is False or b is False:
                return False
            return True if a is True and b is True else None
        if t == "bin" and c[1] == "||":
            a, b = self.decide(c[2], st), self.decide(c[3], st)
            if a is True or b is True:
                return True
            return False if a is False and b is False else None
        if t == "bin" and c[1] in ("<", "<=", ">", ">=", "==", "!="):
            a, b = self.ev(c[2], st), self.ev(c[3], st)
            op = c[1]
            la, lb = lname(c[2]), lname(c[3])
            if op in ("<", "<="):
                if a.hi < b.lo or (a.hi == b.lo and (op == "<=" or a.hi_s or b.lo_s)):
                    return True
                if a.lo > b.hi or (a.lo == b.hi and op == "<" ) or (op == "<=" and a.lo == b.hi and (a.lo_s or b.hi_s)):
                    return False
                if op == "<" and la and lb and lb in st.lo.get(la, ()):   # la >= lb
                    return False
                return None
            if op in (">", ">="):
                return self.decide(("bin", "<" if op == ">" else "<=", c[3], c[2]), st)
            if op == "==":
                if a.lo == a.hi == b.lo == b.hi and not (a.lo_s or b.lo_s):
                    return True
                if a.hi < b.lo or a.lo > b.hi or (a.hi == b.lo and (a.hi_s or b.lo_s)) or (a.lo == b.hi and (a.lo_s or b.hi_s)):
                    return False
                return None
            d = self.decide(("bin", "==", c[2], c[3]), st)
            return None if d is None else (not d)
        if t == "cond":
            d = self.decide(c[1], st)
            if d is True:
                return self.decide(c[2], st)
            if d is False:
                return self.decide(c[3], st)
            a, b = self.decide(c[2], st), self.decide(c[3], st)
            return a if a is not None and a == b else None
        n = lname(c)
        if n is not None:
            if n in st.flags and st.flags[n] in (True, False):
                return st.flags[n]
            iv = self.read(n, st)
            if iv.lo == iv.hi == 0:
                return False
            if iv.lo > 0 or iv.hi < 0 or (iv.lo == 0 and iv.lo_s):
                return True
        if t == "cast":
            return self.decide(c[2], st)
        return None

    def refine(self, c, st: State, truth: bool) -> Optional[State]:
        d = self.decide(c, st)
        if d is not None and d != truth:
            return None
        t = c[0]
        if t == "un" and c[1] == "!":
            return self.refine(c[2], st, not truth)
        if t == "cast":
            return self.refine(c[2], st, truth)
        if t == "cond":
            dd = self.decide(c[1], st)
            if dd is True:
                return self.refine(c[2], st, truth)
            if dd is False:
                return self.refine(c[3], st, truth)
            return st      # selector unknown: no refinement (sound)
        if t == "bin" and c[1] in ("&&", "||"):
            conj = (c[1] == "&&") == truth
            if conj:
                s = self.refine(c[2], st, truth)
                return self.refine(c[3], s, truth) if s else None
            return st  # disjunction: no refinement (sound)
        if t == "bin" and c[1] in ("<", "<=", ">", ">=", "==", "!="):
            op = c[1]
            if not truth:
                op = {"<": ">=", "<=": ">", ">": "<=", ">=": "<", "==": "!=", "!=": "=="}[op]
            l, r = c[2], c[3]
            ln, rn = lname(l), lname(r)
            a, b = self.ev(l, st), self.ev(r, st)
            st = st
            if op == "!=":
                for nm, x, y in ((ln, a, b), (rn, b, a)):
                    if nm and y.lo == y.hi and not y.lo_s:
                        x2 = Iv(x.lo, x.hi, x.lo_s or x.lo == y.lo, x.hi_s or x.hi == y.lo)
                        st.v[nm] = x2
                return st
            if ln:
                st.v[ln] = a.meet(self._bound(op, b))
                if rn:
                    self._sym(st, ln, rn, op)
            if rn:
                flip = {"<": ">", "<=": ">=", ">": "<", ">=": "<=", "==": "==", "!=": "!="}[op]
                st.v[rn] = b.meet(self._bound(flip, a))
                if ln:
                    self._sym(st, rn, ln, flip)
            for n_ in (ln, rn):
                if n_ and st.v[n_].lo > st.v[n_].hi:
                    return None
            return st
        n = lname(c)
        if n is not None:
            iv = self.read(n, st)
            if n in st.flags or iv.within(0, 1):
                st.flags[n] = truth
                st.v[n] = Iv(1, 1) if truth else Iv(0, 0)
            elif not truth:
                st.v[n] = Iv(0, 0)
            return st
        return st

    @staticmethod
    def _bound(op, b: Iv) -> Iv:
        if op == "<":
            return Iv(hi=b.hi, hi_s=True)
        if op == "<=":
            return Iv(hi=b.hi, hi_s=b.hi_s)
        if op == ">":
            return Iv(lo=b.lo, lo_s=True)
        if op == ">=":
            return Iv(lo=b.lo, lo_s=b.lo_s)
        if op == "==":
            return Iv(b.lo, b.hi, b.lo_s, b.hi_s)
        return Iv()

    @staticmethod
    def _sym(st, x, y, op):
        if op in (">", ">=", "=="):
            st.lo[x] = st.lo.get(x, frozenset()) | {y}
        if op in ("<", "<=", "=="):
            st.hi[x] = st.hi.get(x, frozenset()) | {y}

    # -- statements --------------------------------------------------------------------------
    def assign(self, name, e, st: State):
        iv = self.ev(e, st)
        if self.override:
            o = self.override(name, e, st)
            if o is not None:
                iv = o
        if self.on_assign:
            self.on_assign(name, e, iv, st)
        st.v[name] = iv
        src = lname(e) if e is not None else None
        # drop symbolic facts about the overwritten variable, and facts that mention it
        st.lo.pop(name, None)
        st.hi.pop(name, None)
        for d in (st.lo, st.hi):
            for k in list(d):
                if name in d[k]:
                    d[k] = d[k] - {name}
        if e is not None and e[0] == "cond" and lname(e[2]) and lname(e[3]):
            a_, b_ = lname(e[2]), lname(e[3])
            hi_a, hi_b = st.hi.get(a_, frozenset()) | {a_}, st.hi.get(b_, frozenset()) | {b_}
            lo_a, lo_b = st.lo.get(a_, frozenset()) | {a_}, st.lo.get(b_, frozenset()) | {b_}
            t_ = e[1]
            is_min = t_[0] == "bin" and ((t_[1] in ("<", "<=") and lname(t_[2]) == a_ and lname(t_[3]) == b_) or (t_[1] in (">", ">=") and lname(t_[2]) == b_ and lname(t_[3]) == a_))
            is_max = t_[0] == "bin" and ((t_[1] in (">", ">=") and lname(t_[2]) == a_ and lname(t_[3]) == b_) or (t_[1] in ("<", "<=") and lname(t_[2]) == b_ and lname(t_[3]) == a_))
            st.hi[name] = (hi_a | hi_b) if is_min else (hi_a & hi_b)
            st.lo[name] = (lo_a | lo_b) if is_max else (lo_a & lo_b)
        if src:
            st.lo[name] = st.lo.get(src, frozenset()) | {src} | {a for (a, b) in self.leq if b == src}
            st.hi[name] = st.hi.get(src, frozenset()) | {src} | {b for (a, b) in self.leq if a == src}
        ln_ = f"{name}.length()"
        core = e
        while core is not None and core[0] in ("ctor", "cast") and ((core[0] == "ctor" and len(core[2]) == 1) or core[0] == "cast"):
            core = core[2][0] if core[0] == "ctor" else core[2]
        if core is not None and core[0] == "mcall" and core[2] == "substring" and len(core[3]) == 2 and core[3][0] == ("lit", 0):
            w = core[3][1]
            wn = lname(w)
            st.v[ln_] = Iv(0, self.ev(w, st).hi)
            st.lo.pop(ln_, None)
            st.hi[ln_] = (frozenset({wn}) | st.hi.get(wn, frozenset())) if wn else frozenset()
        elif core is not None and lname(core) and f"{lname(core)}.length()" in st.v or (core is not None and lname(core) and f"{lname(core)}.length()" in st.hi):
            sn = f"{lname(core)}.length()"
            if sn in st.v:
                st.v[ln_] = st.v[sn]
            st.hi[ln_] = st.hi.get(sn, frozenset()) | {sn}
            st.lo[ln_] = st.lo.get(sn, frozenset()) | {sn}
        elif core is not None and core[0] == "lit" and isinstance(core[1], str):
            n_chars = max(0, len(core[1]) - 2)
            st.v[ln_] = Iv(n_chars, n_chars)
            st.hi.pop(ln_, None)
            st.lo.pop(ln_, None)
        elif ln_ in st.v or ln_ in st.hi:
            st.v.pop(ln_, None)
            st.hi.pop(ln_, None)
            st.lo.pop(ln_, None)
        if e is not None and e[0] == "lit" and isinstance(e[1], bool):
            st.flags[name] = e[1]
        elif name in st.flags:
            d = self.decide(e, st) if e is not None else None
            st.flags[name] = d if d is not None else "?"

    def effects(self, e, st: State):
        """apply side effects of an expression (assignments, ++, calls) in evaluation order"""
        if e is None or not isinstance(e, tuple):
            return
        t = e[0]
        if t == "assign":
            self.effects(e[3], st)
            if e[2][0] == "index":
                if self.on_mem:
                    self.on_mem("index-write", e[2], st)
                if e[1] != "=" and self.on_mem:
                    self.on_mem("index-read", e[2], st)
                self.effects(e[2][1], st)
                self.effects(e[2][2], st)
                return
            n = lname(e[2])
            if n:
                if e[1] == "=":
                    self.assign(n, e[3], st)
                else:
                    op = e[1][:-1]
                    self.assign(n, ("bin", op, e[2], e[3]), st)
            return
        if t in ("post", "pre"):
            n = lname(e[2])
            if n:
                self.assign(n, ("bin", "+" if e[1] == "++" else "-", e[2], ("lit", 1)), st)
            return
        if t == "call":
            for a in e[2]:
                self.effects(a, st)
            if self.on_call:
                self.on_call(e, st)
            # by-reference out-parameters are unknown afterwards
            return
        if t == "mcall":
            for a in e[3]:
                self.effects(a, st)
            if self.on_call:
                self.on_call(e, st)
            return
        if t == "cond":
            self.effects(e[1], st)
            return
        if t == "index":
            if self.on_mem:
                self.on_mem("index-read", e, st)
            self.effects(e[1], st)
            self.effects(e[2], st)
            return
        if t == "new":
            if e[2] is not None:
                self.effects(e[2], st)
            return
        if t == "delete":
            if self.on_mem:
                self.on_mem("delete", e, st)
            return
        for x in e[1:]:
            if isinstance(x, tuple):
                self.effects(x, st)
            elif isinstance(x, list):
                for y in x:
                    self.effects(y, st)

    def _merge(self, states: List[State], limit=48) -> List[State]:
        uniq = {}
        for s in states:
            uniq.setdefault(s.key(), s)
        out = list(uniq.values())
        if len(out) > limit:
            j = out[0]
            for s in out[1:]:
                j = j.join(s)
            return [j]
        return out

    def mentions_partition(self, c) -> bool:
        from .cxx import sub_exprs
        for s in sub_exprs(c):
            n = lname(s)
            if n and (n in self.partition or any(p.endswith("*") and n.startswith(p[:-1]) for p in self.partition)):
                return True
        return False

    def run(self, body, states: List[State]):
        """returns dict(fall=[...], brk=[...], cont=[...], ret=[...])"""
        out = {"fall": states, "brk": [], "cont": [], "ret": []}
        for st_ in body:
            if not out["fall"]:
                break
            r = self.stmt(st_, out["fall"])
            out["fall"] = self._merge(r["fall"])
            for k in ("brk", "cont", "ret"):
                out[k] += r[k]
        return out

    def stmt(self, s, states: List[State]):
        res = {"fall": [], "brk": [], "cont": [], "ret": []}
        k = s["k"]
        if self.on_stmt:
            for st in states:
                self.on_stmt(s, st)
        if k == "decl":
            if s.get("type"):
                self.var_types[s["name"]] = s["type"]
            for st in states:
                if s["init"] is not None:
                    self.effects(s["init"], st)
                    self.assign(s["name"], s["init"], st)
                else:
                    st.v[s["name"]] = TOP()
                res["fall"].append(st)
            return res
        if k == "expr":
            for st in states:
                self.effects(s["e"], st)
                res["fall"].append(st)
            return res
        if k == "block":
            return self.run(s["body"], states)
        if k == "return":
            for st in states:
                if s["e"] is not None:
                    self.effects(s["e"], st)
                res["ret"].append(st)
            return res
        if k == "break":
            res["brk"] = states
            return res
        if k == "continue":
            res["cont"] = states
            return res
        if k == "if":
            split = self.mentions_partition(s["cond"])
            falls = []
            for st in states:
                self.effects(s["cond"], st)
                s1 = self.refine(s["cond"], st.copy(), True)
                s2 = self.refine(s["cond"], st.copy(), False)
                branch_falls = []
                if s1 is not None:
                    r1 = self.run(s["then"], [s1])
                    branch_falls += r1["fall"]
                    for kk in ("brk", "cont", "ret"):
                        res[kk] += r1[kk]
                if s2 is not None:
                    if s["else"]:
                        r2 = self.run(s["else"], [s2])
                        branch_falls += r2["fall"]
                        for kk in ("brk", "cont", "ret"):
                            res[kk] += r2[kk]
                    else:
                        branch_falls.append(s2)
                if split or len({tuple(sorted((a, str(b)) for a, b in x.flags.items())) for x in branch_falls}) > 1:
                    falls += branch_falls
                elif branch_falls:
                    j = branch_falls[0]
                    for x in branch_falls[1:]:
                        j = j.join(x)
                    falls.append(j)
            res["fall"] = falls
            return res
        if k in ("for", "while"):
            sts = states
            if k == "for":
                r0 = self.run(s["init"], sts)
                sts = r0["fall"]
            if not sts:
                return res
            head = sts[0]
            for x in sts[1:]:
                head = head.join(x)
            entry0 = head.copy()
            exits = []
            last_ends = []
            # loops whose condition is decided by the current (concrete enough) state are unrolled exactly
            if self.unroll and len(sts) == 1 and s["cond"] is not None:
                cur = [sts[0].copy()]
                done_states = []
                brk_states = []
                rets = []
                complete = False
                for _i in range(self.unroll):
                    nxt = []
                    for c_ in cur:
                        d = self.decide(s["cond"], c_)
                        if d is None:
                            nxt = None
                            break
                        if d is False:
                            ex_ = self.refine(s["cond"], c_.copy(), False)
                            done_states.append(ex_ if ex_ is not None else c_)
                            continue
                        rb = self.run(s["body"], [c_])
                        ends = rb["fall"] + rb["cont"]
                        brk_states += rb["brk"]
                        rets += rb["ret"]
                        if k == "for" and s["inc"] is not None:
                            for e_ in ends:
                                self.effects(s["inc"], e_)
                        nxt += ends
                    if nxt is None:
                        break
                    cur = self._merge(nxt, limit=64)
                    if not cur:
                        complete = True
                        break
                if complete:
                    res["fall"] = done_states + brk_states
                    res["ret"] += rets
                    return res
                # not fully decided: fall back to the fixpoint below (from the original entry)
            for it in range(8):
                entry = self.refine(s["cond"], head.copy(), True) if s["cond"] is not None else head.copy()
                new_head = head
                if entry is not None:
                    rb = self.run(s["body"], [entry])
                    ends = rb["fall"] + rb["cont"]
                    exits_iter = rb["brk"]
                    res["ret"] += rb["ret"]
                    if k == "for" and s["inc"] is not None:
                        for e_ in ends:
                            self.effects(s["inc"], e_)
                    for e_ in ends:
                        new_head = new_head.join(e_)
                    exits = exits_iter
                    last_ends = ends
                if new_head.key() == head.key():
                    break
                if it >= 5:
                    # widen whatever still changes
                    for n_ in set(new_head.v):
                        if repr(new_head.v[n_]) != repr(head.v.get(n_)):
                            new_head.v[n_] = TOP()
                    for f_ in new_head.flags:
                        if new_head.flags[f_] != head.flags.get(f_):
                            new_head.flags[f_] = "?"
                head = new_head
            falls = []
            if s["cond"] is not None:
                # leaving without an iteration, and leaving after at least one iteration, are kept apart
                ex0 = self.refine(s["cond"], entry0.copy(), False)
                if ex0 is not None:
                    falls.append(ex0)
                if last_ends:
                    after = last_ends[0]
                    for x in last_ends[1:]:
                        after = after.join(x)
                    ex1 = self.refine(s["cond"], after.copy(), False)
                    if ex1 is not None:
                        falls.append(ex1)
            res["fall"] = falls + exits
            return res
        return {"fall": states, "brk": [], "cont": [], "ret": []}


def upper_closure(st: State, name: str) -> frozenset:
    """all names known (transitively) to be >= name"""
    seen = set(st.hi.get(name, ()))
    todo = list(seen)
    while todo:
        x = todo.pop()
        for y in st.hi.get(x, ()):
            if y not in seen:
                seen.add(y)
                todo.append(y)
    return frozenset(seen)

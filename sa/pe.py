"""E4 - template extraction by partial evaluation of the emitter.

The checker fabricates IR nodes (stand-ins for the dataclasses of transpile/ast.py, built from their AST,
nothing is imported) whose expression-typed fields hold *placeholder identifiers* (``H_value``), and
interprets ``emit()`` / ``_emit_block()`` on them with its own evaluator (sa/dl.py).  The result is the C++
text the emitter produces for that node shape, with the placeholders standing for arbitrary user
expressions.  Branch coverage of the interpreted code is recorded so that a rule can demand that every
branch of an emitter arm was exercised by the fabricated variants.
"""
from __future__ import annotations

import ast
import itertools
import re
from typing import Any, Dict, List, Optional, Tuple

from . import dl, lit
from .core import AnalysisError
from .src import mod, norm

AST_PY = "transpile/ast.py"
EMITTER = "transpile/emitter.py"
PARSER = "transpile/parser.py"

_classes: Dict[str, type] = {}
_fields: Dict[str, List[Tuple[str, str, Any]]] = {}


class IRRejected(Exception):
    """the IR class's own __post_init__ raised while the checker fabricated a node"""


def _dataclass_flags(c):
    flags = {}
    for d in c.decorator_list:
        if isinstance(d, ast.Call) and norm(d.func) in ("dataclass", "dataclasses.dataclass"):
            for k in d.keywords:
                flags[k.arg] = lit.try_ev(k.value)
        elif norm(d) not in ("dataclass", "dataclasses.dataclass"):
            raise AnalysisError(f"IR class {c.name} carries decorator {norm(d)}: fabricated nodes would not be faithful")
    return flags


def ir_classes():
    """name -> fabricated class; fields (name, annotation text, default marker).  The fabricated classes follow
    transpile/ast.py: inheritance between IR classes, dataclass flags (frozen, slots), field order of dataclass
    inheritance, and `__post_init__` (run by the checker's interpreter on every fabricated instance)."""
    if _classes:
        return _classes, _fields
    am = mod(AST_PY)
    own_fields = {}
    for cname, c in am.classes.items():
        fl = []
        for st in c.body:
            if isinstance(st, ast.AnnAssign) and isinstance(st.target, ast.Name):
                ann = norm(st.annotation)
                if st.value is None:
                    d = ("required", None)
                elif isinstance(st.value, ast.Call) and norm(st.value.func) in ("field", "dataclasses.field"):
                    fac = None
                    dflt = "<none>"
                    for k in st.value.keywords:
                        if k.arg == "default_factory":
                            fac = norm(k.value)
                        if k.arg == "default":
                            dflt = lit.try_ev(k.value)
                    d = ("factory", fac) if fac is not None else ("const", None if dflt == "<none>" else dflt)
                else:
                    d = ("const", lit.try_ev(st.value))
                fl.append((st.target.id, ann, d))
            elif isinstance(st, ast.FunctionDef) and st.name not in ("__post_init__",):
                if st.name.startswith("__") or any(norm(x) in ("property", "staticmethod", "classmethod") for x in st.decorator_list):
                    raise AnalysisError(f"IR class {cname} defines {st.name}: the fabricated stand-ins do not model it")
        own_fields[cname] = fl

    order = []

    def visit(cname, stack=()):
        if cname in order:
            return
        if cname in stack:
            raise AnalysisError("cyclic IR class hierarchy")
        for b_ in am.classes[cname].bases:
            if isinstance(b_, ast.Name) and b_.id in am.classes:
                visit(b_.id, stack + (cname,))
        order.append(cname)

    for cname in am.classes:
        visit(cname)

    for cname in order:
        c = am.classes[cname]
        bases = [b_.id for b_ in c.bases if isinstance(b_, ast.Name) and b_.id in am.classes]
        fl = []
        for b_ in bases:
            for f in _fields[b_]:
                fl = [x for x in fl if x[0] != f[0]] + [f]
        for f in own_fields[cname]:
            if any(x[0] == f[0] for x in fl):
                fl = [f if x[0] == f[0] else x for x in fl]
            else:
                fl.append(f)
        _fields[cname] = fl
        flags = _dataclass_flags(c)
        post = next((st for st in c.body if isinstance(st, ast.FunctionDef) and st.name == "__post_init__"), None)
        inherited_post = None
        for b_ in bases:
            inherited_post = inherited_post or getattr(_classes[b_], "__dl_post__", None)

        def make(cname=cname, fl=fl, flags=flags, post=post or inherited_post, bases=bases):
            def __init__(self, *args, **kw):
                names = [f[0] for f in fl]
                if len(args) > len(names):
                    raise TypeError(f"{cname} takes {len(names)} positional arguments")
                for n_, a in zip(names, args):
                    object.__setattr__(self, n_, a)
                for k, v in kw.items():
                    if k not in names:
                        raise TypeError(k)
                    object.__setattr__(self, k, v)
                for n_, _ann, d in fl:
                    if not hasattr(self, n_):
                        if d[0] == "required":
                            raise TypeError(f"{cname} missing {n_}")
                        if d[0] == "factory":
                            object.__setattr__(self, n_, {"list": list, "set": set, "dict": dict}.get(d[1], list)())
                        else:
                            object.__setattr__(self, n_, d[1])
                if post is not None:
                    it = dl.Interp(am, extra_env=dict(_classes), max_steps=200000)
                    object.__setattr__(self, "__dl_constructing__", True)
                    try:
                        out = it.call(post, [self])
                    except dl.Unsupported as e:
                        raise AnalysisError(f"{cname}.__post_init__ left the evaluable subset: {e}")
                    finally:
                        object.__delattr__(self, "__dl_constructing__")
                    if out.kind == "raise":
                        raise IRRejected(f"{cname}.__post_init__ raises {out.value}")

            def __repr__(self):
                return f"{cname}({', '.join(f'{n_}={getattr(self, n_)!r}' for n_, _a, _d in fl)})"

            ns = {"__init__": __init__, "__repr__": __repr__, "__dl_post__": post, "__dl_frozen__": bool(flags.get("frozen")), "__dl_slots__": bool(flags.get("slots")), "__dl_ir__": True}
            return type(cname, tuple(_classes[b_] for b_ in bases) or (dl.Synth,), ns)

        _classes[cname] = make()
    return _classes, _fields


def ir_env():
    cls, _ = ir_classes()
    return dict(cls)


class EmitResult:
    def __init__(self, text: Optional[str], lines: Optional[List[str]], cov: set, raised: Optional[str] = None):
        self.text = text
        self.lines = lines
        self.cov = cov
        self.raised = raised


def _interp(m):
    env = ir_env()
    return dl.Interp(m, extra_env=env, max_steps=3_000_000)


def emit_program(setup=(), loop=(), functions=(), helpers=(), ultrasonic=(), global_decls=()) -> EmitResult:
    em = mod(EMITTER)
    cls, _ = ir_classes()
    prog = cls["Program"](setup_body=list(setup), loop_body=list(loop), target_port=None, global_decls=list(global_decls),
                          helpers=set(helpers), functions=list(functions), ultrasonic_measurements=set(ultrasonic))
    it = _interp(em)
    try:
        out = it.call(em.func("emit"), [prog])
    except dl.Unsupported as e:
        raise AnalysisError(f"emit() left the evaluable subset: {e}")
    if out.kind == "raise":
        return EmitResult(None, None, it.cov, out.value)
    if not isinstance(out.value, str):
        raise AnalysisError("emit() did not return text")
    return EmitResult(out.value, out.value.splitlines(), it.cov)


def emit_prog(prog, module_state=None):
    """emit() on a Program object; with module_state: inside the simulated process that dict stands for (module-level tables
    shared between calls).  -> dl outcome"""
    em = mod(EMITTER)
    it = dl.Interp(em, extra_env=ir_env(), max_steps=3_000_000, module_state=module_state, share_consts=module_state is not None)
    try:
        return it.call(em.func("emit"), [prog])
    except dl.Unsupported as e:
        raise AnalysisError(f"emit() left the evaluable subset: {e}")


def parse_source(src: str, module_state=None):
    """partial evaluation of parse() on a concrete script (used for whole-pipeline structural facts)"""
    pm = mod(PARSER)
    it = dl.Interp(pm, extra_env=ir_env(), max_steps=5_000_000, module_state=module_state, share_consts=module_state is not None, opaque={"ast.parse": ast.parse, "ast.literal_eval": ast.literal_eval, "ast.unparse": ast.unparse,
                                                                            "ast.iter_child_nodes": lambda n: list(ast.iter_child_nodes(n)),
                                                                            "re.fullmatch": re.fullmatch})
    return it, it.call(pm.func("parse"), [src])


# ---------------------------------------------------------------------------------------------
# variants of an IR class from its field annotations
# ---------------------------------------------------------------------------------------------

ENUMS = {
    ("LCDDecl", "interface"): ["parallel", "i2c"],
    ("UltrasonicDecl", "model"): ["HC-SR04"],
    ("ButtonDecl", "mode"): ["INPUT_PULLUP"],
}


# fields that hold a text-valued user expression (their placeholder may be String-typed)
TEXT_HOLES = {("LCDWrite", "text"), ("LCDLine", "text"), ("LCDMessage", "top"), ("LCDMessage", "bottom"), ("LCDProgress", "label"),
              ("LCDAnimate", "text"), ("SerialWrite", "value")}


def enum_values(cname, fname):
    em = mod(EMITTER)
    if (cname, fname) in ENUMS:
        return ENUMS[(cname, fname)]
    if fname in ("align", "top_align", "bottom_align"):
        return ["left", "center", "right"]
    if cname == "LCDProgress" and fname == "style":
        return sorted(lit.table(em, "_LCD_PROGRESS_STYLES"))
    if cname == "LCDAnimate" and fname == "animation":
        return sorted(lit.table(em, "_LCD_ANIMATION_START_FUNCS"))
    if cname == "BuzzerMelody" and fname == "melody":
        return sorted(lit.table(em, "_BUZZER_MELODIES"))
    return None


def field_choices(cname, fname, ann, default):
    """values to try for one field: every alternative of its Union/Optional type"""
    ev = enum_values(cname, fname)
    if fname == "name":
        return ["dev"]
    if ev is not None:
        return ev
    hole = f"H_text_{fname}" if (cname, fname) in TEXT_HOLES else f"H_{fname}"
    out = []
    a = ann.replace("typing.", "")
    if a.startswith("Optional["):
        out.append(None)
        a = a[len("Optional["):-1]
    parts = a[len("Union["):-1].split(", ") if a.startswith("Union[") else [a]
    for p in parts:
        if p == "bool":
            out += [True, False]
        elif p == "int":
            out += [7, 0]      # 0: the boundary a truthiness test (`x or default`, `if node.x`) confuses with "absent"
        elif p == "float":
            out.append(2.5)
        elif p == "str":
            out.append(hole)
        elif p.startswith("List[int]"):
            out += [[1, 0, 128]] if cname != "LCDGlyph" else [[1, 2, 3, 4, 5, 6, 7, 40]]
            if cname == "LedFlashPattern":
                out.append([])
        elif p.startswith("List"):
            out.append([])
    seen = []
    for v in out:
        if not any(v is w or (type(v) is type(w) and v == w) for w in seen):
            seen.append(v)
    return seen or [hole]


def variants(cname, fixed: Optional[dict] = None, limit: int = 400):
    cls, fields = ir_classes()
    fl = fields[cname]
    fixed = fixed or {}
    axes = []
    for fname, ann, d in fl:
        if fname in fixed:
            axes.append([fixed[fname]])
        else:
            axes.append(field_choices(cname, fname, ann, d))
    total = 1
    for a in axes:
        total *= len(a)
    combos = itertools.product(*axes)
    if total > limit:
        # pairwise-ish reduction: vary one field at a time around the first choice, plus all-last
        base = [a[0] for a in axes]
        picked = [tuple(base)]
        for i, a in enumerate(axes):
            for v in a[1:]:
                b = list(base)
                b[i] = v
                picked.append(tuple(b))
        picked.append(tuple(a[-1] for a in axes))
        combos = picked
    for combo in combos:
        kw = {f[0]: v for f, v in zip(fl, combo)}
        try:
            node = cls[cname](**{k: (list(v) if isinstance(v, list) else v) for k, v in kw.items()})
        except IRRejected:
            continue          # the IR class itself refuses this combination
        yield kw, node


def if_sites(fn_node, lo: int, hi: int):
    """(lineno, col) of every If/IfExp test between two source lines (an arm's extent)"""
    out = set()
    for n in ast.walk(fn_node):
        if isinstance(n, (ast.If, ast.IfExp)) and lo <= n.lineno <= hi:
            out.add((n.lineno, n.col_offset))
    return out

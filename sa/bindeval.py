"""Concrete binding evaluation: for one call shape of one host callable a small script is written in which every supplied
argument is a distinct sentinel (a run-time variable `zp0`, `zk_times`, or - where the DSL demands a literal - a distinct
literal), `parse()` is partially evaluated on it and the IR node the statement produced is read back.  What each IR field
received is then compared, by the caller, with what Python's own binding rules give the corresponding parameter.
Independent of how the parser arm is written (helpers, tables, computed positions)."""
from __future__ import annotations

import re
from typing import Dict, List, Optional, Tuple

from . import pe
from .core import AnalysisError

IMPORTS = (
    "from Reduino.Actuators import Led, RGBLed, Servo, DCMotor, Buzzer\n"
    "from Reduino.Displays import LCD\n"
    "from Reduino.Sensors import Button, Potentiometer, Ultrasonic\n"
    "from Reduino.Communication import SerialMonitor\n"
    "from Reduino.Utils import sleep\n"
    "from Reduino.Core import analog_read\n"
)
# how a device of each host class is declared in the probe scripts (method calls need a declared receiver)
DECLARE = {
    "Led": "dev = Led(13)", "RGBLed": "dev = RGBLed(9, 10, 11)", "Servo": "dev = Servo(9)", "DCMotor": "dev = DCMotor(2, 4, 9)",
    "Buzzer": "dev = Buzzer(8)", "LCD": "dev = LCD(rs=12, en=11, d4=5, d5=4, d6=3, d7=2, backlight_pin=10)", "Button": "dev = Button(7)",
    "Potentiometer": "dev = Potentiometer('A0')", "SerialMonitor": "dev = SerialMonitor(9600)",
}
# parameters for which the DSL demands a literal of a fixed vocabulary (value-level arguments): the literal used and the
# value the IR is expected to carry for it
LITERAL = {
    "align": ("'center'", "center"), "top_align": ("'right'", "right"), "bottom_align": ("'center'", "center"), "style": ("'hash'", "hash"),
    "animation": ("'bounce'", "bounce"), "name": ("'siren'", "siren"), "melody": ("'siren'", "siren"),
    "pattern": ("[1, 0, 1]", None), "bitmap": ("[1, 2, 3, 4, 5, 6, 7, 8]", None), "sensor": ("'HC-SR04'", None), "model": ("'HC-SR04'", None),
    "on_click": ("handler", "handler"), "mode": ("'INPUT_PULLUP'", None),
}


def sentinel_for(param: str, tok: Tuple[str, object], decl: bool, host_cls: Optional[str], sig_index: int = 0, zero=None):
    """(source text of the argument, predicate text describing it) for the argument bound by `tok` = ('P', i) / ('K', name)"""
    if zero is not None and "__none__" in zero and param in zero:
        return "None", ("none", None)
    if param in LITERAL:
        return LITERAL[param][0], ("lit", LITERAL[param][1])
    if zero is not None and param in zero:
        return "0", ("zero", 0)
    if decl:
        if host_cls == "Potentiometer" and param == "pin":
            return "'A3'", ("lit", "A3")
        n = 21 + sig_index          # increasing in signature order (min_* < max_* stays true), distinct per parameter
        return str(n), ("num", n)
    name = f"z_{param}"
    return name, ("var", name)


def build(cls: str, host_cls: Optional[str], host_fn: str, posable: List[str], npos: int, kws: List[str], order: List[str], zero=None):
    """script text + {param: descriptor} for one shape"""
    decl = cls.endswith("Decl")
    args, desc = [], {}
    for i, p in enumerate(posable[:npos]):
        txt, d = sentinel_for(p, ("P", i), decl, host_cls, order.index(p), zero)
        args.append(txt)
        desc[p] = d
    for k in kws:
        txt, d = sentinel_for(k, ("K", k), decl, host_cls, order.index(k), zero)
        args.append(f"{k}={txt}")
        desc[k] = d
    lines = [IMPORTS]
    names = sorted({d[1] for d in desc.values() if d[0] == "var"})
    if zero is not None and "__const_env__" in zero:
        # the arguments are variables that hold a known constant and are re-assigned under a run-time branch: what the IR
        # carries must still be the variable (a number would have been folded from the flow-insensitive environment)
        lines.append("z_probe = analog_read('A5')")
        for j, n in enumerate(names):
            lines.append(f"{n} = {21 + j}")
        lines.append("if z_probe > 5:")
        for j, n in enumerate(names):
            lines.append(f"    {n} = {121 + j}")
        if not names:
            lines.append("    z_probe = 0")
    else:
        for j, n in enumerate(names):
            lines.append(f"{n} = analog_read('A{j % 6}')")
    if any(d == ("lit", "handler") for d in desc.values()):
        lines.append("def handler():\n    sleep(1)")
    call_args = ", ".join(args)
    if decl:
        ctor = {"PotentiometerDecl": "Potentiometer", "ButtonDecl": "Button", "UltrasonicDecl": "Ultrasonic", "LCDDecl": "LCD", "LedDecl": "Led", "BuzzerDecl": "Buzzer",
                "ServoDecl": "Servo", "DCMotorDecl": "DCMotor", "RGBLedDecl": "RGBLed", "SerialMonitorDecl": "SerialMonitor"}[cls]
        lines.append(f"dev = {ctor}({call_args})")
    elif host_cls is None:
        lines.append(f"{host_fn}({call_args})")
    else:
        lines.append(DECLARE[host_cls])
        lines.append(f"dev.{host_fn}({call_args})")
    return "\n".join(lines) + "\n", desc


def _find(nodes, cls, acc):
    for n in nodes:
        if type(n).__name__ == cls:
            acc.append(n)
        for f in ("body", "else_body", "try_body", "branches", "handlers"):
            sub = getattr(n, f, None)
            if isinstance(sub, list):
                _find(sub, cls, acc)
    return acc


def run_one(task):
    """task = (cls, host_cls, host_fn, posable, npos, kws, signature order) -> (outcome kind, {field: value} | exception name, desc)"""
    cls, host_cls, host_fn, posable, npos, kws, order = task[:7]
    zero = task[7] if len(task) > 7 else None
    src, desc = build(cls, host_cls, host_fn, list(posable), npos, list(kws), list(order), zero)
    try:
        _it, out = pe.parse_source(src)
    except AnalysisError as e:
        return ("error", str(e), desc, src)
    except Exception as e:   # interpreter limits
        return ("error", f"{type(e).__name__}: {e}", desc, src)
    if out.kind != "return":
        return ("raise", out.value, desc, src)
    prog = out.value
    found = _find(list(prog.setup_body) + list(prog.loop_body), cls, [])
    if cls.endswith("Decl"):
        found = [n for n in found if getattr(n, "name", None) == "dev"]
    else:
        found = [n for n in found if getattr(n, "name", "dev") == "dev"]
    if len(found) != 1:
        return ("nodes", len(found), desc, src)
    node = found[0]
    vals = {k: v for k, v in vars(node).items() if not k.startswith("__dl_")}
    return ("node", vals, desc, src)


def evaluate(tasks):
    import concurrent.futures as cf
    import os
    from sa.core import workers as _workers
    workers = _workers(12)
    if len(tasks) < 24:
        return [run_one(t) for t in tasks]
    try:
        with cf.ProcessPoolExecutor(max_workers=workers) as ex:
            return list(ex.map(run_one, tasks, chunksize=max(1, len(tasks) // (workers * 4))))
    except Exception:
        return [run_one(t) for t in tasks]


def matches(value, d) -> bool:
    """does the IR field value carry exactly the sentinel described by d?"""
    kind, v = d
    if kind == "var":
        names = re.findall(r"\bz_\w+\b", str(value))
        return isinstance(value, str) and set(names) == {v} and len(names) >= 1
    if kind == "num":
        try:
            return float(value) == float(v) and not isinstance(value, bool)
        except (TypeError, ValueError):
            return False
    if kind == "zero":
        if isinstance(value, bool) or value is None:
            return False
        if isinstance(value, (int, float)):
            return value == 0
        return isinstance(value, str) and re.fullmatch(r"\(?\s*[-+]?0+(\.0*)?[fF]?\s*\)?", value.strip()) is not None
    if kind == "none":
        return value is None
    if kind == "lit":
        if v is None:
            return True        # value-level parameter: what reaches the field is decided elsewhere
        return value == v or (isinstance(value, str) and value.strip("\"'") == v) or (isinstance(value, str) and v in re.findall(r"\w+", value))
    return False

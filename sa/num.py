"""E7 - small numeric reasoning helpers: constant folding through module/class constants, bounds learned
from guards, interval evaluation, and a rational-function normaliser (for Utils.map / servo maps)."""
from __future__ import annotations

import ast
from fractions import Fraction
from typing import Dict, Optional, Tuple

from .src import call_name, norm

INF = float("inf")


# ---------------------------------------------------------------------------------------------
# constants
# ---------------------------------------------------------------------------------------------

def const_eval(n, mod=None, cls: Optional[ast.ClassDef] = None, depth=0):
    """number (or str/bool/None) denoted by ``n`` through literals, module constants, class constants
    (``self.X`` / ``cls.X`` / ``ClassName.X``) and arithmetic; raises ValueError if not constant."""
    if depth > 12:
        raise ValueError("too deep")
    if isinstance(n, ast.Constant):
        return n.value
    if isinstance(n, ast.UnaryOp) and isinstance(n.op, (ast.USub, ast.UAdd)):
        v = const_eval(n.operand, mod, cls, depth + 1)
        return -v if isinstance(n.op, ast.USub) else v
    if isinstance(n, ast.BinOp):
        a = const_eval(n.left, mod, cls, depth + 1)
        b = const_eval(n.right, mod, cls, depth + 1)
        import operator as o
        f = {ast.Add: o.add, ast.Sub: o.sub, ast.Mult: o.mul, ast.Div: o.truediv, ast.FloorDiv: o.floordiv,
             ast.LShift: o.lshift, ast.RShift: o.rshift, ast.Pow: o.pow, ast.Mod: o.mod}.get(type(n.op))
        if f is None:
            raise ValueError("op")
        if isinstance(n.op, ast.Pow) and (not isinstance(b, (int, float)) or abs(b) > 64):
            raise ValueError("pow")
        return f(a, b)
    if isinstance(n, ast.Name):
        if mod is not None and n.id in mod.consts:
            return const_eval(mod.consts[n.id], mod, cls, depth + 1)
        raise ValueError(f"name {n.id}")
    if isinstance(n, ast.Attribute) and isinstance(n.value, ast.Name) and cls is not None and (n.value.id in ("self", "cls") or n.value.id == cls.name):
        for st in cls.body:
            if isinstance(st, ast.Assign) and len(st.targets) == 1 and isinstance(st.targets[0], ast.Name) and st.targets[0].id == n.attr:
                return const_eval(st.value, mod, cls, depth + 1)
            if isinstance(st, ast.AnnAssign) and isinstance(st.target, ast.Name) and st.target.id == n.attr and st.value is not None:
                return const_eval(st.value, mod, cls, depth + 1)
        raise ValueError("attr")
    if isinstance(n, ast.Call) and call_name(n) in ("float", "int") and len(n.args) == 1:
        v = const_eval(n.args[0], mod, cls, depth + 1)
        return float(v) if call_name(n) == "float" else int(v)
    raise ValueError(type(n).__name__)


def try_const(n, mod=None, cls=None, default=None):
    try:
        return const_eval(n, mod, cls)
    except (ValueError, TypeError, ZeroDivisionError, OverflowError):
        return default


# ---------------------------------------------------------------------------------------------
# bounds from guards
# ---------------------------------------------------------------------------------------------

class Iv:
    """closed/open interval; ``lo_s``/``hi_s`` mark strict bounds"""
    __slots__ = ("lo", "hi", "lo_s", "hi_s")

    def __init__(self, lo=-INF, hi=INF, lo_s=False, hi_s=False):
        self.lo, self.hi, self.lo_s, self.hi_s = lo, hi, lo_s, hi_s

    def meet(self, o: "Iv") -> "Iv":
        r = Iv(self.lo, self.hi, self.lo_s, self.hi_s)
        if o.lo > r.lo or (o.lo == r.lo and o.lo_s):
            r.lo, r.lo_s = o.lo, o.lo_s
        if o.hi < r.hi or (o.hi == r.hi and o.hi_s):
            r.hi, r.hi_s = o.hi, o.hi_s
        return r

    def join(self, o: "Iv") -> "Iv":
        r = Iv()
        if self.lo < o.lo or (self.lo == o.lo and not self.lo_s):
            r.lo, r.lo_s = self.lo, self.lo_s
        else:
            r.lo, r.lo_s = o.lo, o.lo_s
        if self.hi > o.hi or (self.hi == o.hi and not self.hi_s):
            r.hi, r.hi_s = self.hi, self.hi_s
        else:
            r.hi, r.hi_s = o.hi, o.hi_s
        return r

    def within(self, lo, hi, lo_strict=False, hi_strict=False) -> bool:
        ok_lo = self.lo > lo or (self.lo == lo and (self.lo_s or not lo_strict))
        ok_hi = self.hi < hi or (self.hi == hi and (self.hi_s or not hi_strict))
        return ok_lo and ok_hi

    def __repr__(self):
        return f"{'(' if self.lo_s else '['}{self.lo}, {self.hi}{')' if self.hi_s else ']'}"


def _cmp_bounds(left_txt, op, right_val, name_txt):
    """bounds on ``name`` from `name op c`"""
    if isinstance(op, ast.Lt):
        return Iv(hi=right_val, hi_s=True)
    if isinstance(op, ast.LtE):
        return Iv(hi=right_val)
    if isinstance(op, ast.Gt):
        return Iv(lo=right_val, lo_s=True)
    if isinstance(op, ast.GtE):
        return Iv(lo=right_val)
    if isinstance(op, ast.Eq):
        return Iv(right_val, right_val)
    return Iv()


_FLIP = {ast.Lt: ast.Gt, ast.LtE: ast.GtE, ast.Gt: ast.Lt, ast.GtE: ast.LtE, ast.Eq: ast.Eq, ast.NotEq: ast.NotEq}
_NEG = {ast.Lt: ast.GtE, ast.LtE: ast.Gt, ast.Gt: ast.LtE, ast.GtE: ast.Lt, ast.Eq: ast.NotEq, ast.NotEq: ast.Eq}


def strip_casts(n):
    while isinstance(n, ast.Call) and call_name(n) in ("int", "float") and len(n.args) == 1:
        n = n.args[0]
    return n


def bounds_of(test: ast.expr, truth: bool, subject: str, mod=None, cls=None) -> Iv:
    """interval for the expression whose normalised text is ``subject`` given ``test`` evaluated to ``truth``"""
    if isinstance(test, ast.UnaryOp) and isinstance(test.op, ast.Not):
        return bounds_of(test.operand, not truth, subject, mod, cls)
    if isinstance(test, ast.BoolOp):
        parts = [bounds_of(v, truth, subject, mod, cls) for v in test.values]
        conj = (isinstance(test.op, ast.And) and truth) or (isinstance(test.op, ast.Or) and not truth)
        r = parts[0]
        for p in parts[1:]:
            r = r.meet(p) if conj else r.join(p)
        return r
    if isinstance(test, ast.Compare):
        # chain a op b op c == (a op b) and (b op c); each link gives an interval for the subject (or nothing)
        items = [test.left] + list(test.comparators)
        links = []
        for i, op in enumerate(test.ops):
            l, rgt = items[i], items[i + 1]
            lt, rt = norm(strip_casts(l)), norm(strip_casts(rgt))
            info = None
            if isinstance(op, (ast.In, ast.NotIn)) and lt == subject:
                vals = try_const_seq(rgt, mod, cls)
                if vals:
                    info = ("in", isinstance(op, ast.In), vals)
            elif lt == subject and type(op) in _NEG:
                c = try_const(rgt, mod, cls)
                if isinstance(c, (int, float)) and not isinstance(c, bool):
                    info = ("cmp", type(op), c)
            elif rt == subject and type(op) in _FLIP:
                c = try_const(l, mod, cls)
                if isinstance(c, (int, float)) and not isinstance(c, bool):
                    info = ("cmp", _FLIP[type(op)], c)
            links.append(info)

        def link_iv(info, t):
            if info is None:
                return None
            if info[0] == "in":
                return Iv(min(info[2]), max(info[2])) if info[1] == t else Iv()
            opc = info[1] if t else _NEG[info[1]]
            return _cmp_bounds(None, opc(), info[2], subject)

        if truth:
            r = Iv()
            for info in links:
                iv = link_iv(info, True)
                if iv is not None:
                    r = r.meet(iv)
            return r
        # not (A and B ...) == (not A) or (not B) ...: informative only if every link constrains the subject
        parts = [link_iv(info, False) for info in links]
        if parts and all(p is not None for p in parts):
            r = parts[0]
            for p in parts[1:]:
                r = r.join(p)
            return r
        return Iv()
    return Iv()


def try_const_seq(n, mod, cls):
    if isinstance(n, (ast.Tuple, ast.List, ast.Set)):
        vals = [try_const(e, mod, cls) for e in n.elts]
        if all(isinstance(v, (int, float)) for v in vals):
            return vals
    return None


def iv_eval(n, env: Dict[str, Iv], mod=None, cls=None, depth=0) -> Iv:
    """interval of an expression; ``env`` maps normalised sub-expression texts to intervals"""
    if depth > 16:
        return Iv()
    t = norm(n)
    if t in env:
        return env[t]
    c = try_const(n, mod, cls)
    if isinstance(c, bool):
        return Iv(int(c), int(c))
    if isinstance(c, (int, float)):
        return Iv(c, c)
    if isinstance(n, ast.Call):
        cn = call_name(n)
        if cn in ("int", "float", "round") and n.args:
            return iv_eval(n.args[0], env, mod, cls, depth + 1)
        if cn == "abs" and n.args:
            a = iv_eval(n.args[0], env, mod, cls, depth + 1)
            hi = max(abs(a.lo), abs(a.hi))
            lo = 0 if a.lo <= 0 <= a.hi else min(abs(a.lo), abs(a.hi))
            return Iv(lo, hi)
        if cn in ("max", "min") and len(n.args) >= 2:
            parts = [iv_eval(a, env, mod, cls, depth + 1) for a in n.args]
            if cn == "max":
                return Iv(max(p.lo for p in parts), max(p.hi for p in parts))
            return Iv(min(p.lo for p in parts), min(p.hi for p in parts))
        if cn == "bool":
            return Iv(0, 1)
        return Iv()
    if isinstance(n, ast.IfExp):
        return iv_eval(n.body, env, mod, cls, depth + 1).join(iv_eval(n.orelse, env, mod, cls, depth + 1))
    if isinstance(n, ast.UnaryOp) and isinstance(n.op, ast.USub):
        a = iv_eval(n.operand, env, mod, cls, depth + 1)
        return Iv(-a.hi, -a.lo, a.hi_s, a.lo_s)
    if isinstance(n, ast.BinOp):
        a = iv_eval(n.left, env, mod, cls, depth + 1)
        b = iv_eval(n.right, env, mod, cls, depth + 1)
        if isinstance(n.op, ast.Add):
            return Iv(a.lo + b.lo, a.hi + b.hi)
        if isinstance(n.op, ast.Sub):
            return Iv(a.lo - b.hi, a.hi - b.lo)
        if isinstance(n.op, ast.Mult) and a.lo >= 0 and b.lo >= 0:
            return Iv(a.lo * b.lo, a.hi * b.hi if a.hi != INF and b.hi != INF else INF)
        if isinstance(n.op, ast.Div) and a.lo >= 0 and (b.lo > 0 or (b.lo == 0 and b.lo_s)):
            return Iv(0, INF if a.hi == INF or b.lo == 0 else a.hi / b.lo)
        return Iv()
    return Iv()


# ---------------------------------------------------------------------------------------------
# rational functions
# ---------------------------------------------------------------------------------------------

Poly = Dict[Tuple[Tuple[str, int], ...], Fraction]


def _padd(a: Poly, b: Poly, s=1) -> Poly:
    r = dict(a)
    for k, v in b.items():
        r[k] = r.get(k, 0) + s * v
        if r[k] == 0:
            del r[k]
    return r


def _pmul(a: Poly, b: Poly) -> Poly:
    r: Poly = {}
    for ka, va in a.items():
        for kb, vb in b.items():
            d = dict(ka)
            for n_, e in kb:
                d[n_] = d.get(n_, 0) + e
            k = tuple(sorted(d.items()))
            r[k] = r.get(k, 0) + va * vb
            if r[k] == 0:
                del r[k]
    return r


def ratfun(n, subst=None, depth=0):
    """(numerator, denominator) polynomials of an arithmetic expression over names/attributes;
    float()/int-free; ``subst`` maps names to expressions (single-assignment locals)."""
    subst = subst or {}
    if depth > 30:
        raise ValueError("deep")
    if isinstance(n, ast.Constant) and isinstance(n.value, (int, float)) and not isinstance(n.value, bool):
        return ({(): Fraction(n.value).limit_denominator(10**9)} if n.value != 0 else {}), {(): Fraction(1)}
    if isinstance(n, ast.Name) and n.id in subst:
        return ratfun(subst[n.id], {k: v for k, v in subst.items() if k != n.id}, depth + 1)
    if isinstance(n, ast.Attribute) and norm(n) in subst:
        key = norm(n)
        return ratfun(subst[key], {k: v for k, v in subst.items() if k != key}, depth + 1)
    if isinstance(n, (ast.Name, ast.Attribute)):
        return {((norm(n), 1),): Fraction(1)}, {(): Fraction(1)}
    if isinstance(n, ast.Call) and call_name(n) == "float" and len(n.args) == 1:
        return ratfun(n.args[0], subst, depth + 1)
    if isinstance(n, ast.UnaryOp) and isinstance(n.op, ast.USub):
        a, b = ratfun(n.operand, subst, depth + 1)
        return _pmul(a, {(): Fraction(-1)}), b
    if isinstance(n, ast.BinOp):
        an, ad = ratfun(n.left, subst, depth + 1)
        bn, bd = ratfun(n.right, subst, depth + 1)
        if isinstance(n.op, ast.Add):
            return _padd(_pmul(an, bd), _pmul(bn, ad)), _pmul(ad, bd)
        if isinstance(n.op, ast.Sub):
            return _padd(_pmul(an, bd), _pmul(bn, ad), -1), _pmul(ad, bd)
        if isinstance(n.op, ast.Mult):
            return _pmul(an, bn), _pmul(ad, bd)
        if isinstance(n.op, ast.Div):
            return _pmul(an, bd), _pmul(ad, bn)
    if isinstance(n, ast.Call):
        # an opaque call is an atom of the rational function (compared textually)
        return {((norm(n), 1),): Fraction(1)}, {(): Fraction(1)}
    raise ValueError(f"not rational: {norm(n)}")


def rat_equal(e1, e2, subst1=None, subst2=None) -> bool:
    a, b = ratfun(e1, subst1)
    c, d = ratfun(e2, subst2)
    return _padd(_pmul(a, d), _pmul(c, b), -1) == {}

"""E2 - forward dataflow over Python's structured statements.

Python has no goto, so a syntax-directed walk with explicit break/continue/return/raise
out-states *is* the CFG analysis: every path of the function is covered, joins happen where
paths merge, loops are iterated to a fixpoint.  A client subclasses :class:`Analysis`.
States must be immutable and comparable with ``==``; ``None`` means unreachable.
"""
from __future__ import annotations

import ast
from typing import Any, Callable, List, Optional, Tuple

from .core import AnalysisError


class Out:
    __slots__ = ("fall", "brk", "cont", "ret", "exc")

    def __init__(self, fall=None):
        self.fall = fall
        self.brk = None
        self.cont = None
        self.ret: List[Tuple[ast.AST, Any]] = []
        self.exc: List[Tuple[ast.AST, Any]] = []


class Analysis:
    """Override ``join``, ``transfer`` and optionally ``assume``/``visit``/``enter_loop_target``."""

    def join(self, a, b):
        raise NotImplementedError

    def transfer(self, stmt: ast.stmt, state):
        return state

    def assume(self, test: ast.expr, state, truth: bool):
        return state

    def visit(self, stmt: ast.stmt, state):
        """Called with the state holding just before ``stmt`` (every statement, compound or not)."""

    def bind_target(self, target: ast.expr, state):
        return state

    def on_handler(self, handler: ast.ExceptHandler, state):
        return state

    # -- engine ------------------------------------------------------------------------------
    def j(self, a, b):
        if a is None:
            return b
        if b is None:
            return a
        return self.join(a, b)

    def run_function(self, fn: ast.FunctionDef, init) -> Out:
        return self.block(fn.body, init)

    def block(self, stmts, state) -> Out:
        out = Out(state)
        for st in stmts:
            if out.fall is None:
                break
            o = self.stmt(st, out.fall)
            out.fall = o.fall
            out.brk = self.j(out.brk, o.brk)
            out.cont = self.j(out.cont, o.cont)
            out.ret.extend(o.ret)
            out.exc.extend(o.exc)
        return out

    def _merge(self, a: Out, b: Out) -> Out:
        o = Out(self.j(a.fall, b.fall))
        o.brk = self.j(a.brk, b.brk)
        o.cont = self.j(a.cont, b.cont)
        o.ret = a.ret + b.ret
        o.exc = a.exc + b.exc
        return o

    def stmt(self, st: ast.stmt, state) -> Out:
        self.visit(st, state)
        if isinstance(st, ast.If):
            t = self._truth(st.test)
            st_true = None if t is False else self.assume(st.test, state, True)
            st_false = None if t is True else self.assume(st.test, state, False)
            a = self.block(st.body, st_true) if st_true is not None else Out(None)
            b = self.block(st.orelse, st_false) if st_false is not None else Out(None)
            return self._merge(a, b)
        if isinstance(st, (ast.While, ast.For, ast.AsyncFor)):
            return self._loop(st, state)
        if isinstance(st, (ast.Try,)) or st.__class__.__name__ == "TryStar":
            return self._try(st, state)
        if isinstance(st, (ast.With, ast.AsyncWith)):
            s = state
            for item in st.items:
                s = self.transfer(ast.Expr(value=item.context_expr), s)
                if item.optional_vars is not None:
                    s = self.bind_target(item.optional_vars, s)
            return self.block(st.body, s)
        if isinstance(st, ast.Return):
            s = self.transfer(st, state)
            o = Out(None)
            o.ret.append((st, s))
            return o
        if isinstance(st, ast.Raise):
            s = self.transfer(st, state)
            o = Out(None)
            o.exc.append((st, s))
            return o
        if isinstance(st, ast.Break):
            o = Out(None)
            o.brk = state
            return o
        if isinstance(st, ast.Continue):
            o = Out(None)
            o.cont = state
            return o
        if isinstance(st, ast.Match):
            res = Out(None)
            s = self.transfer(ast.Expr(value=st.subject), state)
            for case in st.cases:
                res = self._merge(res, self.block(case.body, s))
            res.fall = self.j(res.fall, s)
            return res
        return Out(self.transfer(st, state))

    @staticmethod
    def _truth(test):
        if isinstance(test, ast.Constant):
            return bool(test.value)
        return None

    def _loop(self, st, state) -> Out:
        is_while = isinstance(st, ast.While)
        head = state
        res = Out(None)
        body_out = None
        for _ in range(40):
            if is_while:
                t = self._truth(st.test)
                entry = None if t is False else self.assume(st.test, head, True)
            else:
                entry = self.bind_target(st.target, self.transfer(ast.Expr(value=st.iter), head))
            body_out = self.block(st.body, entry) if entry is not None else Out(None)
            new_head = self.j(self.j(state, body_out.fall), body_out.cont)
            if new_head == head:
                break
            head = new_head
        else:
            raise AnalysisError("loop fixpoint not reached")
        if is_while:
            t = self._truth(st.test)
            exit_state = None if t is True else self.assume(st.test, head, False)
        else:
            exit_state = head
        if st.orelse and exit_state is not None:
            eo = self.block(st.orelse, exit_state)
            res = self._merge(res, eo)
            exit_state = eo.fall
            res.fall = None
        res.fall = self.j(exit_state, body_out.brk if body_out else None)
        if body_out is not None:
            res.ret.extend(body_out.ret)
            res.exc.extend(body_out.exc)
        return res

    def _try(self, st, state) -> Out:
        # every state inside the body may reach a handler
        collected = [state]
        outer_visit = self.visit

        def spy(s, stt):
            collected.append(stt)
            outer_visit(s, stt)

        self.visit = spy  # type: ignore
        try:
            body = self.block(st.body, state)
        finally:
            self.visit = outer_visit  # type: ignore
        if body.fall is not None:
            collected.append(body.fall)
        hstate = None
        for s in collected:
            hstate = self.j(hstate, s)
        for _n, s in body.exc:
            hstate = self.j(hstate, s)
        res = Out(None)
        res.brk, res.cont, res.ret = body.brk, body.cont, list(body.ret)
        normal = body.fall
        if st.orelse and normal is not None:
            eo = self.block(st.orelse, normal)
            normal = eo.fall
            res.brk = self.j(res.brk, eo.brk)
            res.cont = self.j(res.cont, eo.cont)
            res.ret += eo.ret
            res.exc += eo.exc
        res.fall = normal
        catches_all = False
        for h in st.handlers:
            hs = self.on_handler(h, hstate)
            if h.name:
                hs = self.bind_target(ast.Name(id=h.name, ctx=ast.Store()), hs)
            ho = self.block(h.body, hs)
            res = self._merge(res, ho)
            if h.type is None or (isinstance(h.type, ast.Name) and h.type.id in ("Exception", "BaseException")):
                catches_all = True
        if not catches_all:
            res.exc += body.exc
        if st.finalbody:
            # apply the finally block to the normal continuation (sufficient for this code base)
            if res.fall is not None:
                fo = self.block(st.finalbody, res.fall)
                res.fall = fo.fall
                res.ret += fo.ret
                res.exc += fo.exc
        return res


# ---------------------------------------------------------------------------------------------
# A ready-made analysis: the set of "facts" that hold on every path (must-set).
# ---------------------------------------------------------------------------------------------

class MustFacts(Analysis):
    """State = frozenset of facts true on all paths reaching a point.  ``gen(stmt)`` returns facts
    established by a simple statement, ``cond_facts(test, truth)`` those learned from a branch,
    ``kills(stmt)`` the names (re)bound by a statement - facts mentioning them are dropped."""

    def join(self, a, b):
        return a & b

    def gen(self, stmt) -> set:
        return set()

    def cond_facts(self, test, truth) -> set:
        return set()

    def fact_names(self, fact) -> set:
        return set()

    def kills(self, stmt) -> set:
        out = set()
        for n in ast.walk(stmt):
            if isinstance(n, ast.Name) and isinstance(n.ctx, (ast.Store, ast.Del)):
                out.add(n.id)
        return out

    def transfer(self, stmt, state):
        k = self.kills(stmt) if not isinstance(stmt, (ast.FunctionDef, ast.ClassDef)) else {stmt.name}
        if k:
            state = frozenset(f for f in state if not (self.fact_names(f) & k))
        g = self.gen(stmt)
        return state | frozenset(g) if g else state

    def bind_target(self, target, state):
        k = {n.id for n in ast.walk(target) if isinstance(n, ast.Name)}
        return frozenset(f for f in state if not (self.fact_names(f) & k))

    def assume(self, test, state, truth):
        g = self.cond_facts(test, truth)
        return state | frozenset(g) if g else state


def split_and(test: ast.expr, truth: bool) -> List[Tuple[ast.expr, bool]]:
    """Atoms known when ``test`` evaluates to ``truth``: and/or/not are decomposed."""
    if isinstance(test, ast.UnaryOp) and isinstance(test.op, ast.Not):
        return split_and(test.operand, not truth)
    if isinstance(test, ast.BoolOp):
        if isinstance(test.op, ast.And) and truth:
            out = []
            for v in test.values:
                out += split_and(v, True)
            return out
        if isinstance(test.op, ast.Or) and not truth:
            out = []
            for v in test.values:
                out += split_and(v, False)
            return out
        return []
    return [(test, truth)]


# ---------------------------------------------------------------------------------------------
# Path-sensitive facts: the state is a set of alternatives (one per distinguishable path class),
# each a frozenset of facts.  Exact for the small orchestration functions it is used on.
# ---------------------------------------------------------------------------------------------

class PathFacts(Analysis):
    CAP = 256

    def join(self, a, b):
        u = a | b
        if len(u) > self.CAP:
            raise AnalysisError("too many path alternatives")
        return u

    # client API
    def gen(self, stmt, alt) -> set:
        return set()

    def cond_facts(self, test, truth) -> set:
        return set()

    def fact_names(self, fact) -> set:
        return set()

    def contradicts(self, alt) -> bool:
        return False

    def transfer(self, stmt, state):
        if isinstance(stmt, (ast.FunctionDef, ast.ClassDef)):
            k = {stmt.name}
        else:
            k = {n.id for n in ast.walk(stmt) if isinstance(n, ast.Name) and isinstance(n.ctx, (ast.Store, ast.Del))}
        out = set()
        for alt in state:
            a = frozenset(f for f in alt if not (self.fact_names(f) & k)) if k else alt
            g = self.gen(stmt, a)
            out.add(a | frozenset(g) if g else a)
        return frozenset(out)

    def bind_target(self, target, state):
        k = {n.id for n in ast.walk(target) if isinstance(n, ast.Name)}
        return frozenset(frozenset(f for f in alt if not (self.fact_names(f) & k)) for alt in state)

    def assume(self, test, state, truth):
        g = frozenset(self.cond_facts(test, truth))
        out = set()
        for alt in state:
            a = alt | g
            if not self.contradicts(a):
                out.add(a)
        return frozenset(out) if out else None


class CallCount(Analysis):
    """(min,max) number of matching calls executed on the paths reaching a point; max saturates at 3."""

    def __init__(self, pred):
        self.pred = pred

    def join(self, a, b):
        return (min(a[0], b[0]), max(a[1], b[1]))

    def count(self, stmt):
        n = 0
        for x in _walk_local(stmt):
            if isinstance(x, ast.Call) and self.pred(x):
                n += 1
        return n

    def transfer(self, stmt, state):
        if isinstance(stmt, (ast.FunctionDef, ast.ClassDef)):
            return state
        n = self.count(stmt)
        return (min(3, state[0] + n), min(3, state[1] + n)) if n else state

    def assume(self, test, state, truth):
        n = self.count(test)
        return (min(3, state[0] + n), min(3, state[1] + n)) if n else state


def _walk_local(node):
    stack = [node]
    first = True
    while stack:
        n = stack.pop()
        if not first and isinstance(n, (ast.FunctionDef, ast.AsyncFunctionDef, ast.ClassDef, ast.Lambda)):
            continue
        first = False
        yield n
        stack.extend(ast.iter_child_nodes(n))


class CondTrace(PathFacts):
    """Path-sensitive record of the branch conditions (and, optionally, of marker facts generated by
    statements) under which selected statements execute.  A condition fact is ("c", text, truth, names);
    ``self.tests[text]`` keeps one AST for each text so that callers can reason about it."""

    CAP = 2048

    def __init__(self, want, marks=None):
        self.want = want          # stmt -> bool : record the state reaching this statement
        self.marks = marks        # stmt -> iterable of marker facts (strings) generated by the statement
        self.hits = []            # (stmt, frozenset_of_alternatives)
        self.tests = {}

    def fact_names(self, f):
        return set(f[3]) if isinstance(f, tuple) and f[0] == "c" else set()

    def cond_facts(self, test, truth):
        out = set()
        for atom, t in [(test, truth)] + [a for a in split_and(test, truth) if a[0] is not test]:
            txt = ast.unparse(atom)
            self.tests.setdefault(txt, atom)
            names = tuple(sorted({n.id for n in ast.walk(atom) if isinstance(n, ast.Name)} - {"self"}))
            out.add(("c", txt, t, names))
        return out

    def gen(self, stmt, alt):
        return set(self.marks(stmt)) if self.marks else set()

    def visit(self, stmt, state):
        if self.want(stmt):
            self.hits.append((stmt, state))


def conds(alt):
    return {(f[1], f[2]) for f in alt if isinstance(f, tuple) and f[0] == "c"}


def lexical_conds(mod, node):
    """(text, truth) atoms of the If tests that lexically enclose ``node`` (truth = which branch it sits in),
    up to the enclosing function.  Sufficient for guard idioms of the form `if guard: ... use ...`."""
    out = set()
    child = node
    for anc in mod.ancestors(node):
        if isinstance(anc, (ast.FunctionDef, ast.AsyncFunctionDef)):
            break
        if isinstance(anc, ast.If):
            in_body = any(child is b for b in anc.body)
            in_else = any(child is b for b in anc.orelse)
            if in_body or in_else:
                truth = in_body
                out.add((ast.unparse(anc.test), truth))
                for atom, t in split_and(anc.test, truth):
                    out.add((ast.unparse(atom), t))
        child = anc
    return out

"""E6 - abstract evaluation of a parser arm's argument-binding prologue over call shapes.

A *call shape* says which parameters of the host callable are passed positionally (a prefix), which by
keyword and which are omitted.  The arm's statements are evaluated over the abstract values
  Tok('P', i) / Tok('K', name)  - the source text of that argument (any conversion keeps the token),
  NONE, Def(python constant), UNK (opaque).
Unknown conditions fork the path.  The result is, per path, either 'raise' or the IR node constructed
with the abstract value bound to each field.
"""
from __future__ import annotations

import ast
from dataclasses import dataclass
from typing import Any, Dict, List, Optional, Tuple

from . import lit
from .src import call_name, norm


class AbsErr(Exception):
    """evaluation would raise in the real code (AttributeError on None.strip(), explicit raise...)"""


class Unsupported(Exception):
    pass


@dataclass(frozen=True)
class Tok:
    kind: str  # 'P' | 'K'
    key: Any
    alt: Any = None   # `tok or default`: what the argument is replaced by when its value is falsy (0, False, "")

    def __repr__(self):
        return f"{self.kind}:{self.key}" + (f" (replaced by {self.alt!r} when the value is 0/False/empty)" if self.alt is not None else "")


@dataclass(frozen=True)
class Def:
    value: Any

    def __repr__(self):
        return f"={self.value!r}"


class _None:
    def __repr__(self):
        return "None"


class _Unk:
    def __repr__(self):
        return "?"


NONE = _None()
UNK = _Unk()


@dataclass(frozen=True)
class Args:
    """the whole argument text captured by the arm's regex"""


ARGS = Args()

RESOLVERS_DEFAULT = {"_resolve_numeric_arg", "_resolve_float_arg", "_resolve_bool_arg"}  # (src, default)
RESOLVERS_NONE = {"_resolve_optional_numeric_arg"}                                        # (src) -> None
RESOLVERS_KWDEFAULT = {"_resolve_align_arg": "left", "_resolve_style_arg": "block"}      # (src, default=..)
RESOLVERS_REQUIRED = {"_resolve_animation_arg", "_require_string_literal"}
PASS_THROUGH = {"_to_c_expr", "_eval_const", "int", "float", "bool", "str", "ast.literal_eval", "_emit_expr", "list", "tuple"}
MAY_RAISE = {"_eval_const", "ast.literal_eval", "ast.parse", "int", "float", "_coerce_pattern"}


KNOWN_CONTRACT = RESOLVERS_DEFAULT | RESOLVERS_NONE | set(RESOLVERS_KWDEFAULT) | RESOLVERS_REQUIRED


class ADict:
    def __init__(self, d):
        self.d = d

    def __repr__(self):
        return f"ADict({self.d})"


class _Ret(Exception):
    def __init__(self, value):
        self.value = value


class Fork(Exception):
    def __init__(self, node):
        self.node = node


class Shape:
    def __init__(self, npos: int, kws: frozenset):
        self.npos = npos
        self.kws = kws

    def __repr__(self):
        return f"({self.npos} positional; keywords {sorted(self.kws)})"


class ArmEval:
    def __init__(self, shape: Shape, ir_fields: Dict[str, List[str]], local_funcs: set, args_group_expr: str, decisions=None, extra_env=None, module=None, local_defs=None):
        self.module = module
        self.local_defs = local_defs or {}
        self.depth = 0
        self.shape = shape
        self.ir_fields = ir_fields
        self.local_funcs = set(local_funcs)
        self.args_group = args_group_expr
        self.decisions: List[bool] = list(decisions or [])
        self.dpos = 0
        self.made: List[bool] = []
        self.nodes: List[Tuple[str, Dict[str, Any]]] = []
        self.extra_env = extra_env or {}

    # -- decisions for unknown conditions ----------------------------------------------------
    def decide(self) -> bool:
        if self.dpos < len(self.decisions):
            v = self.decisions[self.dpos]
        else:
            v = True
        self.dpos += 1
        self.made.append(v)
        return v

    # -- expressions -------------------------------------------------------------------------
    def truth(self, v) -> bool:
        if v is ARGS:
            return (self.shape.npos + len(self.shape.kws)) > 0    # the argument text is empty exactly for a call without arguments
        if isinstance(v, Tok):
            return True
        if isinstance(v, list):
            return bool(v)
        if v is NONE:
            return False
        if isinstance(v, Def):
            return bool(v.value)
        return self.decide()

    def ev(self, n, env):
        if isinstance(n, ast.Constant):
            return NONE if n.value is None else Def(n.value)
        if isinstance(n, ast.Name):
            if n.id in env:
                return env[n.id]
            if n.id in self.extra_env:
                return self.extra_env[n.id]
            if self.module is not None and n.id in self.module.consts:
                v = lit.try_ev(self.module.consts[n.id], self.module, default=UNK)
                return UNK if v is UNK else (NONE if v is None else Def(v))
            return UNK
        if isinstance(n, ast.Dict) and not n.keys:
            return ADict({})
        if isinstance(n, ast.Dict):
            d = {}
            for k, v in zip(n.keys, n.values):
                kv = self.ev(k, env) if k is not None else UNK
                if not isinstance(kv, Def):
                    return UNK
                d[kv.value] = self.ev(v, env)
            return ADict(d)
        if isinstance(n, ast.Tuple):
            return tuple(self.ev(e, env) for e in n.elts)
        if isinstance(n, ast.UnaryOp) and isinstance(n.op, ast.Not):
            return Def(not self.truth(self.ev(n.operand, env)))
        if isinstance(n, ast.UnaryOp) and isinstance(n.op, ast.USub):
            v = self.ev(n.operand, env)
            return Def(-v.value) if isinstance(v, Def) and isinstance(v.value, (int, float)) else UNK
        if isinstance(n, ast.BoolOp):
            if isinstance(n.op, ast.And):
                v = Def(True)
                for e in n.values:
                    v = self.ev(e, env)
                    if not self.truth(v):
                        return v if not isinstance(v, _Unk) else Def(False)
                return v if not isinstance(v, _Unk) else Def(True)
            v = Def(False)
            for i_, e in enumerate(n.values):
                v = self.ev(e, env)
                if isinstance(v, Tok) and i_ + 1 < len(n.values) and v.alt is None:
                    # `arg or default`: a supplied 0 / False / "" is silently replaced
                    rest = self.ev(n.values[i_ + 1], env)
                    if isinstance(rest, Def) or rest is NONE:
                        return Tok(v.kind, v.key, rest)
                if self.truth(v):
                    return v if not isinstance(v, _Unk) else Def(True)
            return v if not isinstance(v, _Unk) else Def(False)
        if isinstance(n, ast.Compare) and len(n.ops) == 1:
            a = self.ev(n.left, env)
            b = self.ev(n.comparators[0], env)
            op = n.ops[0]
            if isinstance(op, (ast.Is, ast.IsNot)):
                if b is NONE or a is NONE:
                    other = a if b is NONE else b
                    if other is UNK:
                        res = self.decide()
                        return Def(res)
                    isn = other is NONE
                    return Def(isn if isinstance(op, ast.Is) else not isn)
                return UNK
            if isinstance(op, (ast.Eq, ast.NotEq)):
                if isinstance(a, Def) and isinstance(b, Def):
                    e = a.value == b.value
                    return Def(e if isinstance(op, ast.Eq) else not e)
                if (isinstance(a, Tok) or a is ARGS) and isinstance(b, Def):
                    # a supplied argument is not the literal text compared with ("None", "")
                    return Def(isinstance(op, ast.NotEq))
                return UNK
            if isinstance(op, (ast.In, ast.NotIn)):
                return UNK
            if isinstance(a, Def) and isinstance(b, Def):
                import operator as _o
                f = {ast.Lt: _o.lt, ast.LtE: _o.le, ast.Gt: _o.gt, ast.GtE: _o.ge}.get(type(op))
                if f:
                    try:
                        return Def(f(a.value, b.value))
                    except TypeError:
                        return UNK
            return UNK
        if isinstance(n, ast.IfExp):
            tv = self.ev(n.test, env)
            if isinstance(tv, Tok):
                # `1 if value else 0`: a constant selected by the argument's own value is still that argument
                return tv
            return self.ev(n.body if self.truth(tv) else n.orelse, env)
        if isinstance(n, ast.Attribute):
            base = self.ev(n.value, env)
            if isinstance(base, Tok) or base is ARGS:
                return base  # .value / .id / .body of something derived from the token
            if base is NONE:
                raise AbsErr("attribute of None")
            return UNK
        if isinstance(n, ast.Subscript):
            base = self.ev(n.value, env)
            idx = self.ev(n.slice, env) if not isinstance(n.slice, ast.Slice) else UNK
            if isinstance(base, (tuple, list)):
                if isinstance(idx, Def) and isinstance(idx.value, int):
                    try:
                        return base[idx.value]
                    except IndexError:
                        raise AbsErr("IndexError")
            if isinstance(base, ADict) and isinstance(idx, Def):
                if idx.value in base.d:
                    return base.d[idx.value]
                raise AbsErr("KeyError")
            if isinstance(base, Def) and isinstance(idx, Def) and isinstance(base.value, (dict, list, tuple, str)):
                try:
                    v = base.value[idx.value]
                except (KeyError, IndexError, TypeError):
                    raise AbsErr("lookup failed")
                return NONE if v is None else Def(v)
            return UNK
        if isinstance(n, ast.JoinedStr):
            return UNK
        if isinstance(n, ast.List):
            return [self.ev(e, env) for e in n.elts]          # an abstract list (mutable: append is modelled)
        if isinstance(n, (ast.Dict, ast.Set, ast.ListComp, ast.GeneratorExp, ast.BinOp)):
            return UNK
        if isinstance(n, ast.Call):
            return self.call(n, env)
        return UNK

    def call(self, n: ast.Call, env):
        cn = call_name(n)
        f = n.func
        if norm(n) == self.args_group:
            return ARGS
        if cn == "_extract_call_argument":
            src = self.ev(n.args[0], env) if n.args else UNK
            if src is not ARGS:
                raise Unsupported(f"_extract_call_argument on {norm(n.args[0]) if n.args else '?'} (not the arm's argument text)")
            kw = None
            pos = 0
            for k in n.keywords:
                v = self.ev(k.value, env)
                if k.arg == "keyword":
                    kw = None if v is NONE else (v.value if isinstance(v, Def) else UNK)
                elif k.arg == "position":
                    pos = v.value if isinstance(v, Def) else UNK
            if len(n.args) > 1:
                raise Unsupported("positional position/keyword")
            if kw is UNK or pos is UNK:
                raise Unsupported("computed keyword/position")
            if kw is not None:
                return Tok("K", kw) if kw in self.shape.kws else NONE
            return Tok("P", pos) if pos < self.shape.npos else NONE
        if isinstance(f, ast.Attribute) and f.attr == "append" and isinstance(f.value, ast.Name) and isinstance(env.get(f.value.id), list) and len(n.args) == 1:
            env[f.value.id].append(self.ev(n.args[0], env))
            return NONE
        if cn == "enumerate" and n.args:
            seq = self.ev(n.args[0], env)
            if isinstance(seq, Def) and isinstance(seq.value, (tuple, list)):
                seq = tuple(NONE if x is None else Def(x) for x in seq.value)
            if isinstance(seq, (tuple, list)):
                start = 0
                return tuple((Def(i + start), x) for i, x in enumerate(seq))
            return UNK
        if isinstance(f, ast.Attribute) and f.attr in ("strip", "lower", "upper", "rstrip", "lstrip"):
            base = self.ev(f.value, env)
            if base is NONE:
                raise AbsErr("None.strip()")
            return base
        if isinstance(f, ast.Attribute) and f.attr in ("group",):
            return UNK
        if cn in RESOLVERS_DEFAULT:
            a = self.ev(n.args[0], env)
            d = self.ev(n.args[1], env) if len(n.args) > 1 else UNK
            if a is ARGS:
                return self.args_as_single(n)
            return a if isinstance(a, Tok) else (d if a is NONE else UNK)
        if cn in RESOLVERS_NONE:
            a = self.ev(n.args[0], env)
            return a if isinstance(a, Tok) else (NONE if a is NONE else UNK)
        if cn in RESOLVERS_KWDEFAULT:
            a = self.ev(n.args[0], env)
            d = self.ev(n.args[1], env) if len(n.args) > 1 else Def(RESOLVERS_KWDEFAULT[cn])
            return a if isinstance(a, Tok) else (d if a is NONE else UNK)
        if cn in RESOLVERS_REQUIRED:
            a = self.ev(n.args[0], env)
            if a is NONE:
                raise AbsErr("required argument missing")
            return a
        if isinstance(f, ast.Attribute) and f.attr == "get" and n.args:
            base = self.ev(f.value, env)
            k = self.ev(n.args[0], env)
            dflt = self.ev(n.args[1], env) if len(n.args) > 1 else NONE
            if isinstance(base, ADict) and isinstance(k, Def):
                return base.d.get(k.value, dflt)
            if isinstance(base, Def) and isinstance(base.value, dict) and isinstance(k, Def):
                v = base.value.get(k.value, "<absent>")
                return dflt if v == "<absent>" else (NONE if v is None else Def(v))
            return UNK
        if cn in self.local_defs and cn not in PASS_THROUGH and not cn.startswith("_resolve_") or (cn in self.local_defs and cn not in KNOWN_CONTRACT):
            return self.inline(self.local_defs[cn], n, env)
        if cn in PASS_THROUGH or cn in self.local_funcs:
            if not n.args:
                return UNK
            a = self.ev(n.args[0], env)
            if a is ARGS:
                return self.args_as_single(n)
            if a is NONE and (cn == "_to_c_expr" or cn in self.local_funcs):
                raise AbsErr(f"{cn}(None)")
            return a if isinstance(a, Tok) else UNK
        if cn == "ast.parse":
            a = self.ev(n.args[0], env) if n.args else UNK
            if a is ARGS:
                return self.args_as_single(n)
            return a if isinstance(a, Tok) else UNK
        if cn in ("all", "any") and n.args and isinstance(n.args[0], ast.GeneratorExp):
            g = n.args[0]
            if len(g.generators) == 1 and isinstance(g.generators[0].iter, (ast.Tuple, ast.List)) and isinstance(g.generators[0].target, ast.Name):
                res = []
                for e in g.generators[0].iter.elts:
                    env2 = dict(env)
                    env2[g.generators[0].target.id] = self.ev(e, env)
                    res.append(self.truth(self.ev(g.elt, env2)))
                return Def(all(res) if cn == "all" else any(res))
            return UNK
        if cn == "isinstance":
            a = self.ev(n.args[0], env)
            if isinstance(a, Def):
                tn = norm(n.args[1])
                t = {"bool": bool, "int": int, "float": float, "str": str, "(int, float)": (int, float), "(list, tuple)": (list, tuple)}.get(tn)
                if t is not None:
                    return Def(isinstance(a.value, t))
            return UNK
        return UNK

    def inline(self, fn: ast.FunctionDef, call: ast.Call, env):
        """abstractly run a local helper (closure of the dispatcher) that is not one of the modelled resolvers"""
        self.depth += 1
        if self.depth > 6:
            raise Unsupported("helper recursion")
        try:
            params = [a.arg for a in fn.args.args]
            new = dict(env)  # closures see the enclosing bindings
            for p_, a in zip(params, call.args):
                new[p_] = self.ev(a, env)
            for k in call.keywords:
                if k.arg:
                    new[k.arg] = self.ev(k.value, env)
            nd = len(fn.args.defaults)
            for i, p_ in enumerate(params):
                if p_ not in new or (i >= len(call.args) and not any(k.arg == p_ for k in call.keywords)):
                    j = i - (len(params) - nd)
                    if j >= 0 and i >= len(call.args) and not any(k.arg == p_ for k in call.keywords):
                        new[p_] = self.ev(fn.args.defaults[j], {})
            given_kw = {k.arg for k in call.keywords if k.arg}
            for a_, d_ in zip(fn.args.kwonlyargs, fn.args.kw_defaults):
                if a_.arg not in given_kw:
                    new[a_.arg] = self.ev(d_, {}) if d_ is not None else UNK
            try:
                r = self.run(fn.body, new)
            except _Ret as rr:
                return rr.value
            if r == "raise":
                raise AbsErr("helper raised")
            return NONE
        finally:
            self.depth -= 1

    def args_as_single(self, n):
        """the arm hands the *whole* argument text to an expression translator: only a single positional
        argument is a valid expression; anything else is a SyntaxError raised to the caller."""
        if self.shape.npos == 1 and not self.shape.kws:
            return Tok("P", 0)
        if self.shape.npos == 0 and not self.shape.kws:
            return NONE
        raise AbsErr("argument text is not a single expression")

    # -- statements --------------------------------------------------------------------------
    def run(self, stmts, env) -> str:
        """returns 'fall' | 'done' | 'raise'"""
        for st in stmts:
            r = self.stmt(st, env)
            if r != "fall":
                return r
        return "fall"

    def may_raise(self, node) -> bool:
        for c in ast.walk(node):
            if isinstance(c, ast.Call) and (call_name(c) in MAY_RAISE or call_name(c) in self.local_funcs):
                return True
        return False

    def stmt(self, st, env) -> str:
        try:
            return self._stmt(st, env)
        except AbsErr:
            return "raise"

    def _stmt(self, st, env) -> str:
        if isinstance(st, ast.Assign):
            v = self.ev(st.value, env)
            for t in st.targets:
                self.assign(t, v, env)
            return "fall"
        if isinstance(st, ast.AnnAssign):
            if st.value is not None:
                self.assign(st.target, self.ev(st.value, env), env)
            return "fall"
        if isinstance(st, ast.AugAssign):
            if isinstance(st.target, ast.Name) and st.target.id == "i":
                return "fall"
            self.assign(st.target, UNK, env)
            return "fall"
        if isinstance(st, ast.Expr):
            v = st.value
            if isinstance(v, ast.Call) and isinstance(v.func, ast.Attribute) and v.func.attr == "append" and norm(v.func.value) == "body":
                self.record(v.args[0], env)
                return "fall"
            if isinstance(v, ast.Call):
                self.ev(v, env)
            return "fall"
        if isinstance(st, ast.If):
            if self.truth(self.ev(st.test, env)):
                return self.run(st.body, env)
            return self.run(st.orelse, env)
        if isinstance(st, ast.Raise):
            return "raise"
        if isinstance(st, ast.Continue):
            return "done"
        if isinstance(st, ast.Pass):
            return "fall"
        if isinstance(st, ast.FunctionDef):
            self.local_funcs.add(st.name)
            return "fall"
        if isinstance(st, ast.Try):
            raising = any(self.may_raise(b) for b in st.body)
            if raising and self.decide():
                # exceptional path: the handler runs with the bindings made before the try
                snapshot = dict(env)
                for h in st.handlers:
                    r = self.run(h.body, snapshot)
                    env.clear()
                    env.update(snapshot)
                    return r
                return "raise"
            r = self.run(st.body, env)
            if r == "fall" and st.orelse:
                r = self.run(st.orelse, env)
            return r
        if isinstance(st, ast.Return):
            if self.depth > 0:
                raise _Ret(self.ev(st.value, env) if st.value is not None else NONE)
            raise Unsupported("return in arm")
        if isinstance(st, ast.For):
            it = self.ev(st.iter, env)
            seq = None
            if isinstance(it, Def) and isinstance(it.value, (tuple, list)):
                seq = [NONE if x is None else (tuple(NONE if y is None else Def(y) for y in x) if isinstance(x, (tuple, list)) else Def(x)) for x in it.value]
            elif isinstance(it, tuple):
                seq = list(it)
            if seq is None:
                # loops over evaluated values (pattern/bitmap entries): body is value-level, not binding; lists it
                # appends to are no longer known element by element
                self.assign(st.target, UNK, env)
                for c in ast.walk(st):
                    if isinstance(c, ast.Call) and isinstance(c.func, ast.Attribute) and c.func.attr in ("append", "extend", "insert") and isinstance(c.func.value, ast.Name) and isinstance(env.get(c.func.value.id), list):
                        env[c.func.value.id] = UNK
                return "fall"
            for item in seq:
                self.assign(st.target, item, env)
                r = self.run(st.body, env)
                if r == "raise":
                    return r
            return "fall"
        if isinstance(st, (ast.While, ast.With, ast.Break)):
            raise Unsupported(f"statement {type(st).__name__} in arm")
        return "fall"

    def assign(self, t, v, env):
        if isinstance(t, ast.Name):
            env[t.id] = v
        elif isinstance(t, (ast.Tuple, ast.List)):
            if isinstance(v, tuple) and len(v) == len(t.elts):
                for e, x in zip(t.elts, v):
                    self.assign(e, x, env)
            else:
                for e in t.elts:
                    self.assign(e, UNK, env)
        elif isinstance(t, ast.Subscript):
            base = self.ev(t.value, env)
            k = self.ev(t.slice, env)
            if isinstance(base, ADict) and isinstance(k, Def):
                base.d[k.value] = v
        # other subscript/attribute stores (ctx[...] = ..., vars[name] = ...) carry no binding information

    def record(self, ctor: ast.AST, env):
        if not isinstance(ctor, ast.Call) or not isinstance(ctor.func, ast.Name):
            return
        cls = ctor.func.id
        fields = self.ir_fields.get(cls)
        if fields is None:
            return
        vals = {}
        for i, a in enumerate(ctor.args):
            if i < len(fields):
                vals[fields[i]] = self.ev(a, env)
        for k in ctor.keywords:
            if k.arg:
                vals[k.arg] = self.ev(k.value, env)
        self.nodes.append((cls, vals))


def explore(make_eval, stmts, env0, max_paths=4096):
    """enumerate all decision vectors; returns list of (status, nodes)."""
    results = []
    stack = [[]]
    seen = 0
    while stack:
        dec = stack.pop()
        ev = make_eval(dec)
        env = dict(env0)
        status = ev.run(stmts, env)
        results.append((status, ev.nodes, list(ev.made)))
        seen += 1
        if seen > max_paths:
            raise Unsupported("too many paths in arm")
        # schedule the alternative for every decision made beyond the prescribed prefix
        for i in range(len(dec), len(ev.made)):
            alt = ev.made[:i] + [not ev.made[i]]
            stack.append(alt)
    return results

"""Entry point: python -m sa.run Cnn [--tier quick|thorough] [--replay file]"""
from __future__ import annotations

import argparse
import importlib
import json
import os
import sys

from .core import run_check, AnalysisError


def main(argv=None) -> int:
    ap = argparse.ArgumentParser()
    ap.add_argument("prop")
    ap.add_argument("--tier", default=os.environ.get("VERIF_TIER", "quick"))
    ap.add_argument("--replay", default=None)
    ns = ap.parse_args(argv)
    prop = ns.prop.upper()
    tier = ns.tier if ns.tier in ("quick", "thorough") else "quick"
    try:
        m = importlib.import_module(f"sa.rules.{prop.lower()}")
    except ModuleNotFoundError:
        print(f"ANALYSIS-ERROR property={prop} no rule module")
        return 2
    if ns.replay:
        with open(ns.replay) as fh:
            rp = json.load(fh)
        print(f"replaying {len(rp.get('violations', []))} recorded violation(s) for {prop}:")
        for v in rp.get("violations", []):
            print(f"  recorded: rule={v['rule']} key={v['key']} {v['file']}:{v['line']} {v['message']}")
    if tier == "thorough" and not os.environ.get("VERIF_REPO"):
        from . import core, selftest
        try:
            st = selftest.run(prop)
        except Exception as e:      # evidence about the checker only: never decides the property, never changes the exit status
            print(f"SELFTEST-ERROR property={prop} the self-test could not be completed: {type(e).__name__}: {str(e)[:200]}")
            st = {"twin": None, "seeds": [], "benign": [], "seeds_reported": 0, "seeds_total": 0, "benign_silent": 0, "benign_total": 0, "error": f"{type(e).__name__}: {e}"}
        core.EXTRA_EVIDENCE["selftest"] = st
        tw = st.get("twin") or {}
        print(f"SELFTEST property={prop} benign-twin-silent={tw.get('silent')} seeded-changes-reported={st['seeds_reported']}/{st['seeds_total']} benign-refactors-silent={st.get('benign_silent')}/{st.get('benign_total')}")
        for s_ in st.get("benign", []) + st["seeds"]:
            if s_.get("timeout"):
                print(f"SELFTEST-TIMEOUT property={prop} seed={s_['seed']} (not counted)")
        for s_ in st.get("benign", []):
            if not s_.get("silent") and not s_.get("timeout"):
                print(f"SELFTEST-FALSE-ALARM property={prop} benign={s_['seed']} exit={s_.get('exit')} {s_.get('first', s_.get('note', ''))[:200]}")
        for s_ in st["seeds"]:
            if not s_.get("reported") and not s_.get("timeout"):
                print(f"SELFTEST-MISS property={prop} seed={s_['seed']} {s_.get('note', '')}")
        if tw and not tw.get("silent"):
            print(f"SELFTEST-FALSE-ALARM property={prop} on the ast.unparse twin: {tw.get('first')}")
    return run_check(prop, m.run, tier)


if __name__ == "__main__":
    sys.exit(main())

"""spacing variants of Reduino scripts: a line is re-spaced token by token (Python's own tokenizer certifies that the token
stream is unchanged) and the statement parser is partially evaluated on the script with that one line replaced; the IR must be
the IR of the canonical spelling.  Used by C07-SPACING."""
from __future__ import annotations

import io
import keyword
import tokenize
from typing import Iterator, List, Tuple

from . import pe
from .core import AnalysisError

# canonical scripts: every statement kind of the documented DSL, keywords written with a following parenthesis where Python
# allows the blank to be dropped
SCRIPTS = {
    "control": '''from Reduino.Actuators import Led
from Reduino.Utils import sleep
led = Led(13)
x = 3
while True:
    if (x > 2):
        led.on()
    elif (x > 1):
        led.off()
    else:
        led.toggle()
    while (x > 5):
        x = x - 1
        break
    for i in range(3):
        sleep(100)
    try:
        x += 1
    except Exception:
        pass
''',
    "function": '''from Reduino.Actuators import Led
led = Led(13)
def f(v, w):
    if v > 2:
        return (255)
    if w:
        return -1
    return v
def g():
    led.set_brightness(f(3, 4))
    return
while True:
    x = f(1, 2)
    g()
''',
    "setup-control": '''from Reduino.Actuators import Led
from Reduino.Utils import sleep
led = Led(13)
x = 3
if (x > 2):
    led.on()
elif (x > 1):
    led.off()
else:
    led.toggle()
while (x > 5):
    x = x - 1
for i in range(3):
    sleep(100)
try:
    x += 1
except Exception:
    pass
def f(v):
    return v
while True:
    x = f(x)
''',
    "data": '''from Reduino.Actuators import Led
from Reduino.Communication import SerialMonitor
mon = SerialMonitor(9600)
led = Led(pin=13)
xs = [1, 2, 3]
a, b = 1, 2
a, b = b, a
xs.append(4)
n = len(xs)
mon.write(xs[0])
mon.write("a b")
led.blink(200, times=3)
''',
}

KW = set(keyword.kwlist)


def _toks(text: str):
    out = []
    for t in tokenize.generate_tokens(io.StringIO(text + "\n").readline):
        if t.type in (tokenize.NEWLINE, tokenize.NL, tokenize.ENDMARKER, tokenize.INDENT, tokenize.DEDENT, tokenize.COMMENT):
            continue
        out.append(t)
    return out


def _isname(t):
    return t.type == tokenize.NAME and t.string not in KW


def _iskw(t):
    return t.type == tokenize.NAME and t.string in KW


KINDS = {
    "keyword-tight": lambda i, a, b, sep, last: "" if _iskw(a) and b.type in (tokenize.OP, tokenize.STRING) and b.string != ":" else sep,
    "space-before-call-paren": lambda i, a, b, sep, last: " " if _isname(a) and b.string == "(" else sep,
    "space-inside-parens": lambda i, a, b, sep, last: " " if (a.string in "([" and b.string not in ")]") or (b.string in ")]" and a.string not in "([") else sep,
    "space-around-dot": lambda i, a, b, sep, last: " " if a.string == "." or b.string == "." else sep,
    "space-before-colon": lambda i, a, b, sep, last: " " if b.string == ":" and i == last else sep,
    "operators-tight": lambda i, a, b, sep, last: "" if (a.type == tokenize.OP or b.type == tokenize.OP) and not (_iskw(a) or _iskw(b)) else sep,
    "double-space": lambda i, a, b, sep, last: sep * 2,
    "tab-for-space": lambda i, a, b, sep, last: "\t" if sep == " " else sep,
}


def statement_kind(line: str) -> str:
    ts = _toks(line.strip())
    if not ts:
        return "blank"
    if _iskw(ts[0]):
        return ts[0].string
    strs = [t.string for t in ts]
    if len(ts) >= 4 and _isname(ts[0]) and strs[1] == "." and _isname(ts[2]) and strs[3] == "(":
        return "method-call"
    if len(ts) >= 2 and _isname(ts[0]) and strs[1] == "(":
        return "call"
    if "=" in strs or any(s.endswith("=") and len(s) == 2 and s not in ("==", "!=", "<=", ">=") for s in strs):
        eq = strs.index("=") if "=" in strs else None
        if eq is not None and "," in strs[:eq]:
            return "tuple-assignment"
        if eq is not None and len(ts) > eq + 2 and _isname(ts[eq + 1]) and ts[eq + 1].string[:1].isupper() and strs[eq + 2] == "(":
            return "declaration"
        return "assignment"
    return "expression"


def variants(line: str) -> Iterator[Tuple[str, str]]:
    """(kind, re-spaced line) for every kind that changes the text and keeps Python's token stream"""
    ind = len(line) - len(line.lstrip(" "))
    body = line[ind:]
    ts = _toks(body)
    if not ts:
        return
    seps = [body[a.end[1]:b.start[1]] for a, b in zip(ts, ts[1:])]
    sig = [(t.type, t.string) for t in ts]
    for k, fn in KINDS.items():
        s = ts[0].string
        for i, (a, b) in enumerate(zip(ts, ts[1:])):
            s += fn(i, a, b, seps[i], len(seps) - 1) + b.string
        v = " " * ind + s
        if v == line:
            continue
        try:
            if [(t.type, t.string) for t in _toks(v[ind:])] != sig:
                continue
        except (tokenize.TokenError, SyntaxError, IndentationError):
            continue
        yield k, v
    yield "trailing-space", line + "  "
    yield "trailing-comment", line + "  # note: keep = 1"
    yield "trailing-comment-tight", line + "#x"


def tasks() -> List[Tuple[str, int, str, str, str]]:
    out = []
    for nm, src in sorted(SCRIPTS.items()):
        lines = src.split("\n")
        for i, l in enumerate(lines):
            if not l.strip():
                continue
            for k, v in variants(l):
                out.append((nm, i, statement_kind(l), k, v))
    return out


def _ir(src: str):
    _it, out = pe.parse_source(src)
    return (out.kind, repr(out.value))


def _worker(chunk):
    res = []
    refs = {}
    for nm, i, sk, k, v in chunk:
        try:
            if nm not in refs:
                refs[nm] = _ir(SCRIPTS[nm])
            lines = SCRIPTS[nm].split("\n")
            got = _ir("\n".join(lines[:i] + [v] + lines[i + 1:]))
            res.append((nm, i, sk, k, v, refs[nm][0], got == refs[nm], got[1] if got[0] != "return" else None, None))
        except AnalysisError as e:
            res.append((nm, i, sk, k, v, None, False, None, str(e)))
        except Exception as e:        # interpreter limits
            res.append((nm, i, sk, k, v, None, False, None, f"{type(e).__name__}: {e}"))
    return res


def evaluate():
    """[(script, line index, statement kind, variant kind, variant text, canonical outcome kind, same IR?, raised, error)]"""
    import concurrent.futures as cf
    import os
    ts = tasks()
    from sa.core import workers as _workers
    workers = _workers(12)
    chunks = [ts[i::workers] for i in range(workers)]
    try:
        with cf.ProcessPoolExecutor(max_workers=workers) as ex:
            parts = list(ex.map(_worker, chunks))
    except Exception:
        parts = [_worker(c) for c in chunks]
    out = [r for p in parts for r in p]
    for r in out:
        if r[8]:
            raise AnalysisError(f"parse() left the evaluable subset on `{r[4].strip()}`: {r[8]}")
    return sorted(out)

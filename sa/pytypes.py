"""CPython as typing oracle for Reduino scripts: a script of the checker's own corpus is executed (main loop bounded to a few
passes) under sys.settrace and the run-time types every variable takes - per module scope and per call signature of every
script function - are recorded.  What the transpiler declares (C++ types of VarDecl nodes, parameters and return types of
the specialised FunctionDef variants) must hold these values."""
from __future__ import annotations

import re
import sys
from typing import Dict, Set, Tuple

FILENAME = "<reduino-typing-script>"


def ctype_of(types: Set[type], elems=None) -> str:
    """the narrowest C++ type of the transpiler's vocabulary that holds every value of the given Python types"""
    ts = set(types)
    if not ts:
        return "?"
    if ts <= {bool}:
        return "bool"
    if ts <= {bool, int}:
        return "int"
    if ts <= {bool, int, float}:
        return "float"
    if ts == {str}:
        return "String"
    if ts == {type(None)}:
        return "void"
    return "+".join(sorted(t.__name__ for t in ts))


def _vt(v):
    if isinstance(v, list):
        return ("list", frozenset(type(x) for x in v))
    return type(v)


def trace(src: str, passes: int = 2):
    """-> {scope key: {"vars": {name: set of value types}, "returns": set of types}} with scope key "<module>" or
    (function name, tuple of argument C types)"""
    body = re.sub(r"^while True:\s*$", f"for __pass in range({passes}):", src, flags=re.M)
    code = compile(body, FILENAME, "exec")
    scopes: Dict[object, dict] = {}
    frames = {}

    def rec(frame, key):
        sc = scopes.setdefault(key, {"vars": {}, "returns": set()})
        for n, v in frame.f_locals.items():
            if n.startswith("__") or callable(v) or isinstance(v, type(sys)):
                continue
            sc["vars"].setdefault(n, set()).add(_vt(v))

    def tracer(frame, event, arg):
        if frame.f_code.co_filename != FILENAME:
            return None
        if event == "call":
            if frame.f_code.co_name == "<module>":
                frames[id(frame)] = "<module>"
            else:
                co = frame.f_code
                args = [frame.f_locals[n] for n in co.co_varnames[:co.co_argcount]]
                frames[id(frame)] = (co.co_name, tuple(ctype_of({type(a)}) if not isinstance(a, list) else "list" for a in args))
            return tracer
        key = frames.get(id(frame))
        if key is None:
            return tracer
        if event in ("line", "return"):
            rec(frame, key)
        if event == "return" and key != "<module>":
            scopes[key]["returns"].add(type(arg))
        return tracer

    genv = {"__builtins__": {"range": range, "len": len, "max": max, "min": min, "abs": abs, "int": int, "float": float, "str": str, "bool": bool, "ZeroDivisionError": ZeroDivisionError, "Exception": Exception, "ValueError": ValueError}}
    old = sys.gettrace()
    sys.settrace(tracer)
    try:
        exec(code, genv)
    finally:
        sys.settrace(old)
    return scopes


def var_ctype(tset) -> str:
    plain = {t for t in tset if not isinstance(t, tuple)}
    lists = [t for t in tset if isinstance(t, tuple)]
    if lists and not plain:
        el = set()
        for _l, e in lists:
            el |= set(e)
        return f"__redu_list<{ctype_of(el)}>"
    return ctype_of(plain)

"""Regex language analysis on the parsed pattern (re._parser): FIRST sets and the keyword-boundary rule.

The parser decides what a source line *is* by matching it against regexes.  A regex that spells a Python keyword or a
fixed identifier (``import``, ``from``, ``target``) as a run of literal letters only recognises that token if what may
follow the run cannot be another identifier character; otherwise it also accepts ``important = 1`` or ``targets.on()``.
``keyword_boundaries(pattern)`` returns every literal run whose continuation can start with a word character.
"""
from __future__ import annotations

import re
import string

try:
    import re._parser as sre_parse  # py3.11+
    import re._constants as sre_c
except ImportError:  # pragma: no cover
    import sre_parse
    import sre_constants as sre_c

ALPHABET = frozenset(chr(c) for c in range(32, 127)) | {"\t"}
WORD = frozenset(string.ascii_letters + string.digits + "_")
_CATS = {
    sre_c.CATEGORY_DIGIT: frozenset(string.digits),
    sre_c.CATEGORY_NOT_DIGIT: ALPHABET - frozenset(string.digits),
    sre_c.CATEGORY_SPACE: frozenset(" \t"),
    sre_c.CATEGORY_NOT_SPACE: ALPHABET - frozenset(" \t"),
    sre_c.CATEGORY_WORD: WORD,
    sre_c.CATEGORY_NOT_WORD: ALPHABET - WORD,
}


class RxUnsupported(Exception):
    pass


def _in_set(items):
    neg = False
    out = set()
    for op, av in items:
        if op is sre_c.NEGATE:
            neg = True
        elif op is sre_c.LITERAL:
            out.add(chr(av))
        elif op is sre_c.RANGE:
            out |= {chr(c) for c in range(av[0], av[1] + 1)}
        elif op is sre_c.CATEGORY:
            out |= _CATS[av]
        else:
            raise RxUnsupported(f"set item {op}")
    out &= ALPHABET
    return frozenset(ALPHABET - out) if neg else frozenset(out)


def _case(chars, flags):
    if flags & re.IGNORECASE:
        return frozenset(chars) | frozenset(c.lower() for c in chars) | frozenset(c.upper() for c in chars)
    return frozenset(chars)


def first(seq, follow=(frozenset(), True), flags=0, after_word=False, open_only=False):
    """(FIRST set, nullable) of ``seq`` followed by ``follow``.  A superset of the true FIRST set."""
    items = list(seq)
    if not items:
        return follow
    (op, av), rest = items[0], items[1:]
    if op is sre_c.LITERAL:
        # open_only: a literal continues the spelled keyword (``el`` + ``if|se``), it is not an open continuation
        return (frozenset() if open_only else _case({chr(av)}, flags)), False
    if op is sre_c.NOT_LITERAL:
        return ALPHABET - _case({chr(av)}, flags), False
    if op is sre_c.ANY:
        return ALPHABET, False
    if op is sre_c.IN:
        return _case(_in_set(av), flags), False
    if op is sre_c.AT:
        f, nl = first(rest, follow, flags, after_word, open_only)
        if av in (sre_c.AT_END, sre_c.AT_END_STRING, sre_c.AT_END_LINE):
            return frozenset(), True
        if av is sre_c.AT_BOUNDARY and after_word:
            return f - WORD, nl
        if av is sre_c.AT_NON_BOUNDARY and after_word:
            return f & WORD, False
        return f, nl
    if op in (sre_c.ASSERT, sre_c.ASSERT_NOT):
        direction, sub = av
        f, nl = first(rest, follow, flags, after_word, open_only)
        if op is sre_c.ASSERT and direction == 1:
            sf, snl = first(sub, (ALPHABET, True), flags, after_word, open_only)
            return (f & sf) if not snl else f, nl
        if op is sre_c.ASSERT_NOT and direction == 1:
            subl = list(sub)
            if len(subl) == 1 and subl[0][0] in (sre_c.LITERAL, sre_c.IN):
                sf, _ = first(subl, (frozenset(), True), flags, False, open_only)
                return f - sf, nl
        return f, nl
    if op is sre_c.SUBPATTERN:
        sub = av[3]
        return first(list(sub) + rest, follow, flags, after_word, open_only) if not _has_branch(sub) else _union([first(list(sub), first(rest, follow, flags, False, open_only), flags, after_word, open_only)])
    if op is sre_c.BRANCH:
        fol = first(rest, follow, flags, False, open_only)
        return _union([first(list(alt), fol, flags, after_word, open_only) for alt in av[1]])
    if op in (sre_c.MAX_REPEAT, sre_c.MIN_REPEAT) or op is getattr(sre_c, "POSSESSIVE_REPEAT", None):
        lo, hi, sub = av
        fol = first(rest, follow, flags, after_word, open_only)
        f, nl = first(list(sub), (frozenset(), True), flags, after_word, open_only)
        if lo == 0 or nl:
            return f | fol[0], fol[1]
        return f, False
    if op is sre_c.GROUPREF:
        fol = first(rest, follow, flags, False, open_only)
        return ALPHABET | fol[0], fol[1]
    if op is getattr(sre_c, "ATOMIC_GROUP", None):
        return first(list(av) + rest, follow, flags, after_word, open_only)
    raise RxUnsupported(f"regex op {op}")


def _has_branch(sub):
    return any(op is sre_c.BRANCH for op, _ in sub)


def _union(pairs):
    f = frozenset()
    nl = False
    for a, b in pairs:
        f |= a
        nl = nl or b
    return f, nl


def keyword_boundaries(pattern, flags=0, min_len=2):
    """[(keyword, chars)] for each maximal run of >= min_len literal letters/underscores whose continuation may begin with a
    word character (so the run is accepted as a *prefix* of a longer identifier)."""
    tree = sre_parse.parse(pattern, flags)
    flags |= tree.state.flags
    out = []

    def walk(seq, follow):
        items = list(seq)
        i = 0
        while i < len(items):
            op, av = items[i]
            rest = items[i + 1:]
            if op is sre_c.LITERAL and chr(av) in WORD:
                j = i
                while j < len(items) and items[j][0] is sre_c.LITERAL and chr(items[j][1]) in WORD:
                    j += 1
                run = "".join(chr(items[k][1]) for k in range(i, j))
                if len(run) >= min_len and any(c.isalpha() for c in run):
                    f, _nl = first(items[j:], follow, flags, after_word=True, open_only=True)
                    bad = f & WORD
                    if bad:
                        out.append((run, "".join(sorted(bad))[:12]))
                i = j
                continue
            if op is sre_c.SUBPATTERN:
                walk(av[3], first(rest, follow, flags))
            elif op is sre_c.BRANCH:
                fol = first(rest, follow, flags)
                for alt in av[1]:
                    walk(alt, fol)
            elif op in (sre_c.MAX_REPEAT, sre_c.MIN_REPEAT) or op is getattr(sre_c, "POSSESSIVE_REPEAT", None):
                lo, hi, sub = av
                fol = first(rest, follow, flags)
                if hi > 1:
                    sf, _ = first(list(sub), (frozenset(), True), flags)
                    fol = (fol[0] | sf, fol[1])
                walk(sub, fol)
            elif op in (sre_c.ASSERT, sre_c.ASSERT_NOT):
                pass
            i += 1

    walk(tree, (frozenset(), True))
    return out


def anchored_start(pattern, flags=0):
    tree = list(sre_parse.parse(pattern, flags))
    return bool(tree) and tree[0][0] is sre_c.AT and tree[0][1] in (sre_c.AT_BEGINNING, sre_c.AT_BEGINNING_STRING)


def ambiguous_nested_repeats(pattern, flags=0):
    """[(text of the inner repeat's first set, why)] for every unbounded repeat R whose body contains an unbounded repeat r
    such that, after r, the rest of R's body can match the empty string and the characters r consumes can also start a new
    iteration of R: the same run of characters can then be split between r and R in exponentially many ways, and a line that
    finally fails to match makes the backtracking matcher try them all (e.g. ``(?:\\w+\\s*,?\\s*)+$``)."""
    tree = sre_parse.parse(pattern, flags)
    flags |= tree.state.flags
    MAXR = sre_c.MAXREPEAT
    out = []
    REPEATS = tuple(x for x in (sre_c.MAX_REPEAT, sre_c.MIN_REPEAT, getattr(sre_c, "POSSESSIVE_REPEAT", None)) if x is not None)

    def nullable(seq):
        return first(list(seq), (frozenset(), True), flags)[1]

    def inner_tail_repeats(seq):
        """unbounded repeats of `seq` that can be the last thing matched in it: (first set of the repeat's body)"""
        items = list(seq)
        found = []
        for i, (op, av) in enumerate(items):
            rest = items[i + 1:]
            if not nullable(rest):
                continue
            if op in REPEATS:
                lo, hi, sub = av
                if hi == MAXR and op is not getattr(sre_c, "POSSESSIVE_REPEAT", None):
                    found.append(first(list(sub), (frozenset(), True), flags)[0])
                found += inner_tail_repeats(sub)
            elif op is sre_c.SUBPATTERN:
                found += inner_tail_repeats(av[3])
            elif op is sre_c.BRANCH:
                for alt in av[1]:
                    found += inner_tail_repeats(alt)
        return found

    def walk(seq):
        for op, av in list(seq):
            if op in REPEATS:
                lo, hi, sub = av
                if hi == MAXR and op is not getattr(sre_c, "POSSESSIVE_REPEAT", None):
                    start = first(list(sub), (frozenset(), True), flags)[0]
                    for f_ in inner_tail_repeats(sub):
                        both = f_ & start
                        if both:
                            out.append(("".join(sorted(both))[:10], "an inner unbounded repeat at the end of the body of an outer unbounded repeat consumes characters that can also begin the next outer iteration"))
                walk(sub)
            elif op is sre_c.SUBPATTERN:
                walk(av[3])
            elif op is sre_c.BRANCH:
                for alt in av[1]:
                    walk(alt)
            elif op in (sre_c.ASSERT, sre_c.ASSERT_NOT):
                walk(av[1])
    walk(tree)
    return out

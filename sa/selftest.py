"""Checker self-test (thorough tier): the quick rules are run against scratch copies of /repo/src -
(a) the `ast.unparse` twin of every file (must stay silent), (b) every stored breaking change of the property
(must be reported), (c) every stored behaviour-preserving refactor of ANY property (meta.json kind = benign; must stay
silent: a refactor of the parser written for one property is seen by every check that reads the parser).
Evidence about the checker; it does not decide the property."""
from __future__ import annotations

import ast
import glob
import json
import os
import shutil
import subprocess
import sys
import tempfile
from concurrent.futures import ThreadPoolExecutor

from .core import REPO, VERIF


def _copy_src(dst):
    shutil.copytree(os.path.join(REPO, "src"), os.path.join(dst, "src"), ignore=shutil.ignore_patterns("__pycache__", "*.egg-info"))


def _run(prop, root):
    ev = os.path.join(root, "_evidence")
    env = dict(os.environ, VERIF_REPO=root, VERIF_EVIDENCE_DIR=ev, VERIF_REPLAY_DIR=os.path.join(root, "_replay"), VERIF_TIER="quick", VERIF_POOL=os.environ.get("VERIF_POOL", "2"))
    try:
        cp = subprocess.run([sys.executable, "-B", "-m", "sa.run", prop, "--tier", "quick"], cwd=VERIF, env=env, capture_output=True, text=True, timeout=3600)
    except subprocess.TimeoutExpired:
        return None, "TIMEOUT: the scratch run did not finish within an hour (machine overloaded?) - not counted"
    first = next((l for l in cp.stdout.splitlines() if l.strip().startswith("finding") or l.startswith("ANALYSIS-ERROR")), "")
    return cp.returncode, first.strip()[:260]


def run(prop: str) -> dict:
    base = tempfile.mkdtemp(prefix="reduino-selftest-")
    out = {"twin": None, "seeds": []}
    try:
        # (a) benign twin
        twin = os.path.join(base, "twin")
        os.makedirs(twin)
        _copy_src(twin)
        for d, _dirs, files in os.walk(os.path.join(twin, "src")):
            for f in files:
                if f.endswith(".py"):
                    p = os.path.join(d, f)
                    with open(p, encoding="utf-8") as fh:
                        s = fh.read()
                    with open(p, "w", encoding="utf-8") as fh:
                        fh.write(ast.unparse(ast.parse(s)) + "\n")
        jobs = [("twin", twin, None)]
        # (b) seeded changes of this property, (c) benign refactors of every property
        def _kind(sd_):
            try:
                with open(os.path.join(sd_, "meta.json")) as fh:
                    return json.load(fh).get("kind", "breaking")
            except Exception:
                return "breaking"
        benign = [sd for sd in sorted(glob.glob(os.path.join(VERIF, "seeded", "C*-*"))) if os.path.isdir(sd) and _kind(sd) == "benign"]
        own = [sd for sd in sorted(glob.glob(os.path.join(VERIF, "seeded", f"{prop}-*"))) if os.path.isdir(sd) and _kind(sd) != "benign"]
        out["benign"] = []
        # the twin runs first: its evidence lists every file this check reads; a refactor that touches none of them cannot
        # change the check's verdict and is not run (recorded as silent, with the reason)
        twin_res = _run(prop, twin)
        consulted = None
        try:
            with open(os.path.join(twin, "_evidence", f"{prop}.json")) as fh:
                consulted = {c for c in json.load(fh)["coverage"]["files"] if c.endswith(".py")}
        except Exception:
            consulted = None
        for sd in own + benign:
            if sd in benign and consulted:
                touched = set()
                with open(os.path.join(sd, "patch.diff")) as fh:
                    for l in fh:
                        if l.startswith("+++ b/") or l.startswith("--- a/"):
                            touched.add(l[6:].strip())
                if not (touched & consulted):
                    out["benign"].append({"seed": os.path.basename(sd), "applied": True, "exit": 0, "silent": True, "first": "", "note": "touches no file this check reads"})
                    continue
            root = os.path.join(base, os.path.basename(sd))
            os.makedirs(root)
            _copy_src(root)
            ap = subprocess.run(["git", "apply", "--unsafe-paths", os.path.join(sd, "patch.diff")], cwd=root, capture_output=True, text=True)
            if ap.returncode != 0:
                (out["benign"] if sd in benign else out["seeds"]).append({"seed": os.path.basename(sd), "applied": False, "note": ap.stderr[-160:]})
                continue
            jobs.append((os.path.basename(sd), root, sd))
        with ThreadPoolExecutor(max_workers=max(2, min(8, (os.cpu_count() or 4) // 2))) as ex:
            results = [twin_res] + list(ex.map(lambda j: _run(prop, j[1]), jobs[1:]))
        for (name, _root, sd), (rc, first) in zip(jobs, results):
            if name == "twin":
                out["twin"] = {"exit": rc, "silent": rc == 0, "first": first}
            elif sd in benign:
                out["benign"].append({"seed": name, "applied": True, "exit": rc, "silent": rc == 0, "first": first, **({"timeout": True} if rc is None else {})})
            else:
                out["seeds"].append({"seed": name, "applied": True, "exit": rc, "reported": rc not in (0, None), "first": first, **({"timeout": True} if rc is None else {})})
    finally:
        shutil.rmtree(base, ignore_errors=True)
    out["seeds_reported"] = sum(1 for s in out["seeds"] if s.get("reported"))
    out["seeds_total"] = len(out["seeds"])
    out["benign_silent"] = sum(1 for s in out["benign"] if s.get("silent"))
    out["benign_total"] = len(out["benign"])
    return out

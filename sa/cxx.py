"""E5 - clang front end over extracted C++ text: type check (-fsyntax-only) and typed AST (JSON dump) turned
into a small statement/expression IR that the rules query.  The C++ is never linked or run."""
from __future__ import annotations

import json
import os
import re
import shutil
import subprocess
import tempfile
from typing import Any, Dict, List, Optional, Tuple

from .core import VERIF, AnalysisError

MOCK = os.path.join(VERIF, "mock")
CLANG = shutil.which("clang++") or shutil.which("clang++-14")
BASE = ["-std=gnu++17", "-fsyntax-only", "-nostdinc++", "-I", MOCK, "-Wno-everything", "-ferror-limit=0", "-x", "c++"]


def _need():
    if not CLANG:
        raise AnalysisError("clang++ not found")


def holes_in(text: str) -> List[str]:
    return sorted(set(re.findall(r"\bH_[A-Za-z0-9_]+\b", text)))


def prelude(text: str, hole_type: str = "int") -> str:
    """declarations for the placeholder identifiers that stand for user expressions"""
    out = []
    for h in holes_in(text):
        out.append(f"extern {hole_type} {h};")
    return "\n".join(out) + ("\n" if out else "")


def with_prelude(text: str, hole_type: str = "int") -> str:
    """put the hole declarations after the #include block so that line numbers stay meaningful enough"""
    lines = text.split("\n")
    last_inc = -1
    for i, l in enumerate(lines):
        if l.startswith("#include"):
            last_inc = i
    pre = prelude(text, hole_type)
    return "\n".join(lines[: last_inc + 1]) + "\n" + pre + "\n".join(lines[last_inc + 1:])


def typecheck(text: str, extra_flags=()) -> List[str]:
    """returns the list of clang *errors* (empty = type-correct against the mock core)"""
    _need()
    d = tempfile.mkdtemp(prefix="reduino-sa-")
    try:
        p = os.path.join(d, "tu.cpp")
        with open(p, "w") as fh:
            fh.write(text)
        cp = subprocess.run([CLANG] + BASE + list(extra_flags) + [p], capture_output=True, text=True, timeout=120)
        errs = []
        for line in cp.stderr.splitlines():
            m = re.match(r".*?tu\.cpp:(\d+):(\d+): (fatal error|error): (.*)", line)
            if m:
                ln = int(m.group(1))
                src = text.split("\n")[ln - 1].strip() if 0 < ln <= len(text.split("\n")) else ""
                errs.append(f"line {ln}: {m.group(4)}   [{src[:90]}]")
        if cp.returncode != 0 and not errs:
            errs.append("clang failed: " + cp.stderr[-300:])
        return errs
    finally:
        shutil.rmtree(d, ignore_errors=True)


def ast_functions(text: str, names: List[str]) -> Dict[str, Any]:
    """typed AST (clang JSON) of the named functions of a translation unit, as mini IR"""
    _need()
    d = tempfile.mkdtemp(prefix="reduino-sa-")
    try:
        p = os.path.join(d, "tu.cpp")
        with open(p, "w") as fh:
            fh.write(text)
        out = {}
        # one clang run per filter keeps the documents separable
        for nm in names:
            cp = subprocess.run([CLANG] + BASE + ["-Xclang", "-ast-dump=json", "-Xclang", f"-ast-dump-filter={nm}", p], capture_output=True, text=True, timeout=180)
            if cp.returncode != 0:
                raise AnalysisError(f"clang could not parse the extracted C++ for {nm}: {cp.stderr[-300:]}")
            docs = _split_json(cp.stdout)
            for doc in docs:
                for fn in _find_functions(doc):
                    if fn.get("name") == nm and any(c.get("kind") == "CompoundStmt" for c in fn.get("inner", [])):
                        out.setdefault(nm, []).append(to_function(fn))
        return out
    finally:
        shutil.rmtree(d, ignore_errors=True)


def _split_json(s: str):
    docs = []
    dec = json.JSONDecoder()
    i = 0
    n = len(s)
    while i < n:
        j = s.find("{", i)
        if j < 0:
            break
        try:
            obj, end = dec.raw_decode(s, j)
        except json.JSONDecodeError:
            break
        docs.append(obj)
        i = end
    return docs


def _find_functions(node):
    if isinstance(node, dict):
        if node.get("kind") in ("FunctionDecl", "CXXMethodDecl"):
            yield node
        for c in node.get("inner", []) or []:
            yield from _find_functions(c)


# ---------------------------------------------------------------------------------------------
# mini IR
# ---------------------------------------------------------------------------------------------
# expressions are tuples:
#   ("lit", value)            ("var", name)               ("call", name, [args])
#   ("mcall", obj, method, [args])  ("bin", op, l, r)     ("un", op, e)   ("post", op, e)
#   ("assign", op, l, r)      ("cond", c, a, b)           ("member", obj, field)
#   ("index", a, i)           ("cast", type, e)           ("ctor", type, [args])   ("other", kind)
# statements are dicts with key "k": decl/expr/if/for/while/return/break/continue/block

SKIP = {"ImplicitCastExpr", "ParenExpr", "ExprWithCleanups", "MaterializeTemporaryExpr", "CXXBindTemporaryExpr", "ConstantExpr", "FullExpr", "SubstNonTypeTemplateParmExpr"}


def to_function(fn):
    params = [(c.get("name"), c.get("type", {}).get("qualType")) for c in fn.get("inner", []) if c.get("kind") == "ParmVarDecl"]
    body = next(c for c in fn.get("inner", []) if c.get("kind") == "CompoundStmt")
    return {"name": fn.get("name"), "params": params, "body": to_block(body), "type": fn.get("type", {}).get("qualType")}


def to_block(node) -> List[dict]:
    if node is None:
        return []
    if node.get("kind") == "CompoundStmt":
        out = []
        for c in node.get("inner", []) or []:
            out.extend(to_stmts(c))
        return out
    return to_stmts(node)


def to_stmts(n) -> List[dict]:
    k = n.get("kind")
    inner = n.get("inner", []) or []
    if k == "CompoundStmt":
        return [{"k": "block", "body": to_block(n)}]
    if k == "DeclStmt":
        out = []
        for d in inner:
            if d.get("kind") == "VarDecl":
                init = None
                di = [x for x in d.get("inner", []) or [] if x.get("kind") not in ("FullComment",)]
                if di:
                    init = to_expr(di[0])
                out.append({"k": "decl", "name": d.get("name"), "type": (d.get("type", {}).get("desugaredQualType") if "auto" in (d.get("type", {}).get("qualType") or "") and d.get("type", {}).get("desugaredQualType") else d.get("type", {}).get("qualType")), "init": init, "static": d.get("storageClass") == "static"})
        return out
    if k == "IfStmt":
        parts = [x for x in inner]
        has_else = n.get("hasElse", False)
        cond = to_expr(parts[0])
        then = to_block(parts[1]) if len(parts) > 1 else []
        els = to_block(parts[2]) if has_else and len(parts) > 2 else None
        return [{"k": "if", "cond": cond, "then": then, "else": els}]
    if k == "ForStmt":
        # inner: init, condvar, cond, inc, body (some may be {} placeholders)
        init, _cv, cond, inc, body = (inner + [{}] * 5)[:5]
        return [{"k": "for", "init": to_stmts(init) if init.get("kind") else [], "cond": to_expr(cond) if cond.get("kind") else None,
                 "inc": to_expr(inc) if inc.get("kind") else None, "body": to_block(body) if body.get("kind") else []}]
    if k == "WhileStmt":
        return [{"k": "while", "cond": to_expr(inner[0]), "body": to_block(inner[1]) if len(inner) > 1 else []}]
    if k == "DoStmt":
        return [{"k": "while", "cond": to_expr(inner[1]), "body": to_block(inner[0]), "do": True}]
    if k == "ReturnStmt":
        return [{"k": "return", "e": to_expr(inner[0]) if inner else None}]
    if k == "BreakStmt":
        return [{"k": "break"}]
    if k == "ContinueStmt":
        return [{"k": "continue"}]
    if k == "NullStmt":
        return []
    if k == "SwitchStmt":
        sw = _desugar_switch(n)
        if sw is not None:
            return sw
    if k in ("CXXTryStmt",):
        out = []
        for c in inner:
            if c.get("kind") == "CompoundStmt":
                out.append({"k": "block", "body": to_block(c)})
            elif c.get("kind") == "CXXCatchStmt":
                out.append({"k": "block", "body": to_block((c.get("inner") or [{}])[-1]), "catch": True})
        return out
    return [{"k": "expr", "e": to_expr(n)}]


class CalleeName(str):
    """the callee's name; .sig carries the type of the declaration overload resolution selected (None if unresolved)"""
    sig = None


def _desugar_switch(n):
    """a structured switch (side-effect-free selector, every section closed by `break`/`return` or last, no other `break` that
    targets the switch) as the equivalent if / else-if chain; None when the switch is not of that form"""
    inner = [x for x in (n.get("inner", []) or []) if x.get("kind")]
    if len(inner) < 2 or inner[-1].get("kind") != "CompoundStmt":
        return None
    cond = to_expr(inner[0])
    if any(s_[0] in ("call", "mcall", "assign", "pre", "post", "other", "new", "delete") for s_ in sub_exprs(cond)):
        return None
    sections, cur = [], None          # [(labels | None for default, [stmt nodes])]
    def open_label(node):
        nonlocal cur
        while node.get("kind") in ("CaseStmt", "DefaultStmt"):
            kids = [x for x in (node.get("inner", []) or []) if x.get("kind")]
            if node["kind"] == "CaseStmt":
                lab, sub = to_expr(kids[0]), (kids[1] if len(kids) > 1 else None)
            else:
                lab, sub = None, (kids[0] if kids else None)
            if cur is None or cur[1]:
                cur = ([], [])
                sections.append(cur)
            cur[0].append(lab)
            if sub is None:
                return
            node = sub
        cur[1].append(node)
    for child in inner[-1].get("inner", []) or []:
        if child.get("kind") in ("CaseStmt", "DefaultStmt"):
            open_label(child)
        elif cur is None:
            return None
        else:
            cur[1].append(child)

    def targets_switch_break(stmts):
        for st in stmts:
            if st["k"] == "break":
                return True
            if st["k"] == "if" and (targets_switch_break(st["then"]) or targets_switch_break(st["else"] or [])):
                return True
            if st["k"] == "block" and targets_switch_break(st["body"]):
                return True
        return False

    chain = []
    for i_, (labels, nodes) in enumerate(sections):
        body = []
        for nd in nodes:
            body.extend(to_stmts(nd))
        closed = bool(body) and body[-1]["k"] in ("break", "return")
        if body and body[-1]["k"] == "break":
            body = body[:-1]
        if not closed and i_ != len(sections) - 1:
            return None                 # falls through into the next section
        if targets_switch_break(body):
            return None
        chain.append((labels, body))
    default = next((b for l, b in chain if None in l), None)
    if any(None in l and len(l) > 1 for l, _b in chain):
        return None
    out = default if default is not None else []
    for labels, body in reversed([c for c in chain if None not in c[0]]):
        test = None
        for lab in labels:
            t_ = ("bin", "==", cond, lab)
            test = t_ if test is None else ("bin", "||", test, t_)
        out = [{"k": "if", "cond": test, "then": body, "else": out or None}]
    return out


def _name_of_callee(c):
    c = _strip(c)
    k = c.get("kind")
    if k == "DeclRefExpr":
        nm = c.get("referencedDecl", {}).get("name")
        if nm is None:
            return None
        out = CalleeName(nm)
        out.sig = (c.get("referencedDecl", {}).get("type") or {}).get("qualType")
        return out
    if k == "UnresolvedLookupExpr":
        return c.get("name")
    return None


def _strip(n):
    while n.get("kind") in SKIP and n.get("inner"):
        n = n["inner"][0]
    return n


def to_expr(n):
    n = _strip(n)
    k = n.get("kind")
    inner = n.get("inner", []) or []
    if k == "IntegerLiteral":
        return ("lit", int(n.get("value", "0")))
    if k == "FloatingLiteral":
        return ("lit", float(n.get("value", "0")))
    if k == "CXXBoolLiteralExpr":
        return ("lit", bool(n.get("value")))
    if k == "CharacterLiteral":
        return ("lit", chr(n.get("value", 0)))
    if k == "StringLiteral":
        return ("lit", n.get("value", '""'))
    if k == "CXXNullPtrLiteralExpr":
        return ("lit", None)
    if k == "DeclRefExpr":
        return ("var", n.get("referencedDecl", {}).get("name"))
    if k in ("BinaryOperator",):
        op = n.get("opcode")
        l, r = to_expr(inner[0]), to_expr(inner[1])
        if op == "=":
            return ("assign", "=", l, r)
        return ("bin", op, l, r)
    if k == "CompoundAssignOperator":
        return ("assign", n.get("opcode"), to_expr(inner[0]), to_expr(inner[1]))
    if k == "UnaryOperator":
        op = n.get("opcode")
        e = to_expr(inner[0])
        if op in ("++", "--"):
            return ("post" if n.get("isPostfix") else "pre", op, e)
        return ("un", op, e)
    if k == "ConditionalOperator":
        return ("cond", to_expr(inner[0]), to_expr(inner[1]), to_expr(inner[2]))
    if k == "CallExpr":
        name = _name_of_callee(inner[0])
        if name is None:
            callee = to_expr(inner[0])
            return ("call", callee, [to_expr(a) for a in inner[1:]])
        return ("call", name, [to_expr(a) for a in inner[1:] if a.get("kind") != "CXXDefaultArgExpr"])
    if k == "CXXMemberCallExpr":
        me = _strip(inner[0])
        obj = to_expr(me["inner"][0]) if me.get("inner") else ("other", "this")
        return ("mcall", obj, me.get("name"), [to_expr(a) for a in inner[1:] if a.get("kind") != "CXXDefaultArgExpr"])
    if k == "CXXOperatorCallExpr":
        name = _name_of_callee(inner[0]) or "operator?"
        args = [to_expr(a) for a in inner[1:]]
        op = name.replace("operator", "")
        if op == "=" and len(args) == 2:
            return ("assign", "=", args[0], args[1])
        if op in ("+=", "-=") and len(args) == 2:
            return ("assign", op, args[0], args[1])
        if op == "[]" and len(args) == 2:
            return ("index", args[0], args[1])
        if len(args) == 2:
            return ("bin", op, args[0], args[1])
        return ("call", name, args)
    if k in ("MemberExpr", "CXXDependentScopeMemberExpr"):
        obj = to_expr(inner[0]) if inner else ("other", "this")
        return ("member", obj, n.get("name") or n.get("member"))
    if k == "ArraySubscriptExpr":
        return ("index", to_expr(inner[0]), to_expr(inner[1]))
    if k in ("CXXStaticCastExpr", "CStyleCastExpr", "CXXFunctionalCastExpr", "CXXReinterpretCastExpr", "CXXConstCastExpr"):
        return ("cast", n.get("type", {}).get("qualType"), to_expr(inner[0]) if inner else ("other", "?"))
    if k in ("CXXConstructExpr", "CXXTemporaryObjectExpr"):
        args = [to_expr(a) for a in inner if a.get("kind") != "CXXDefaultArgExpr"]
        if len(args) == 1 and n.get("type", {}).get("qualType") in ("String", "const String"):
            return ("ctor", "String", args)
        return ("ctor", n.get("type", {}).get("qualType"), args)
    if k == "CXXUnresolvedConstructExpr":
        return ("ctor", n.get("type", {}).get("qualType"), [to_expr(a) for a in inner])
    if k == "InitListExpr":
        return ("init", [to_expr(a) for a in inner])
    if k == "CXXNewExpr":
        size = None
        for a in inner:
            if a.get("kind") not in ("InitListExpr", "CXXConstructExpr"):
                size = to_expr(a)
                break
        init = None
        for a in inner:
            if a.get("kind") == "InitListExpr":
                init = to_expr(a)
        return ("new", n.get("type", {}).get("qualType"), size, n.get("isArray", False), init)
    if k == "CXXDeleteExpr":
        return ("delete", to_expr(inner[0]) if inner else None, n.get("isArrayAsWritten", n.get("isArray", False)))
    if k == "UnaryExprOrTypeTraitExpr":
        return ("sizeof", n.get("name"), to_expr(inner[0]) if inner else None, (n.get("argType") or {}).get("qualType"))
    if k == "LambdaExpr":
        return ("other", "lambda")
    if k == "CXXThisExpr":
        return ("var", "this")
    if k == "UnresolvedLookupExpr":
        return ("var", n.get("name"))
    if k == "CXXDefaultArgExpr":
        return ("other", "default")
    if k == "PackExpansionExpr" or k == "SizeOfPackExpr":
        return ("other", k)
    if k == "CXXDependentScopeMemberExpr":
        return ("member", ("other", "?"), n.get("member"))
    return ("other", k)


def show(e) -> str:
    if e is None:
        return ""
    t = e[0]
    if t == "lit":
        return repr(e[1]) if not isinstance(e[1], bool) else ("true" if e[1] else "false")
    if t == "var":
        return str(e[1])
    if t == "call":
        return f"{e[1] if isinstance(e[1], str) else show(e[1])}({', '.join(show(a) for a in e[2])})"
    if t == "mcall":
        return f"{show(e[1])}.{e[2]}({', '.join(show(a) for a in e[3])})"
    if t == "bin":
        return f"({show(e[2])} {e[1]} {show(e[3])})"
    if t == "un":
        return f"{e[1]}{show(e[2])}"
    if t in ("post", "pre"):
        return f"{show(e[2])}{e[1]}" if t == "post" else f"{e[1]}{show(e[2])}"
    if t == "assign":
        return f"{show(e[2])} {e[1]} {show(e[3])}"
    if t == "cond":
        return f"({show(e[1])} ? {show(e[2])} : {show(e[3])})"
    if t == "member":
        return f"{show(e[1])}.{e[2]}"
    if t == "index":
        return f"{show(e[1])}[{show(e[2])}]"
    if t == "cast":
        return f"({e[1]}){show(e[2])}"
    if t == "ctor":
        return f"{e[1]}({', '.join(show(a) for a in e[2])})"
    if t == "new":
        return f"new {e[1]}[{show(e[2])}]"
    if t == "delete":
        return f"delete[] {show(e[1])}"
    if t == "init":
        return "{" + ", ".join(show(a) for a in e[1]) + "}"
    return f"<{e[1] if len(e) > 1 else t}>"


def sub_exprs(e):
    """pre-order traversal of an expression"""
    if not isinstance(e, tuple):
        return
    yield e
    for x in e[1:]:
        if isinstance(x, tuple):
            yield from sub_exprs(x)
        elif isinstance(x, list):
            for y in x:
                yield from sub_exprs(y)


def stmt_exprs(st):
    k = st["k"]
    if k == "decl" and st["init"] is not None:
        yield st["init"]
    elif k == "expr":
        yield st["e"]
    elif k == "return" and st["e"] is not None:
        yield st["e"]
    elif k in ("if", "while") and st["cond"] is not None:
        yield st["cond"]
    elif k == "for":
        if st["cond"] is not None:
            yield st["cond"]
        if st["inc"] is not None:
            yield st["inc"]


def all_stmts(body):
    for st in body:
        yield st
        k = st["k"]
        if k == "if":
            yield from all_stmts(st["then"])
            if st["else"]:
                yield from all_stmts(st["else"])
        elif k == "for":
            yield from all_stmts(st["init"])
            yield from all_stmts(st["body"])
        elif k in ("while", "block"):
            yield from all_stmts(st["body"])


def all_calls(body, name=None):
    for st in all_stmts(body):
        for e in stmt_exprs(st):
            for s in sub_exprs(e):
                if s[0] == "call" and (name is None or s[1] == name):
                    yield s
                elif s[0] == "mcall" and (name is None or s[2] == name):
                    yield s


def callee(s):
    """name of the function/method a call expression invokes (works for dependent calls in templates too)"""
    if s[0] == "mcall":
        return s[2]
    if s[0] == "call":
        if isinstance(s[1], str):
            return s[1]
        if isinstance(s[1], tuple) and s[1][0] == "member":
            return s[1][2]
        if isinstance(s[1], tuple) and s[1][0] == "var":
            return s[1][1]
    return None


def receiver(s):
    if s[0] == "mcall":
        return s[1]
    if s[0] == "call" and isinstance(s[1], tuple) and s[1][0] == "member":
        return s[1][1]
    return None


def call_args(s):
    return s[3] if s[0] == "mcall" else s[2]


def to_py(e) -> str:
    """arithmetic mini-IR expression as Python source (casts dropped, float suffixes gone): input of the rational-function
    normaliser, which compares formulas as real-valued maps"""
    t = e[0]
    if t == "lit" and isinstance(e[1], (int, float)) and not isinstance(e[1], bool):
        return repr(e[1])
    if t == "var":
        return str(e[1])
    if t == "cast":
        return to_py(e[2])
    if t == "ctor" and len(e[2]) == 1:
        return to_py(e[2][0])
    if t == "un" and e[1] in ("-", "+"):
        return f"({e[1]}{to_py(e[2])})"
    if t == "bin" and e[1] in ("+", "-", "*", "/"):
        return f"({to_py(e[2])} {e[1]} {to_py(e[3])})"
    raise ValueError(f"not arithmetic: {show(e)}")


def _must_expr(e):
    out = set()
    if e is None or not isinstance(e, tuple):
        return out
    t = e[0]
    if t == "cond":
        return _must_expr(e[1]) | (_must_expr(e[2]) & _must_expr(e[3]))
    if t == "bin" and e[1] in ("&&", "||"):
        return _must_expr(e[2])   # the right operand is evaluated conditionally
    if t in ("call", "mcall"):
        nm = callee(e)
        args = e[2] if t == "call" else e[3]
        out.add(f"{nm}({show(args[0]) if args else ''})")
        for a in args:
            out |= _must_expr(a)
        return out
    for c in e[1:]:
        if isinstance(c, tuple):
            out |= _must_expr(c)
        elif isinstance(c, list):
            for x in c:
                if isinstance(x, tuple):
                    out |= _must_expr(x)
    return out


def must_calls(body):
    """calls `name(first-argument)` executed on *every* path through ``body`` that reaches its end (loops may run zero
    times and contribute nothing; an if contributes what both arms share)"""
    out = set()
    for st in body:
        k = st["k"]
        if k == "block":
            out |= must_calls(st["body"])
        elif k == "if":
            out |= _must_expr(st["cond"])
            out |= must_calls(st["then"]) & must_calls(st["else"] or [])
        elif k in ("for", "while"):
            if k == "for":
                out |= must_calls(st["init"])
            if not st.get("do"):
                out |= _must_expr(st["cond"])
            else:
                out |= must_calls(st["body"])
        elif k in ("return", "break", "continue"):
            for e in stmt_exprs(st):
                out |= _must_expr(e)
            break
        else:
            for e in stmt_exprs(st):
                out |= _must_expr(e)
    return out

"""C++ scoping of the statement IR of one parsed script: every declaration and use is placed in the block structure the
emitter will produce (globals, setup(), loop(), each function, each nested block) and checked the way a C++ compiler and
Python's module-variable semantics demand:
  * no name is declared twice in one block;
  * a local declaration in setup()/loop() never shadows a global or an enclosing block's variable of the script (the Python
    assignment updates that variable; the shadow would lose the value at the end of the block);
  * every assignment target and every script variable read in an expression is declared in an enclosing scope."""
from __future__ import annotations

import ast
import re
from typing import List, Set

BLOCK_FIELDS = ("body", "else_body", "try_body")
NAME_FIELDS = {"name", "c_type", "var_name", "exception", "target", "return_type"}


def script_names(src: str) -> Set[str]:
    out = set()
    for n in ast.walk(ast.parse(src)):
        if isinstance(n, ast.Name) and isinstance(n.ctx, ast.Store):
            out.add(n.id)
        elif isinstance(n, ast.arg):
            out.add(n.arg)
    return out


def _exprs(node):
    for k, v in vars(node).items():
        if k.startswith("__dl_") or k in NAME_FIELDS:
            continue
        if isinstance(v, str):
            yield v


def check(prog, src: str) -> List[str]:
    names = script_names(src)
    glob = {d.name for d in prog.global_decls}
    fnames = {f.name for f in prog.functions}
    viol: List[str] = []
    seen_g: Set[str] = set()
    for d in prog.global_decls:
        if d.name in seen_g:
            viol.append(f"file scope: `{d.name}` is defined twice")
        seen_g.add(d.name)

    def reads(text, chain, where):
        for nm in set(re.findall(r"[A-Za-z_]\w*", re.sub(r'"(?:[^"\\]|\\.)*"', '""', text))):
            if nm in names and nm not in fnames and not any(nm in s for s in chain):
                viol.append(f"{where}: `{text[:60]}` reads `{nm}`, which is not declared in any enclosing scope")

    def block(nodes, chain, where, in_function):
        here: Set[str] = set()
        chain = chain + [here]
        for n in nodes:
            cn = type(n).__name__
            for t in _exprs(n):
                reads(t, chain, where)
            if cn == "VarDecl":
                if n.name in here:
                    viol.append(f"{where}: `{n.name}` is declared twice in one block")
                elif any(n.name in s for s in chain[(1 if in_function else 0):-1]):
                    viol.append(f"{where}: the declaration of `{n.name}` shadows the variable of the same name in an enclosing scope (the value assigned here is lost at the end of the block)")
                here.add(n.name)
            elif cn == "VarAssign":
                if not any(n.name in s for s in chain):
                    viol.append(f"{where}: `{n.name}` is assigned but declared in no enclosing scope")
            elif cn == "IfStatement":
                for br in n.branches:
                    reads(str(br.condition), chain, where)
                    block(list(br.body), chain, where, in_function)
                block(list(n.else_body or []), chain, where, in_function)
            elif cn == "WhileLoop":
                block(list(n.body), chain, where, in_function)
            elif cn == "ForRangeLoop":
                inner = {n.var_name}
                block(list(n.body), chain + [inner], where, in_function)
            elif cn == "TryStatement":
                block(list(n.try_body), chain, where, in_function)
                for h in n.handlers:
                    block(list(h.body), chain + [({h.target} if getattr(h, "target", None) else set())], where, in_function)

    block(list(prog.setup_body), [glob], "setup()", False)
    block(list(prog.loop_body), [glob], "loop()", False)
    for f in prog.functions:
        sig = ", ".join(t for _n, t in f.params)
        block(list(f.body), [glob, {n for n, _t in f.params}], f"{f.name}({sig})", True)
    return viol

"""E8 - findings, known-findings file, evidence and the check runner.

Nothing here looks at the repository; the rule modules do.  A rule module exposes
``run(cx)`` where ``cx`` is a :class:`Check`.  Rules record *obligations* (one per
rule instance found in the source) and *findings* (an obligation that does not hold).
"""
from __future__ import annotations

import hashlib
import json
import os
import sys
import time
import traceback
from dataclasses import dataclass, field
from typing import Any, Dict, List, Optional

VERIF = os.path.dirname(os.path.dirname(os.path.abspath(__file__)))
REPO = os.environ.get("VERIF_REPO", "/repo")
KNOWN_FILE = os.path.join(VERIF, "known_findings.json")
EVIDENCE_DIR = os.environ.get("VERIF_EVIDENCE_DIR", os.path.join(VERIF, "evidence"))
REPLAY_DIR = os.environ.get("VERIF_REPLAY_DIR", os.path.join(VERIF, "replay"))
EXTRA_EVIDENCE = {}


class AnalysisError(Exception):
    """The checker can no longer see what it needs (anchor vanished, idiom changed,
    tool missing, instance count below the confirmed floor).  Exit status 2."""


@dataclass
class Finding:
    prop: str
    rule: str
    key: str            # semantic construct key, never a line number
    file: str
    line: int
    msg: str
    detail: Any = None
    construct: Optional[str] = None     # normalised text of the offending statement: lets a known finding follow code that is moved between functions

    def ident(self):
        return (self.prop, self.rule, self.key)


@dataclass
class RuleStat:
    rid: str
    text: str
    obligations: int = 0
    failed: int = 0
    samples: List[str] = field(default_factory=list)
    floor: int = 0
    exhaustive: bool = False
    keys: set = field(default_factory=set)


class Rule:
    """Handle used by rule code: ``r.ok(sample)`` / ``r.fail(key, where, msg)``."""

    def __init__(self, cx: "Check", stat: RuleStat):
        self.cx = cx
        self.stat = stat

    def ok(self, sample: Optional[str] = None, n: int = 1):
        self.stat.obligations += n
        if sample is not None:
            self.stat.keys.add(sample)
            if len(self.stat.samples) < 6:
                self.stat.samples.append(sample)

    def fail(self, key: str, where, msg: str, detail: Any = None, construct: Optional[str] = None):
        """``where`` is (relpath, line) or (Mod, ast node)."""
        self.stat.obligations += 1
        self.stat.failed += 1
        f, ln = _where(where)
        self.cx.findings.append(
            Finding(self.cx.prop, self.stat.rid, key, f, ln, msg, detail, construct)
        )

    def check(self, cond: bool, key: str, where, msg: str, sample: Optional[str] = None, detail=None, construct: Optional[str] = None):
        if cond:
            self.ok(sample if sample is not None else key)
        else:
            self.fail(key, where, msg, detail, construct)
        return cond


def _where(where):
    if where is None:
        return ("?", 0)
    a, b = where
    if isinstance(a, str):
        return (a, int(b or 0))
    rel = getattr(a, "rel", "?")
    ln = getattr(b, "lineno", 0) if not isinstance(b, int) else b
    return (rel, int(ln or 0))


class Check:
    def __init__(self, prop: str, tier: str):
        self.prop = prop
        self.tier = tier
        self.findings: List[Finding] = []
        self.rules: Dict[str, RuleStat] = {}
        self.files: Dict[str, str] = {}
        self.notes: List[str] = []
        self.assumptions: List[str] = []
        self.explanation = ""
        self.extra: Dict[str, Any] = {}

    def rule(self, rid: str, text: str, floor: int = 0, exhaustive: bool = False) -> Rule:
        st = self.rules.get(rid)
        if st is None:
            st = RuleStat(rid, text, floor=floor, exhaustive=exhaustive)
            self.rules[rid] = st
        return Rule(self, st)

    def consulted(self, mod):
        self.files[mod.rel] = mod.sha

    def note(self, s: str):
        self.notes.append(s)


def load_known() -> List[dict]:
    if not os.path.exists(KNOWN_FILE):
        return []
    with open(KNOWN_FILE) as fh:
        data = json.load(fh)
    return data.get("findings", [])


def run_check(prop: str, fn, tier: str, replay: Optional[str] = None) -> int:
    t0 = time.time()
    seed = int(os.environ.get("VERIF_SEED", "0") or 0)
    cx = Check(prop, tier)
    status = 0
    err = None
    try:
        fn(cx)
        # vacuity floors
        for st in cx.rules.values():
            if st.obligations < st.floor:
                raise AnalysisError(
                    f"rule {st.rid}: only {st.obligations} instance(s) found, "
                    f"confirmed floor is {st.floor} - the rule no longer sees its subjects"
                )
    except AnalysisError as e:
        err = f"ANALYSIS-ERROR property={prop} {e}"
        status = 2
    except Exception as e:  # tracebacks must not look like violations
        tb = traceback.format_exc()
        err = f"ANALYSIS-ERROR property={prop} internal error: {e!r}\n{tb}"
        status = 2

    known = [k for k in load_known() if k.get("property") == prop]
    known_open = {(k["rule"], k["key"]): k for k in known if k.get("status") == "known"}
    matched, unknown = [], []
    seen = set()
    pending = []
    used = set()
    for f in cx.findings:
        if f.ident() in seen:
            continue
        seen.add(f.ident())
        k = known_open.get((f.rule, f.key))
        if k is not None:
            matched.append((f, k))
            used.add((k["rule"], k["key"]))
        else:
            pending.append(f)
    # a listed finding follows its statement when the code is moved to another function: same rule, same construct part of
    # the key (after the function name), same normalised statement text; each listed entry answers for one site only
    for f in pending:
        k = None
        if f.construct is not None and "/" in f.key:
            for kk in known:
                if kk.get("status") == "known" and kk["rule"] == f.rule and (kk["rule"], kk["key"]) not in used and kk.get("construct") == f.construct and "/" in kk["key"] and kk["key"].split("/", 1)[1] == f.key.split("/", 1)[1]:
                    k = kk
                    break
        if k is not None:
            used.add((k["rule"], k["key"]))
            matched.append((f, k))
        else:
            unknown.append(f)

    for f, k in matched:
        print(f"KNOWN-FINDING: property={prop} rule={f.rule} key={f.key} at {f.file}:{f.line} - {k.get('what', f.msg)}")

    replay_path = None
    if unknown:
        status = 1  # a located violation outranks an analysis error raised later in the same run
    if unknown:
        os.makedirs(REPLAY_DIR, exist_ok=True)
        replay_path = os.path.join(REPLAY_DIR, f"{prop}.json")
        with open(replay_path, "w") as fh:
            json.dump(
                {
                    "property": prop,
                    "tier": tier,
                    "command": f"cd /verif && ./check {prop} --tier {tier}",
                    "violations": [
                        {
                            "rule": f.rule,
                            "rule_text": cx.rules[f.rule].text if f.rule in cx.rules else "",
                            "key": f.key,
                            "file": f.file,
                            "line": f.line,
                            "message": f.msg,
                            "detail": f.detail,
                        }
                        for f in unknown
                    ],
                },
                fh,
                indent=1,
                default=str,
            )
        for f in unknown:
            print(f"  finding rule={f.rule} key={f.key} at {f.file}:{f.line}: {f.msg}")
            print(f"VIOLATION property={prop} replay={replay_path}")
    if err:
        print(err)

    wall = time.time() - t0
    write_evidence(cx, tier, seed, wall, matched, unknown, err)
    obl = sum(s.obligations for s in cx.rules.values())
    print(
        f"[{prop}] tier={tier} rules={len(cx.rules)} obligations={obl} "
        f"violations={len(unknown)} known={len(matched)} status={status} wall={wall:.2f}s"
    )
    return status


def _all_files(cx):
    """files named by the rules plus every module the run loaded (sa.src cache)"""
    out = dict(cx.files)
    try:
        from . import src as _src
        for rel, m in _src._CACHE.items():
            out.setdefault(rel, getattr(m, "sha", ""))
    except Exception:
        pass
    # rules that evaluate parse()/emit() in worker processes read the transpiler whether or not this process loaded it
    if any(k.endswith(("transpile/parser.py", "transpile/emitter.py")) for k in out):
        for rel in ("src/Reduino/transpile/parser.py", "src/Reduino/transpile/emitter.py", "src/Reduino/transpile/ast.py"):
            out.setdefault(rel, "")
    return out


def write_evidence(cx: Check, tier, seed, wall, matched, unknown, err):
    rules = []
    samples = []
    total = disc = 0
    distinct = set()
    for st in cx.rules.values():
        total += st.obligations
        disc += st.obligations - st.failed
        for k in st.keys:
            distinct.add((st.rid, k))
        rules.append(
            {
                "rule": st.rid,
                "text": st.text,
                "obligations": st.obligations,
                "discharged": st.obligations - st.failed,
                "floor": st.floor,
                "exhaustive": st.exhaustive,
                "samples": st.samples,
            }
        )
        for s in st.samples[:2]:
            samples.append({"rule": st.rid, "instance": s})
    ev = {
        "property_id": cx.prop,
        "tier": tier if tier in ("quick", "thorough") else "quick",
        "seed": seed,
        "level": "other",
        "coverage": {
            "explanation": cx.explanation
            or "static analysis of /repo's working tree; see rules for the clauses decided",
            "obligations": total,
            "discharged": disc,
            "evaluations": max(total, 1),
            "distinct_nontrivial": max(len(distinct), 0),
            "rule": "one obligation per rule instance found in the parsed source (call site, table row, "
            "template path, store site, call shape); distinct = distinct (rule, construct) pairs",
            "samples": samples or [{"rule": "-", "instance": "no instance"}],
            "rules": rules,
            "exhaustive": all(r["exhaustive"] for r in rules) if rules else False,
            "files": _all_files(cx),
            "known_findings_matched": [
                {"rule": f.rule, "key": f.key, "file": f.file, "line": f.line} for f, _ in matched
            ],
            "new_violations": [
                {"rule": f.rule, "key": f.key, "file": f.file, "line": f.line, "msg": f.msg}
                for f in unknown
            ],
            "notes": cx.notes,
            "checker_cmd": f"cd /verif && ./check {cx.prop} --tier {tier}",
            "trusted_base": ["CPython ast module", "clang 14 front end (where used)", "the rule tables in /verif/sa/rules"],
            **cx.extra,
            **EXTRA_EVIDENCE,
        },
        "assumptions": cx.assumptions
        + ["decides the structural clauses named in the rules, not the run-time behaviour itself"],
        "wall_s": round(wall, 3),
        "violations": len(unknown),
    }
    if err:
        ev["coverage"]["analysis_error"] = err.splitlines()[0]
    os.makedirs(EVIDENCE_DIR, exist_ok=True)
    with open(os.path.join(EVIDENCE_DIR, f"{cx.prop}.json"), "w") as fh:
        json.dump(ev, fh, indent=1, default=str)


def sha(text: str) -> str:
    return hashlib.sha256(text.encode("utf-8")).hexdigest()[:16]


def workers(default: int) -> int:
    """size of a process/thread pool inside a check: `default` capped by the machine and by VERIF_POOL (the self-test runs many
    checks side by side and tells each one to stay small)"""
    cap = os.environ.get("VERIF_POOL")
    n = min(default, os.cpu_count() or 2)
    if cap and cap.isdigit():
        n = min(n, max(1, int(cap)))
    return max(1, n)

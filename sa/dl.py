"""Decision-list evaluator (design §1.2): evaluates small *pure* repository functions on the
syntax tree over finite abstract domains (table keys, type labels, order regions around the
constants a function compares with).  It is this module that interprets the tree; no repository
code object is ever created or called.  Anything outside the recognised subset raises
:class:`Unsupported`, which callers turn into ANALYSIS-ERROR (the idiom changed), never a pass.
"""
from __future__ import annotations

import ast
import collections
import functools
import itertools
import operator
from typing import Any, Dict, List, Optional

from . import lit


class Unsupported(Exception):
    pass


class Raised(Exception):
    def __init__(self, exc_type: str, msg: str = "", node=None, attrs=None):
        self.exc_type = exc_type
        self.msg = msg
        self.node = node
        self.attrs = dict(attrs or {})      # what `except E as exc: exc.<name>` may read (returncode, errno ...)
        super().__init__(f"{exc_type}: {msg}")


class _Return(Exception):
    def __init__(self, value):
        self.value = value


class _Break(Exception):
    pass


class _Continue(Exception):
    pass


class Outcome:
    def __init__(self, kind, value=None, node=None):
        self.kind = kind  # "return" | "raise"
        self.value = value
        self.node = node

    def __repr__(self):
        return f"{self.kind}:{self.value!r}"

    def __eq__(self, o):
        return isinstance(o, Outcome) and (self.kind, self.value) == (o.kind, o.value)


_CMP = {
    ast.Eq: operator.eq, ast.NotEq: operator.ne, ast.Lt: operator.lt, ast.LtE: operator.le,
    ast.Gt: operator.gt, ast.GtE: operator.ge, ast.Is: operator.is_, ast.IsNot: operator.is_not,
    ast.In: lambda a, b: a in b, ast.NotIn: lambda a, b: a not in b,
}
_BIN = {
    ast.Add: operator.add, ast.Sub: operator.sub, ast.Mult: operator.mul, ast.Div: operator.truediv,
    ast.FloorDiv: operator.floordiv, ast.Mod: operator.mod, ast.Pow: operator.pow,
    ast.BitAnd: operator.and_, ast.BitOr: operator.or_, ast.BitXor: operator.xor,
    ast.LShift: operator.lshift, ast.RShift: operator.rshift,
}
_TYPES = {"int": int, "float": float, "str": str, "bool": bool, "list": list, "tuple": tuple,
          "dict": dict, "set": set, "frozenset": frozenset, "bytes": bytes, "bytearray": bytearray}
_EXC = {"ValueError": ValueError, "TypeError": TypeError, "KeyError": KeyError,
        "ZeroDivisionError": ZeroDivisionError, "OverflowError": OverflowError, "IndexError": IndexError,
        "AttributeError": AttributeError, "Exception": Exception, "SyntaxError": SyntaxError, "IndentationError": IndentationError,
        "TabError": TabError, "RecursionError": RecursionError, "RuntimeError": RuntimeError, "MemoryError": MemoryError,
        "LookupError": LookupError, "ArithmeticError": ArithmeticError, "UnicodeError": UnicodeError,
        "UnicodeDecodeError": UnicodeDecodeError, "UnicodeEncodeError": UnicodeEncodeError, "StopIteration": StopIteration,
        "NotImplementedError": NotImplementedError, "AssertionError": AssertionError, "OSError": OSError, "NameError": NameError}
_STR_METHODS = {"isdigit", "strip", "lstrip", "rstrip", "lower", "upper", "startswith", "endswith",
                "replace", "join", "split", "ljust", "rjust", "format", "capitalize", "isalpha",
                "isidentifier", "count", "find", "title", "casefold", "swapcase", "zfill", "partition", "rpartition",
                "rsplit", "center", "expandtabs", "removeprefix", "removesuffix", "isupper", "islower", "isspace",
                "isalnum", "isnumeric", "isdecimal", "splitlines", "rfind", "index", "encode", "translate"}


def _pure_stdlib():
    """pure functions of the standard library that evaluated code may call on data"""
    import collections
    import functools
    import itertools
    import math
    import operator
    import re as _re
    t = {}
    for n in ("groupby", "chain", "product", "islice", "zip_longest", "accumulate", "permutations", "combinations", "takewhile", "dropwhile", "starmap", "tee", "pairwise"):
        if hasattr(itertools, n):
            t[("itertools", n)] = getattr(itertools, n)
    t[("functools", "reduce")] = functools.reduce
    t[("functools", "partial")] = functools.partial
    t[("collections", "defaultdict")] = collections.defaultdict
    import textwrap as _tw
    t[("textwrap", "dedent")] = _tw.dedent
    t[("textwrap", "indent")] = _tw.indent
    for n in dir(operator):
        if not n.startswith("_"):
            t[("operator", n)] = getattr(operator, n)
    for n in ("floor", "ceil", "trunc", "sqrt", "fabs", "isfinite", "isnan", "isinf", "copysign", "gcd", "log2", "log10", "pow", "fmod", "isclose", "log", "exp", "hypot", "degrees", "radians", "modf", "frexp", "ldexp", "fsum", "lcm", "isqrt", "comb", "sin", "cos", "tan", "atan", "atan2"):
        if hasattr(math, n):
            t[("math", n)] = getattr(math, n)
    t[("collections", "OrderedDict")] = collections.OrderedDict
    # the syntax-tree library: pure functions over trees (generators are materialised by _stdlib)
    for n in ("parse", "unparse", "walk", "iter_child_nodes", "iter_fields", "literal_eval", "dump", "get_source_segment", "fix_missing_locations", "copy_location", "get_docstring"):
        t[("ast", n)] = getattr(ast, n)
    for n in ("sub", "subn", "match", "fullmatch", "search", "findall", "split", "escape"):
        t[("re", n)] = getattr(_re, n)

    def _compile(pattern, flags=0):
        _re.compile(pattern, flags if isinstance(flags, int) else 0)      # a malformed pattern raises as at import
        names = [n_ for n_ in ("IGNORECASE", "MULTILINE", "DOTALL", "VERBOSE", "ASCII") if isinstance(flags, int) and flags & getattr(_re, n_)]
        return lit.Regex(pattern, " | ".join(f"re.{n_}" for n_ in names))
    t[("re", "compile")] = _compile
    for n in ("IGNORECASE", "MULTILINE", "DOTALL", "VERBOSE", "ASCII", "I", "M", "S", "X", "A"):
        t[("re", n)] = int(getattr(_re, n))
    return t


_PURE_STDLIB = _pure_stdlib()
_PURE_BUILTINS = {"len": len, "abs": abs, "max": max, "min": min, "round": round, "sorted": sorted,
                  "any": any, "all": all, "sum": sum, "range": range, "enumerate": enumerate, "zip": zip,
                  "list": list, "tuple": tuple, "set": set, "frozenset": frozenset, "dict": dict,
                  "int": int, "float": float, "str": str, "bool": bool, "repr": repr, "reversed": reversed,
                  "type": type, "hasattr": None, "id": id, "format": format, "divmod": divmod, "ord": ord, "chr": chr, "callable": callable, "object": object, "iter": iter, "bytes": bytes, "pow": pow, "bin": bin, "hex": hex, "oct": oct}


def _pure_callables():
    out = set()
    for v in list(_PURE_STDLIB.values()) + [v for v in _PURE_BUILTINS.values() if v is not None]:
        try:
            out.add(v)
        except TypeError:
            pass
    return out


_PURE_CALLABLES = _pure_callables()


class Synth:
    """base of objects fabricated by the checker to stand for repository dataclass instances"""


class Env(dict):
    """local scope with a lexical parent (closures) and nonlocal forwarding"""

    def __init__(self, parent=None):
        super().__init__()
        self.parent = parent
        self.nonlocals = set()

    def __contains__(self, k):
        return dict.__contains__(self, k) or (self.parent is not None and k in self.parent)

    def __getitem__(self, k):
        if dict.__contains__(self, k):
            return dict.__getitem__(self, k)
        if self.parent is not None:
            return self.parent[k]
        raise KeyError(k)

    def get(self, k, d=None):
        return self[k] if k in self else d

    def __setitem__(self, k, v):
        if k in self.nonlocals and self.parent is not None:
            self.parent[k] = v
        else:
            dict.__setitem__(self, k, v)


def _walk_own(fn):
    """nodes of a function body without entering nested functions/lambdas/classes"""
    todo = [st for st in fn.body if not isinstance(st, (ast.FunctionDef, ast.AsyncFunctionDef, ast.ClassDef))]
    while todo:
        n = todo.pop()
        yield n
        for c in ast.iter_child_nodes(n):
            if not isinstance(c, (ast.FunctionDef, ast.AsyncFunctionDef, ast.Lambda, ast.ClassDef)):
                todo.append(c)


class Closure:
    def __init__(self, fn, env):
        self.fn = fn
        self.env = env


class BoundMethod:
    """`obj.method` of a host object as a value (`getattr(self, name)(state)`, a method kept in a local)"""
    def __init__(self, fn, obj, static=False):
        self.fn, self.obj, self.static = fn, obj, static


_UNDECORATED = {}


def _undecorated(fn):
    k = id(fn)
    if k not in _UNDECORATED:
        import copy
        g = copy.copy(fn)
        g.decorator_list = []
        _UNDECORATED[k] = (fn, g)
    return _UNDECORATED[k][1]


def _copy_containers(v, depth=0):
    """a copy of the dict/list/set structure of v (leaves are shared): a module-level table as a fresh import builds it"""
    if depth > 6:
        return v
    if type(v) is dict:
        return {k: _copy_containers(x, depth + 1) for k, x in v.items()}
    if type(v) is list:
        return [_copy_containers(x, depth + 1) for x in v]
    if type(v) is set:
        return set(v)
    return v


class Interp:
    def __init__(self, mod, extra_env: Optional[dict] = None, max_steps: int = 200000, opaque: Optional[dict] = None, module_state: Optional[dict] = None, share_consts: bool = False):
        self.mod = mod
        # share_consts: module-level tables are objects of the simulated process (kept in module_state): what one call leaves
        # in them - through any alias - is there for the next Interp of the same history.  Off: every access gets a fresh copy
        self.share_consts = share_consts
        self.extra = extra_env or {}
        # module-level names re-bound through `global` statements: the caller passes one dict per scenario so that
        # successive calls (separate Interp objects) see what earlier calls of the same history stored
        self.module_state = module_state if module_state is not None else {}
        self.steps = 0
        self.max_steps = max_steps
        self.depth = 0
        self.opaque = opaque or {}  # name -> python callable modelling an *external* pure function
        self.cov = set()            # (lineno, col, truth) of every If/IfExp/While test evaluated

    _SYNTH = {}

    def _synth_class(self, name):
        """a stand-in for a module-level class whose bases are builtins (marker subclasses such as _ExprStr(str))"""
        key = (self.mod.rel, name)
        if key not in Interp._SYNTH:
            c = self.mod.classes[name]
            bases = tuple(_TYPES.get(lit_name(b), object) for b in c.bases) or (object,)
            is_dc0 = any((isinstance(d_, ast.Name) and d_.id == "dataclass") or (isinstance(d_, ast.Attribute) and d_.attr == "dataclass") or (isinstance(d_, ast.Call) and lit_name(d_.func) in ("dataclass", "dataclasses.dataclass")) for d_ in c.decorator_list)
            if any(isinstance(st, ast.FunctionDef) for st in c.body) and not (is_dc0 and bases == (object,) and len(c.decorator_list) == 1 and not c.keywords):
                # a plain class with methods: instances are checker-side records whose methods are the class's functions of
                # this module; the class body's attributes are evaluated once (as at import) and shared by every instance
                # and every later evaluation in this process - exactly the sharing Python gives them
                if bases != (object,) or c.decorator_list or c.keywords:
                    raise Unsupported(f"class {name} has methods and bases/decorators")
                attrs = {"__dl_class__": name, "__dl_plain__": True}
                for st in c.body:
                    if isinstance(st, ast.Assign) and len(st.targets) == 1 and isinstance(st.targets[0], ast.Name):
                        attrs[st.targets[0].id] = self.expr(st.value, Env(None))
                    elif isinstance(st, ast.AnnAssign) and isinstance(st.target, ast.Name) and st.value is not None:
                        attrs[st.target.id] = self.expr(st.value, Env(None))
                    elif isinstance(st, (ast.FunctionDef, ast.Pass, ast.AnnAssign)) or (isinstance(st, ast.Expr) and isinstance(st.value, ast.Constant)):
                        continue
                    else:
                        raise Unsupported(f"class {name}: body statement {type(st).__name__}")
                Interp._SYNTH[key] = type(name, (Synth,), attrs)
                return Interp._SYNTH[key]
            if any(lit_name(b_) in ("NamedTuple", "typing.NamedTuple") for b_ in c.bases):
                import collections as _coll
                names_, defaults_ = [], []
                for st in c.body:
                    if isinstance(st, ast.AnnAssign) and isinstance(st.target, ast.Name):
                        names_.append(st.target.id)
                        if st.value is not None:
                            defaults_.append(self.expr(st.value, Env(None)))
                        elif defaults_:
                            raise Unsupported(f"NamedTuple {name}: field without default after one with")
                    elif isinstance(st, ast.FunctionDef):
                        raise Unsupported(f"NamedTuple {name} has methods")
                Interp._SYNTH[key] = _coll.namedtuple(name, names_, defaults=defaults_ or None)
                return Interp._SYNTH[key]
            is_dc = any((isinstance(d_, ast.Name) and d_.id == "dataclass") or (isinstance(d_, ast.Attribute) and d_.attr == "dataclass") or (isinstance(d_, ast.Call) and lit_name(d_.func) in ("dataclass", "dataclasses.dataclass")) for d_ in c.decorator_list)
            if is_dc and bases == (object,):
                # a plain record: fields in declaration order, constant defaults / list-dict-set factories
                fl = []
                for st in c.body:
                    if isinstance(st, ast.AnnAssign) and isinstance(st.target, ast.Name):
                        if st.value is None:
                            fl.append((st.target.id, ("required", None)))
                        elif isinstance(st.value, ast.Call) and lit_name(st.value.func) in ("field", "dataclasses.field"):
                            fac = next((lit_name(k_.value) for k_ in st.value.keywords if k_.arg == "default_factory"), None)
                            dfl = next((k_.value for k_ in st.value.keywords if k_.arg == "default"), None)
                            fl.append((st.target.id, ("factory", fac) if fac else ("const", self.expr(dfl, Env(None)) if dfl is not None else None)))
                        else:
                            fl.append((st.target.id, ("const", self.expr(st.value, Env(None)))))

                def __init__(obj, *args, _fl=fl, _name=name, **kw):
                    names = [f_[0] for f_ in _fl]
                    if len(args) > len(names):
                        raise TypeError(_name)
                    for n_, a_ in zip(names, args):
                        setattr(obj, n_, a_)
                    for k_, v_ in kw.items():
                        if k_ not in names or hasattr(obj, k_) and k_ in names[:len(args)]:
                            raise TypeError(k_)
                        setattr(obj, k_, v_)
                    for n_, d_ in _fl:
                        if not hasattr(obj, n_):
                            if d_[0] == "required":
                                raise TypeError(n_)
                            setattr(obj, n_, {"list": list, "set": set, "dict": dict}.get(d_[1], list)() if d_[0] == "factory" else d_[1])
                extra_ = {"__dl_class__": name, "__dl_plain__": True} if any(isinstance(st, ast.FunctionDef) for st in c.body) else {}
                Interp._SYNTH[key] = type(name, (Synth,), {"__init__": __init__, "__dl_record__": True, "__repr__": lambda o_, _fl=fl, _n=name: f"{_n}({', '.join(f'{f_[0]}={getattr(o_, f_[0], None)!r}' for f_ in _fl)})", **extra_})
                return Interp._SYNTH[key]
            Interp._SYNTH[key] = type(name, bases, {})
        return Interp._SYNTH[key]

    # -- public ------------------------------------------------------------------------------
    def call(self, fn: ast.FunctionDef, args: List[Any], kwargs: Optional[Dict[str, Any]] = None) -> Outcome:
        try:
            return Outcome("return", self._call(fn, args, kwargs or {}))
        except Raised as r:
            return Outcome("raise", r.exc_type, r.node)

    # -- machinery ---------------------------------------------------------------------------
    def _tick(self):
        self.steps += 1
        if self.steps > self.max_steps:
            raise Unsupported("step budget exhausted (unbounded loop?)")

    def _call(self, fn, args, kwargs, parent_env=None):
        self.depth += 1
        if self.depth > 60:
            raise Unsupported("recursion too deep")
        try:
            if getattr(fn, "decorator_list", None) and parent_env is None:
                memo_key = self._memo_key(fn, args, kwargs)
                if memo_key is not None:
                    memo = self.module_state.setdefault(("__memo__", self.mod.rel, fn.name, fn.lineno), {})
                    if memo_key in memo:
                        return memo[memo_key]
                    fn_plain = _undecorated(fn)
                    memo[memo_key] = out_ = self._call(fn_plain, args, kwargs, parent_env)
                    return out_
            bound = self._bind(fn, args, kwargs)
            env = Env(parent_env)
            for k, v in bound.items():
                dict.__setitem__(env, k, v)
            is_gen = getattr(fn, "_dl_is_gen", None)
            if is_gen is None:
                is_gen = any(isinstance(x, (ast.Yield, ast.YieldFrom)) for x in _walk_own(fn))
                try:
                    fn._dl_is_gen = is_gen
                except AttributeError:
                    pass
            if is_gen:
                # a generator function: the body is run to completion and the values it yields are handed back as a
                # one-shot iterator (a second pass over it sees nothing, as with the real generator)
                self._yields = getattr(self, "_yields", [])
                self._yields.append([])
                try:
                    try:
                        self._block(fn.body, env)
                    except _Return:
                        pass
                    return iter(self._yields[-1])
                finally:
                    self._yields.pop()
            try:
                self._block(fn.body, env)
            except _Return as r:
                return r.value
            return None
        finally:
            self.depth -= 1

    def _memo_key(self, fn, args, kwargs):
        """hashable key of a call of a function decorated with functools.lru_cache / functools.cache (None: not memoised)"""
        for d in fn.decorator_list:
            dn = lit_name(d.func if isinstance(d, ast.Call) else d) or ""
            if dn.split(".")[-1] in ("lru_cache", "cache"):
                try:
                    key = (tuple(args), tuple(sorted((kwargs or {}).items())))
                    hash(key)
                    return key
                except TypeError:
                    raise Raised("TypeError", "unhashable argument of a memoised function")
        return None

    def _bind(self, fn, args, kwargs):
        a = fn.args
        pos = list(a.posonlyargs) + list(a.args)
        env = {}
        if len(args) > len(pos):
            if not a.vararg:
                raise Raised("TypeError", "too many positional")
        if a.vararg:
            env[a.vararg.arg] = tuple(args[len(pos):])
        for p, v in zip(pos, args):
            env[p.arg] = v
        known = {p.arg for p in pos} | {p.arg for p in a.kwonlyargs}
        extra_kw = {}
        for k, v in kwargs.items():
            if k in env:
                raise Raised("TypeError", "duplicate")
            if k not in known:
                if not a.kwarg:
                    raise Raised("TypeError", f"unexpected keyword {k}")
                extra_kw[k] = v
                continue
            env[k] = v
        if a.kwarg:
            env[a.kwarg.arg] = extra_kw
        nd = len(a.defaults)
        for i, p in enumerate(pos):
            if p.arg not in env:
                j = i - (len(pos) - nd)
                if j < 0:
                    raise Raised("TypeError", f"missing {p.arg}")
                env[p.arg] = self.expr(a.defaults[j], {})
        for p, d in zip(a.kwonlyargs, a.kw_defaults):
            if p.arg not in env:
                if d is None:
                    raise Raised("TypeError", f"missing {p.arg}")
                env[p.arg] = self.expr(d, {})
        return env

    def _block(self, stmts, env):
        for st in stmts:
            self._stmt(st, env)

    def _stmt(self, st, env):
        self._tick()
        if isinstance(st, ast.Expr):
            if isinstance(st.value, ast.Constant):
                return
            self.expr(st.value, env)
            return
        if isinstance(st, ast.Pass):
            return
        if isinstance(st, ast.Delete):
            for t in st.targets:
                if isinstance(t, ast.Subscript):
                    base = self._deref(self.expr(t.value, env))
                    key = self.expr(t.slice, env)
                    if not isinstance(base, (dict, list)):
                        raise Unsupported("del on a non-container")
                    try:
                        del base[key]
                    except (KeyError, IndexError, TypeError) as e:
                        raise Raised(type(e).__name__, "", st)
                elif isinstance(t, ast.Name) and t.id in env and dict.__contains__(env, t.id):
                    dict.__delitem__(env, t.id)
                else:
                    raise Unsupported("del form")
            return
        if isinstance(st, ast.Assign):
            v = self.expr(st.value, env)
            for t in st.targets:
                self._assign(t, v, env)
            return
        if isinstance(st, ast.AnnAssign):
            if st.value is not None:
                self._assign(st.target, self.expr(st.value, env), env)
            return
        if isinstance(st, ast.AugAssign):
            cur = self.expr(ast.copy_location(self._load(st.target), st.target), env)
            rhs = self.expr(st.value, env)
            # containers are updated in place (list.__iadd__ / set.__ior__ ...): every alias of the object sees the change
            if isinstance(cur, list) and isinstance(st.op, ast.Add) and isinstance(rhs, (list, tuple, set, str, dict)) or (isinstance(cur, list) and isinstance(st.op, ast.Add) and hasattr(rhs, "__iter__") and not isinstance(rhs, (int, float))):
                cur.extend(rhs)
                v = cur
            elif isinstance(cur, set) and isinstance(rhs, (set, frozenset)) and isinstance(st.op, (ast.BitOr, ast.BitAnd, ast.Sub, ast.BitXor)):
                {ast.BitOr: cur.update, ast.BitAnd: cur.intersection_update, ast.Sub: cur.difference_update, ast.BitXor: cur.symmetric_difference_update}[type(st.op)](rhs)
                v = cur
            elif isinstance(cur, dict) and isinstance(rhs, dict) and isinstance(st.op, ast.BitOr):
                cur.update(rhs)
                v = cur
            elif isinstance(cur, list) and isinstance(st.op, ast.Mult) and isinstance(rhs, int) and not isinstance(rhs, bool):
                cur[:] = cur * rhs
                v = cur
            else:
                v = self._binop(type(st.op), cur, rhs, st)
            self._assign(st.target, v, env)
            return
        if isinstance(st, ast.If):
            t = self._truth(self.expr(st.test, env))
            self.cov.add((st.lineno, st.col_offset, t))
            if t:
                self._block(st.body, env)
            else:
                self._block(st.orelse, env)
            return
        if isinstance(st, ast.Return):
            raise _Return(self.expr(st.value, env) if st.value is not None else None)
        if isinstance(st, ast.Raise):
            name = "Exception"
            msg = ""
            if st.exc is not None:
                e = st.exc
                if isinstance(e, ast.Call):
                    name = lit_name(e.func)
                else:
                    name = lit_name(e)
            raise Raised(name or "Exception", msg, st)
        if isinstance(st, ast.For):
            it = self.expr(st.iter, env)
            try:
                seq = list(it)
            except TypeError:
                raise Unsupported("iteration over non-iterable")
            broke = False
            for item in seq:
                self._tick()
                self._assign(st.target, item, env)
                try:
                    self._block(st.body, env)
                except _Break:
                    broke = True
                    break
                except _Continue:
                    continue
            if not broke:
                self._block(st.orelse, env)
            return
        if isinstance(st, ast.While):
            while self._truth(self.expr(st.test, env)):
                self._tick()
                try:
                    self._block(st.body, env)
                except _Break:
                    break
                except _Continue:
                    continue
            return
        if isinstance(st, ast.Break):
            raise _Break()
        if isinstance(st, ast.Continue):
            raise _Continue()
        if isinstance(st, ast.Try):
            try:
                self._block(st.body, env)
            except Raised as r:
                for h in st.handlers:
                    if self._handler_matches(h, r.exc_type):
                        if h.name:
                            env[h.name] = r
                        self._block(h.body, env)
                        break
                else:
                    raise
            else:
                self._block(st.orelse, env)
            finally:
                if st.finalbody:
                    self._block(st.finalbody, env)
            return
        if isinstance(st, (ast.FunctionDef,)):
            env[st.name] = Closure(st, env)
            return
        if isinstance(st, ast.Nonlocal):
            if isinstance(env, Env):
                env.nonlocals.update(st.names)
            return
        if isinstance(st, ast.Global):
            if not isinstance(env, Env):
                raise Unsupported("global statement outside a function scope")
            if not hasattr(env, "globals_"):
                env.globals_ = set()
            env.globals_.update(st.names)
            return
        raise Unsupported(f"statement {type(st).__name__}")

    @staticmethod
    def _load(t):
        t2 = ast.parse(ast.unparse(t), mode="eval").body
        return t2

    def _handler_matches(self, h, exc_type):
        if h.type is None:
            return True
        names = []
        if isinstance(h.type, ast.Tuple):
            names = [lit_name(e) for e in h.type.elts]
        else:
            names = [lit_name(h.type)]
        for n in names:
            if n in ("Exception", "BaseException"):
                return True
            if n == exc_type or (n and n.rsplit(".", 1)[-1] == exc_type):
                return True
            a, b = _EXC.get(n), _EXC.get(exc_type)
            if a and b and issubclass(b, a):
                return True
        return False

    def _assign(self, t, v, env):
        if isinstance(t, ast.Name):
            if t.id in getattr(env, "globals_", ()):
                self.module_state[t.id] = v
                return
            env[t.id] = v
        elif isinstance(t, (ast.Tuple, ast.List)):
            vs = list(v)
            stars = [i for i, e in enumerate(t.elts) if isinstance(e, ast.Starred)]
            if len(stars) == 1:
                i = stars[0]
                after = len(t.elts) - i - 1
                if len(vs) < len(t.elts) - 1:
                    raise Raised("ValueError", "unpack")
                parts = vs[:i] + [vs[i:len(vs) - after]] + vs[len(vs) - after:]
                for e, x in zip(t.elts, parts):
                    self._assign(e.value if isinstance(e, ast.Starred) else e, x, env)
                return
            if stars or len(vs) != len(t.elts):
                raise Raised("ValueError", "unpack")
            for e, x in zip(t.elts, vs):
                self._assign(e, x, env)
        elif isinstance(t, ast.Attribute):
            obj = self.expr(t.value, env)
            if isinstance(obj, Synth):
                if getattr(obj, "__dl_frozen__", False) and not getattr(obj, "__dl_constructing__", False):
                    raise Raised("FrozenInstanceError", t.attr, t)
                if getattr(obj, "__dl_slots__", False) and not hasattr(obj, t.attr) and not getattr(obj, "__dl_constructing__", False):
                    raise Raised("AttributeError", t.attr, t)
                object.__setattr__(obj, t.attr, v)
            else:
                raise Unsupported("attribute store")
        elif isinstance(t, ast.Subscript):
            c = self.expr(t.value, env)
            if isinstance(t.slice, ast.Slice):
                if not isinstance(c, list):
                    raise Unsupported("slice store")
                lo = self.expr(t.slice.lower, env) if t.slice.lower else None
                hi = self.expr(t.slice.upper, env) if t.slice.upper else None
                stp = self.expr(t.slice.step, env) if t.slice.step else None
                c[slice(lo, hi, stp)] = list(v)
                return
            k = self.expr(t.slice, env)
            if isinstance(c, (dict, list)):
                c[k] = v
            else:
                raise Unsupported("subscript store")
        else:
            raise Unsupported("assign target")

    def _opaque_call(self, fn, args, kwargs, node):
        """an external pure function modelled by the checker: its Python exceptions are the exceptions the analysed code sees"""
        try:
            return fn(*args, **kwargs)
        except (Raised, Unsupported):
            raise
        except (SyntaxError, ValueError, TypeError, IndexError, KeyError, OverflowError, ZeroDivisionError, RecursionError, MemoryError) as e:
            raise Raised(type(e).__name__, "", node)

    @staticmethod
    def _truth(v):
        if isinstance(v, (ast.AST,)):
            return True
        return bool(v)

    def _binop(self, opc, a, b, node):
        f = _BIN.get(opc)
        if f is None:
            raise Unsupported("binop")
        try:
            return f(a, b)
        except ZeroDivisionError:
            raise Raised("ZeroDivisionError", "", node)
        except TypeError:
            raise Raised("TypeError", "", node)
        except OverflowError:
            raise Raised("OverflowError", "", node)

    # -- expressions -------------------------------------------------------------------------
    def expr(self, n, env):
        self._tick()
        if isinstance(n, ast.Constant):
            return n.value
        if isinstance(n, ast.Name):
            if n.id in self.module_state and (n.id in getattr(env, "globals_", ()) or n.id not in env):
                return self.module_state[n.id]
            if n.id in env:
                return env[n.id]
            if n.id in self.extra:
                return self.extra[n.id]
            if n.id in self.mod.consts:
                ck = (self.mod.rel, self.mod.sha, n.id)
                if self.share_consts:
                    sk = ("__const__", self.mod.rel, n.id)
                    if sk not in self.module_state:
                        probe = Interp(self.mod, extra_env=self.extra, opaque=self.opaque)
                        self.module_state[sk] = _copy_containers(probe.expr(n, {}))
                    return self.module_state[sk]
                if ck in _CONST_CACHE:
                    v = _CONST_CACHE[ck]
                    return _copy_containers(v) if isinstance(v, (dict, list, set)) else v
                try:
                    v = _real(lit.ev(self.mod.consts[n.id], self.mod))
                except lit.NotLiteral:
                    # module-level dict comprehension etc.: evaluate with the interpreter itself
                    v = self.expr(self.mod.consts[n.id], {})
                v = self._module_level_updates(n.id, v)
                _CONST_CACHE[ck] = v
                return _copy_containers(v) if isinstance(v, (dict, list, set)) else v
            if n.id in self.mod.funcs:
                return self.mod.funcs[n.id]
            if n.id in _TYPES:
                return _TYPES[n.id]
            if n.id in _PURE_BUILTINS:
                return _PURE_BUILTINS[n.id]
            if n.id in self.mod.classes:
                return self._synth_class(n.id)
            imp = getattr(self.mod, "imports", {}).get(n.id)
            if imp is not None and imp[1] is not None and (imp[0], imp[1]) in _PURE_STDLIB:
                return _PURE_STDLIB[(imp[0], imp[1])]
            if n.id == "ast":
                return ast  # the stdlib module: only its node classes are consulted (isinstance tests)
            if n.id in ("True", "False", "None"):
                return {"True": True, "False": False, "None": None}[n.id]
            raise Unsupported(f"unknown name {n.id}")
        if isinstance(n, ast.NamedExpr) and isinstance(n.target, ast.Name):
            v = self.expr(n.value, env)
            self._assign(n.target, v, env)
            return v
        if isinstance(n, ast.JoinedStr):
            out = []
            for v in n.values:
                if isinstance(v, ast.Constant):
                    out.append(str(v.value))
                elif isinstance(v, ast.FormattedValue):
                    val = self.expr(v.value, env)
                    if v.conversion == 114:
                        val = repr(val)
                    if v.format_spec is not None:
                        spec = self.expr(v.format_spec, env)
                        out.append(format(val, spec))
                    else:
                        out.append(str(val) if not isinstance(val, str) else val)
            return "".join(out)
        if isinstance(n, (ast.List, ast.Tuple, ast.Set)):
            vals = []
            for e in n.elts:
                if isinstance(e, ast.Starred):
                    vals.extend(self.expr(e.value, env))
                else:
                    vals.append(self.expr(e, env))
            return vals if isinstance(n, ast.List) else tuple(vals) if isinstance(n, ast.Tuple) else set(vals)
        if isinstance(n, ast.Dict):
            d = {}
            for k, v in zip(n.keys, n.values):
                if k is None:
                    d.update(self.expr(v, env))
                else:
                    d[self._hashable(self.expr(k, env))] = self.expr(v, env)
            return d
        if isinstance(n, ast.UnaryOp):
            v = self.expr(n.operand, env)
            if isinstance(n.op, ast.Not):
                return not self._truth(v)
            try:
                if isinstance(n.op, ast.USub):
                    return -v
                if isinstance(n.op, ast.UAdd):
                    return +v
                if isinstance(n.op, ast.Invert):
                    return ~v
            except TypeError:
                raise Raised("TypeError", "unary", n)
        if isinstance(n, ast.BinOp):
            return self._binop(type(n.op), self.expr(n.left, env), self.expr(n.right, env), n)
        if isinstance(n, ast.BoolOp):
            if isinstance(n.op, ast.And):
                v = True
                for e in n.values:
                    v = self.expr(e, env)
                    if not self._truth(v):
                        return v
                return v
            v = False
            for e in n.values:
                v = self.expr(e, env)
                if self._truth(v):
                    return v
            return v
        if isinstance(n, ast.Compare):
            left = self.expr(n.left, env)
            for o, c in zip(n.ops, n.comparators):
                right = self.expr(c, env)
                try:
                    ok = _CMP[type(o)](left, right)
                except TypeError:
                    raise Raised("TypeError", "compare", n)
                if not ok:
                    return False
                left = right
            return True
        if isinstance(n, ast.IfExp):
            t = self._truth(self.expr(n.test, env))
            self.cov.add((n.lineno, n.col_offset, t))
            return self.expr(n.body if t else n.orelse, env)
        if isinstance(n, ast.Subscript):
            c = self.expr(n.value, env)
            if isinstance(n.slice, ast.Slice):
                lo = self.expr(n.slice.lower, env) if n.slice.lower else None
                hi = self.expr(n.slice.upper, env) if n.slice.upper else None
                stp = self.expr(n.slice.step, env) if n.slice.step else None
                return c[lo:hi:stp]
            k = self.expr(n.slice, env)
            try:
                return c[self._hashable(k)] if isinstance(c, dict) else c[k]
            except KeyError:
                raise Raised("KeyError", "", n)
            except IndexError:
                raise Raised("IndexError", "", n)
            except TypeError:
                raise Raised("TypeError", "", n)
        if isinstance(n, (ast.ListComp, ast.SetComp, ast.GeneratorExp, ast.DictComp)):
            return self._comp(n, env)
        if isinstance(n, ast.Attribute) and isinstance(n.value, ast.Name) and n.value.id not in env:
            imp = getattr(self.mod, "imports", {}).get(n.value.id)
            if imp is not None and imp[1] is None and (imp[0], n.attr) in _PURE_STDLIB:
                return _PURE_STDLIB[(imp[0], n.attr)]   # op.lt, math.floor ... used as a value
        if isinstance(n, ast.Attribute):
            base = self.expr(n.value, env)
            if isinstance(base, dict) and n.attr in base and base.get("__obj__"):
                return base[n.attr]
            if isinstance(base, Raised):
                if n.attr in base.attrs:
                    return base.attrs[n.attr]
                if n.attr == "args":
                    return (base.msg,)
                raise Raised("AttributeError", n.attr, n)
            if isinstance(base, type) and n.attr == "__name__":
                return base.__name__
            if isinstance(base, Synth):
                if n.attr == "__dict__":
                    if getattr(base, "__dl_slots__", False):
                        raise Raised("AttributeError", "__dict__", n)     # slotted dataclass instances have no __dict__
                    return {k_: v_ for k_, v_ in vars(base).items() if not k_.startswith("__dl_")}
                if getattr(base, "__dl_class__", None) and not n.attr.startswith("__dl_"):
                    pf = self.mod.funcs.get(f"{base.__dl_class__}.{n.attr}")
                    if pf is not None and any(isinstance(d_, ast.Name) and d_.id in ("property", "cached_property") or isinstance(d_, ast.Attribute) and d_.attr == "cached_property" for d_ in pf.decorator_list):
                        return self._call(pf, [base], {})      # a property of a host object: its getter is the class's function
                if hasattr(base, n.attr):
                    return getattr(base, n.attr)
                if getattr(base, "__dl_class__", None) and f"{base.__dl_class__}.{n.attr}" in self.mod.funcs:
                    fn_ = self.mod.funcs[f"{base.__dl_class__}.{n.attr}"]
                    return BoundMethod(fn_, base, any(isinstance(d_, ast.Name) and d_.id == "staticmethod" for d_ in fn_.decorator_list))
                raise Raised("AttributeError", n.attr, n)
            if isinstance(base, tuple) and hasattr(type(base), "_fields") and (n.attr in type(base)._fields or n.attr == "_fields"):
                return getattr(base, n.attr)          # a NamedTuple record of the analysed code
            if base is ast and isinstance(getattr(ast, n.attr, None), type):
                return getattr(ast, n.attr)
            if isinstance(base, ast.AST) and (n.attr in base._fields or n.attr in getattr(base, "_attributes", ())):
                # data fields of a syntax-tree value handed in by the checker (ast.Call.args, keyword.arg ...)
                return getattr(base, n.attr)
            raise Unsupported(f"attribute {n.attr}")
        if isinstance(n, ast.Yield):
            if not getattr(self, "_yields", None):
                raise Unsupported("yield outside a generator function")
            self._yields[-1].append(self.expr(n.value, env) if n.value is not None else None)
            return None
        if isinstance(n, ast.YieldFrom):
            if not getattr(self, "_yields", None):
                raise Unsupported("yield outside a generator function")
            self._yields[-1].extend(list(self.expr(n.value, env)))
            return None
        if isinstance(n, ast.Call):
            return self._callexpr(n, env)
        if isinstance(n, ast.Lambda):
            if n.args.vararg or n.args.kwarg or n.args.kwonlyargs or n.args.defaults:
                raise Unsupported("lambda with complex signature")
            names = [a.arg for a in n.args.args]
            interp = self

            def _lam(*args, _names=names, _body=n.body, _env=env):
                e2 = Env(_env)
                for k, v in zip(_names, args):
                    dict.__setitem__(e2, k, v)
                return interp.expr(_body, e2)

            _lam._dl_lambda = True
            _lam._dl_node = n
            _lam._dl_env = env
            return _lam
        raise Unsupported(f"expression {type(n).__name__}")

    def _deref(self, v):
        """a literal table's reference to a function (`{"int": int}`, `{ast.Lt: op.lt}`) -> the function"""
        if isinstance(v, lit.Ref):
            nm = v.name
            if nm in _TYPES:
                return _TYPES[nm]
            if _PURE_BUILTINS.get(nm) is not None:
                return _PURE_BUILTINS[nm]
            if "." in nm:
                root, attr = nm.split(".", 1)
                if (root, attr) in _PURE_STDLIB:
                    return _PURE_STDLIB[(root, attr)]
                imp = getattr(self.mod, "imports", {}).get(root)
                if imp is not None and imp[1] is None and (imp[0], attr) in _PURE_STDLIB:
                    return _PURE_STDLIB[(imp[0], attr)]
        return v

    @staticmethod
    def _pure(fn):
        try:
            return fn in _PURE_CALLABLES
        except TypeError:
            return False

    def _stdlib(self, fn, args, kwargs, node):
        if fn is functools.partial and args:
            # a callable value of the analysed code: calling it calls the wrapped value with the stored arguments first
            tgt_, pre_, prekw_ = args[0], list(args[1:]), dict(kwargs)
            part_ = lambda *a_, **k_: self.call_value(tgt_, pre_ + list(a_), {**prekw_, **k_}, node)
            part_._dl_lambda = True
            part_._dl_partial = True
            return part_
        if fn is collections.defaultdict:
            fac_ = args[0] if args else None
            if fac_ is not None and not (isinstance(fac_, type) and fac_ in (list, dict, set, int, float, str, tuple, bool)):
                fv_ = fac_
                fac_ = lambda: self.call_value(fv_, [], {}, node)
            return collections.defaultdict(fac_, *args[1:], **kwargs)
        try:
            r = fn(*args, **kwargs)
        except (ValueError, TypeError, ZeroDivisionError, OverflowError, KeyError, IndexError, SyntaxError, RecursionError, MemoryError) as e:
            raise Raised(type(e).__name__, "", node)
        import types
        if isinstance(r, (types.GeneratorType,)) or type(r).__module__ == "itertools":
            out = []
            for x in r:
                self._tick()
                if type(x) is tuple and len(x) == 2 and type(x[1]).__module__ == "itertools":
                    x = (x[0], list(x[1]))   # groupby: materialise the group
                out.append(x)
            return out
        return r

    @staticmethod
    def _hashable(k):
        if isinstance(k, list):
            return tuple(k)
        return k

    def _comp_iter(self, n, env):
        """lazy element stream of a comprehension: any()/all()/next() over a generator expression stop early exactly
        as Python does, so side effects of the skipped elements do not happen"""
        def rec(gi, e):
            if gi == len(n.generators):
                if isinstance(n, ast.DictComp):
                    yield (self.expr(n.key, e), self.expr(n.value, e))
                else:
                    yield self.expr(n.elt, e)
                return
            g = n.generators[gi]
            for item in self.expr(g.iter, e):
                self._tick()
                e2 = Env(e)
                self._assign(g.target, item, e2)
                if all(self._truth(self.expr(c, e2)) for c in g.ifs):
                    yield from rec(gi + 1, e2)

        return rec(0, env)

    def _comp(self, n, env):
        it = self._comp_iter(n, env)
        if isinstance(n, ast.GeneratorExp):
            return it
        results = list(it)
        if isinstance(n, ast.ListComp):
            return results
        if isinstance(n, ast.SetComp):
            return set(results)
        return dict(results)

    def _callexpr(self, n, env):
        f = n.func
        args = []
        for a in n.args:
            if isinstance(a, ast.Starred):
                args.extend(self.expr(a.value, env))
            else:
                args.append(self.expr(a, env))
        kwargs = {}
        for kw in n.keywords:
            if kw.arg is None:
                extra = self.expr(kw.value, env)
                if not isinstance(extra, dict) or not all(isinstance(k_, str) for k_ in extra):
                    raise Unsupported("**kwargs call with a non-dict")
                kwargs.update(extra)
                continue
            kwargs[kw.arg] = self.expr(kw.value, env)
        # method calls on values
        if isinstance(f, ast.Attribute):
            dn = lit_name(f)
            if dn in self.opaque:
                return self._opaque_call(self.opaque[dn], args, kwargs, n)
            if dn and "." in dn:
                root, attr = dn.split(".", 1)
                imp = getattr(self.mod, "imports", {}).get(root)
                modname = imp[0] if imp is not None and imp[1] is None else None
                if modname and (modname, attr) in _PURE_STDLIB and root not in env:
                    return self._stdlib(_PURE_STDLIB[(modname, attr)], args, kwargs, n)
            base = self.expr(f.value, env)
            m = f.attr
            if isinstance(base, str) and m in _STR_METHODS:
                try:
                    return getattr(base, m)(*args, **kwargs)
                except (ValueError, TypeError) as e:
                    raise Raised(type(e).__name__, "", n)
            if isinstance(base, bytes) and m in ("decode", "hex", "replace", "startswith", "endswith", "lower", "upper", "strip", "split", "isalnum"):
                try:
                    return getattr(base, m)(*args, **kwargs)
                except (ValueError, TypeError, LookupError) as e:
                    raise Raised(type(e).__name__, "", n)
            if isinstance(base, dict) and m in ("get", "items", "values", "keys", "setdefault", "pop", "copy", "update", "clear", "popitem"):
                r = getattr(base, m)(*([self._hashable(args[0])] + list(args[1:]) if args and m != "update" else args))
                return list(r) if m in ("items", "values", "keys") else r
            if isinstance(base, list) and m in ("append", "extend", "index", "count", "copy", "insert", "pop", "remove", "clear", "reverse", "sort"):
                try:
                    return getattr(base, m)(*args)
                except (ValueError, IndexError) as e:
                    raise Raised(type(e).__name__, "", n)
            if isinstance(base, (set, frozenset)) and m in ("add", "union", "intersection", "difference", "copy", "issubset", "issuperset", "isdisjoint", "discard", "clear", "update", "symmetric_difference", "difference_update", "intersection_update"):
                return getattr(base, m)(*args)
            if isinstance(base, set) and m in ("remove", "pop"):
                try:
                    return getattr(base, m)(*args)
                except KeyError:
                    raise Raised("KeyError", "", n)
            if False:
                return getattr(base, m)(*args)
            if isinstance(base, tuple) and m in ("index", "count"):
                return getattr(base, m)(*args)
            if isinstance(base, tuple) and hasattr(type(base), "_fields") and m in ("_asdict", "_replace"):
                try:
                    return getattr(base, m)(*args, **kwargs)
                except (ValueError, TypeError) as e:
                    raise Raised(type(e).__name__, "", n)
            import re as _re
            if isinstance(base, lit.Regex) and m in ("sub", "match", "fullmatch", "search", "findall", "finditer", "split", "subn"):
                flags = 0
                for fl in ("IGNORECASE", "MULTILINE", "DOTALL", "VERBOSE"):
                    if fl in (base.flags_src or ""):
                        flags |= getattr(_re, fl)
                rx = _re.compile(base.pattern, flags)
                r = getattr(rx, m)(*args)
                return list(r) if m == "finditer" else r
            if isinstance(base, _re.Match) and m in ("group", "groups", "start", "end", "span"):
                return getattr(base, m)(*args)
            if base is dict and m == "fromkeys":
                return dict.fromkeys(*args)
            if base is itertools.chain and m == "from_iterable" and len(args) == 1:
                return [x_ for part_ in args[0] for x_ in part_]
            if base is str and m == "maketrans":
                try:
                    return str.maketrans(*args)
                except (ValueError, TypeError) as e:
                    raise Raised(type(e).__name__, "", n)
            if isinstance(base, Synth) and callable(getattr(base, m, None)) and getattr(getattr(base, m), "_dl_lambda", False):
                return getattr(base, m)(*args)        # a callback/provider the checker stored on a host object
            if getattr(base, "__dl_native__", False):
                # a recorder object handed in by the checker (fake Path ...): its methods are the checker's own code
                return getattr(base, m)(*args, **kwargs)
            if isinstance(base, Synth) and getattr(base, "__dl_class__", None) and f"{base.__dl_class__}.{m}" in self.mod.funcs:
                # a host object fabricated by the checker: its methods are the class's functions of this module
                fn_ = self.mod.funcs[f"{base.__dl_class__}.{m}"]
                static = any(isinstance(d, ast.Name) and d.id == "staticmethod" for d in fn_.decorator_list)
                return self._call(fn_, ([] if static else [base]) + list(args), kwargs)
            if base is ast and isinstance(getattr(ast, m, None), type) and issubclass(getattr(ast, m), ast.AST):
                return getattr(ast, m)(*args, **kwargs)          # a syntax-tree value built by the analysed code (pure data)
            if type(base) in (int, bool) and m in ("bit_length", "bit_count", "conjugate", "is_integer") or type(base) is float and m in ("is_integer", "hex", "as_integer_ratio"):
                return getattr(base, m)(*args)
            # a record (NamedTuple / dataclass / plain class instance) whose *field* holds a callable: `row.fold(x)` calls the value
            if (isinstance(base, tuple) and m in getattr(type(base), "_fields", ())) or (isinstance(base, Synth) and m in getattr(base, "__dict__", {})):
                return self.call_value(getattr(base, m), args, kwargs, n)
            raise Unsupported(f"method {m} on {type(base).__name__}")
        if isinstance(f, ast.Name):
            name = f.id
            if name in self.opaque and name not in env:
                return self._opaque_call(self.opaque[name], args, kwargs, n)
            if name == "getattr" and len(args) in (2, 3) and isinstance(args[1], str) and not args[1].startswith("__"):
                if isinstance(args[0], Synth):
                    if hasattr(args[0], args[1]):
                        return getattr(args[0], args[1])
                    cls_ = getattr(args[0], "__dl_class__", None)
                    if cls_ and f"{cls_}.{args[1]}" in self.mod.funcs:
                        fn_ = self.mod.funcs[f"{cls_}.{args[1]}"]
                        if any(isinstance(d_, ast.Name) and d_.id in ("property", "cached_property") for d_ in fn_.decorator_list):
                            return self._call(fn_, [args[0]], {})
                        return BoundMethod(fn_, args[0], any(isinstance(d_, ast.Name) and d_.id == "staticmethod" for d_ in fn_.decorator_list))
                    if len(args) == 3:
                        return args[2]
                    raise Raised("AttributeError", args[1], n)
                raise Unsupported("getattr on non-IR value")
            if name == "hasattr" and len(args) == 2 and isinstance(args[1], str):
                if args[1] == "__dict__" and isinstance(args[0], Synth) and getattr(args[0], "__dl_slots__", False):
                    return False
                if isinstance(args[0], Synth) and args[1].startswith("__dl_"):
                    return False
                return hasattr(args[0], args[1]) if isinstance(args[0], (Synth, str, int, float, list, dict, tuple, set)) else False
            if name == "isinstance":
                v, t = args
                ts = t if isinstance(t, tuple) else (t,)
                if not all(isinstance(x, type) for x in ts):
                    raise Unsupported("isinstance with non-type")
                if any(isinstance(x, ast.AST) for x in ts):
                    raise Unsupported("isinstance with AST value")
                return isinstance(v, tuple(ts))
            target = env.get(name)
            if target is None and name in self.mod.funcs and name not in env:
                target = self.mod.funcs[name]
            if isinstance(target, Closure):
                return self._call(target.fn, args, kwargs, target.env)
            if isinstance(target, BoundMethod):
                return self.call_value(target, args, kwargs, n)
            if callable(target) and getattr(target, "_dl_lambda", False):
                return target(*args)
            target = self._deref(target)
            if isinstance(target, type) and target in _TYPES.values() and name in env:
                try:
                    return target(*args, **kwargs)
                except (ValueError, TypeError, OverflowError) as e:
                    raise Raised(type(e).__name__, "", n)
            if target is not None and callable(target) and any(target is v_ for v_ in self.opaque.values()):
                return self._opaque_call(target, args, kwargs, n)   # an external function held in a local (`run = subprocess.run`)
            if target is not None and callable(target) and self._pure(target):
                return self._stdlib(target, args, kwargs, n)   # a table entry such as ops[ast.Lt] = operator.lt
            imp = getattr(self.mod, "imports", {}).get(name)
            if name not in env and imp is not None and imp[1] is not None and (imp[0], imp[1]) in _PURE_STDLIB:
                return self._stdlib(_PURE_STDLIB[(imp[0], imp[1])], args, kwargs, n)
            if isinstance(target, (ast.FunctionDef,)):
                return self._call(target, args, kwargs)
            if name in _TYPES and name not in env:
                try:
                    return _TYPES[name](*args, **kwargs)
                except (ValueError, TypeError, OverflowError) as e:
                    raise Raised(type(e).__name__, "", n)
            if name == "next" and name not in env and len(args) in (1, 2) and not kwargs:
                try:
                    return next(args[0]) if len(args) == 1 else next(args[0], args[1])
                except StopIteration:
                    raise Raised("StopIteration", "", n)
                except TypeError:
                    raise Raised("TypeError", "", n)
            if name in ("map", "filter") and name not in env and len(args) >= 2 and not kwargs:
                fn_v, its = args[0], [list(x) for x in args[1:]]
                if name == "map":
                    return iter([self.call_value(fn_v, list(xs), {}, n) for xs in zip(*its)])
                return iter([x for x in its[0] if (self._truth(x) if fn_v is None else self._truth(self.call_value(fn_v, [x], {}, n)))])
            if name in ("sorted", "min", "max") and name not in env and "key" in kwargs and kwargs["key"] is not None and not (callable(kwargs["key"]) and self._pure(kwargs["key"])):
                kf = kwargs["key"]
                kwargs = dict(kwargs, key=lambda x_, _kf=kf: self.call_value(_kf, [x_], {}, n))
            if name in _PURE_BUILTINS and name not in env:
                try:
                    r = _PURE_BUILTINS[name](*args, **kwargs)
                except (ValueError, TypeError) as e:
                    raise Raised(type(e).__name__, "", n)
                if name in ("range", "enumerate", "zip", "reversed"):
                    return list(r)
                return r
            if name in _EXC:
                return Raised(name, "", n)
            if name in self.mod.classes and name not in env:
                return self._instantiate(self._synth_class(name), args, kwargs, n)
            if name in self.extra and isinstance(self.extra[name], type):
                try:
                    return self.extra[name](*args, **kwargs)
                except TypeError:
                    raise Raised("TypeError", "", n)
            if isinstance(target, type) and (issubclass(target, (Synth, tuple)) or any(target is v_ for v_ in self.extra.values())):
                return self._instantiate(target, args, kwargs, n)     # a class held in a variable (`node_type(name=...)`)
            raise Unsupported(f"call to {name}")
        if not isinstance(f, (ast.Name, ast.Attribute)):
            return self.call_value(self.expr(f, env), args, kwargs, n)
        raise Unsupported("call form")

    def _module_level_updates(self, name, v):
        """module-level statements that complete a table after its assignment (`T.update(...)`, `T[k] = v`, `T += [...]`) are
        applied in source order, as the import of the module does"""
        if not isinstance(v, (dict, list, set)):
            return v
        tree = getattr(self.mod, "tree", None)
        if tree is None:
            return v
        started = False
        env = None
        for st in tree.body:
            tg = st.targets if isinstance(st, ast.Assign) else [st.target] if isinstance(st, (ast.AnnAssign, ast.AugAssign)) else []
            if not started:
                if any(isinstance(t, ast.Name) and t.id == name for t in tg) and not isinstance(st, ast.AugAssign):
                    started = True
                continue
            hit = False
            if isinstance(st, ast.Expr) and isinstance(st.value, ast.Call) and isinstance(st.value.func, ast.Attribute) and isinstance(st.value.func.value, ast.Name) and st.value.func.value.id == name:
                hit = True
            elif isinstance(st, ast.Assign) and any(isinstance(t, ast.Subscript) and isinstance(t.value, ast.Name) and t.value.id == name for t in st.targets):
                hit = True
            elif isinstance(st, ast.AugAssign) and isinstance(st.target, ast.Name) and st.target.id == name:
                hit = True
            elif isinstance(st, ast.Assign) and any(isinstance(t, ast.Name) and t.id == name for t in st.targets):
                break           # re-bound: the later binding is what mod.consts holds already
            if hit:
                if env is None:
                    env = Env(None)
                    v = type(v)(v)
                    dict.__setitem__(env, name, v)
                self._stmt(st, env)
                v = env[name]
        return v

    def _instantiate(self, klass, args, kwargs, n=None):
        if getattr(klass, "__dl_plain__", False) and not getattr(klass, "__dl_record__", False):
            obj = klass()
            init = self.mod.funcs.get(f"{klass.__dl_class__}.__init__")
            if init is not None:
                self._call(init, [obj] + list(args), kwargs)
            elif args or kwargs:
                raise Raised("TypeError", "", n)
            return obj
        try:
            return klass(*args, **(kwargs or {}))
        except TypeError:
            raise Raised("TypeError", "", n)

    def call_value(self, target, args, kwargs, n=None):
        """call a value the analysed code holds (a closure, a module function kept in a table, a pure library function, a type)"""
        target = self._deref(target)
        if isinstance(target, BoundMethod):
            return self._call(target.fn, ([] if target.static else [target.obj]) + list(args), dict(kwargs or {}))
        if isinstance(target, Closure):
            return self._call(target.fn, list(args), dict(kwargs or {}), target.env)
        if isinstance(target, (ast.FunctionDef,)):
            return self._call(target, list(args), dict(kwargs or {}))
        if callable(target) and getattr(target, "_dl_partial", False):
            return target(*args, **(kwargs or {}))
        if callable(target) and getattr(target, "_dl_lambda", False):
            return target(*args)
        if isinstance(target, type) and issubclass(target, Synth):
            return self._instantiate(target, list(args), dict(kwargs or {}), n)
        if isinstance(target, type) and (target in _TYPES.values() or issubclass(target, tuple) or any(target is v_ for v_ in self.extra.values())):
            try:
                return target(*args, **(kwargs or {}))
            except (ValueError, TypeError, OverflowError) as e:
                raise Raised(type(e).__name__, "", n)
        if callable(target) and any(target is v_ for v_ in self.opaque.values()):
            return self._opaque_call(target, list(args), dict(kwargs or {}), n)
        if callable(target) and self._pure(target):
            return self._stdlib(target, list(args), dict(kwargs or {}), n)
        raise Unsupported("call form")


_CONST_CACHE = {}


def _real(v):
    """literal-table values as the evaluator sees them: ast.X keys become the stdlib node classes"""
    if isinstance(v, lit.AstKey):
        return getattr(ast, v.name)
    if isinstance(v, dict):
        return {_real(k): _real(x) for k, x in v.items()}
    if isinstance(v, (list, tuple)):
        return type(v)(_real(x) for x in v)
    if isinstance(v, (set, frozenset)):
        return type(v)(_real(x) for x in v)
    return v


def lit_name(node) -> Optional[str]:
    parts = []
    while isinstance(node, ast.Attribute):
        parts.append(node.attr)
        node = node.value
    if isinstance(node, ast.Name):
        parts.append(node.id)
        return ".".join(reversed(parts))
    return None

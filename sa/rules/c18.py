"""C18 - LCD animations never block, stay inside their row, finish unless looping (clause level)."""
from __future__ import annotations

import ast
import os
import re

from .. import cxx, dl, l2, lit, pe
from ..cabs import Exec, State, lname
from ..core import AnalysisError
from ..cxx import show, sub_exprs, all_stmts, all_calls, stmt_exprs, callee, receiver, call_args
from ..flow import CondTrace, conds, lexical_conds
from ..num import INF, Iv
from ..src import Locals, call_name, mod, norm, stmt_key, walk_local
from . import c17

PARSER = "transpile/parser.py"
EMITTER = "transpile/emitter.py"
LCDPY = "Displays/LCD.py"
BLOCKING = {"delay", "delayMicroseconds", "pulseIn", "pulseInLong"}

# progress variable of each style and the only ways it may change inside a tick (device side)
PROGRESS = {
    "scroll": ("state.offset", {"state.offset += 1", "state.offset = 0"}),
    "typewriter": ("state.visible", {"state.visible += 1", "state.visible = length", "state.visible = 0"}),
    "bounce": ("state.offset", {"state.offset += state.direction", "state.offset = max_offset", "state.offset = 0"}),
    "blink": ("state.show", {"state.show = !state.show"}),
}


def enclosing_conds(body, target_pred):
    """(stmt, [conditions with polarity]) for statements matching target_pred, lexical"""
    out = []

    def rec(stmts, cs):
        for s in stmts:
            if target_pred(s):
                out.append((s, list(cs)))
            k = s["k"]
            if k == "if":
                rec(s["then"], cs + [(show(s["cond"]), True)])
                if s["else"]:
                    rec(s["else"], cs + [(show(s["cond"]), False)])
            elif k == "for":
                rec(s["body"], cs + [("loop:" + show(s["cond"]), True)])
            elif k in ("while", "block"):
                rec(s["body"], cs)
    rec(body, [])
    return out


def assigns_to(body, prefix):
    def pred(s):
        if s["k"] != "expr":
            return False
        e = s["e"]
        return e[0] in ("assign", "post", "pre") and (lname(e[2]) or "").startswith(prefix)
    return enclosing_conds(body, pred)


def run(cx):
    em, pm, hm = mod(EMITTER), mod(PARSER), mod(LCDPY)
    for m in (em, pm, hm):
        cx.consulted(m)
    cx.explanation = (
        'who-may-call rule (no delay / no while) and loop bounds on the start/tick templates; tick registration and placement on scripts through parse(); name tables of host, parser and emitter; rate limiting and life cycle by driving firmware helpers (C semantics, scripted millis, cell model) and the host LCD through the same schedules: frames stay in their row, steps never closer than speed_ms, non-looping animations finish within 4*(len+cols)+8 steps, looping ones never; the bound is checked on the grid, not proved for all lengths.'
    )
    cls, fields = pe.ir_classes()
    fns, names = c17.helper_functions(em)
    anim = {n: f for n, f in fns.items() if "_start_" in n or "_tick_" in n}
    styles = sorted({n.split("_")[-1] for n in anim})
    snippet_line = em.const("LCD_HELPER_SNIPPET").lineno

    # ---- C18-NOBLOCK -------------------------------------------------------------------------
    r = cx.rule("C18-NOBLOCK", "no start/tick helper calls delay/delayMicroseconds/pulseIn or contains a while loop; their for loops are bounded by the display width", floor=8)
    for n, f in anim.items():
        bad = [show(c) for c in all_calls(f["body"]) if callee(c) in BLOCKING]
        r.check(not bad, f"{n}/no-blocking-call", (em.rel, snippet_line), f"{n} blocks: {bad}")
        wh = [s for s in all_stmts(f["body"]) if s["k"] == "while"]
        r.check(not wh, f"{n}/no-while-loop", (em.rel, snippet_line), f"{n} contains a while loop")
        decls = {s["name"]: s for s in all_stmts(f["body"]) if s["k"] == "decl"}
        for s in all_stmts(f["body"]):
            if s["k"] == "for":
                c = s["cond"]
                b = lname(c[3]) if c and c[0] == "bin" and c[1] == "<" else None
                okb = b == "cols" or (b in decls and decls[b]["init"] is not None and "cols" in show(decls[b]["init"]))
                r.check(bool(okb), f"{n}/for-bounded-by-cols[{show(c)}]", (em.rel, snippet_line), f"{n}: loop `{show(c)}` is not bounded by the display width", sample=f"{n}: for {show(c)}")
    # the emitter arms for animate/tick contain no delay either
    for cname in ("LCDAnimate", "LCDTick"):
        for kw, node in pe.variants(cname, limit=12):
            pre = [l2.lcd_decl("i2c")] + ([cls["LCDAnimate"](name="dev", animation="scroll", row=0, text="H_text_text", speed_ms=200, loop=False)] if cname == "LCDTick" else [])
            res = pe.emit_program(setup=pre, loop=[node])
            lp = l2.functions_of(res.text, ["loop"])["loop"][0]["body"]
            bad = [show(c) for c in all_calls(lp) if callee(c) in BLOCKING]
            r.check(not bad, f"{cname}/no-blocking-call", (em, em.func("_emit_block")), f"{cname} emits {bad}")

    # ---- C18-TICKREG -------------------------------------------------------------------------
    r = cx.rule("C18-TICKREG", "every animate() registers its display for ticking in a set, parse() injects exactly one tick per display (sorted) at the head of loop(), every started animation gets a state global and exactly one tick call per loop() pass", floor=8)
    psl, pf = pm.func("_parse_simple_lines"), pm.func("parse")
    # (that every animate() registers its display exactly once is decided on scripts below: two animations on one display,
    # animations started inside the loop)
    for n_anim in (1, 2, 3):
        anims = [cls["LCDAnimate"](name="dev", animation=styles[i % len(styles)], row=i % 2, text="H_text_text", speed_ms="H_s", loop="H_l") for i in range(n_anim)]
        res = pe.emit_program(setup=[l2.lcd_decl("i2c")] + anims, loop=[cls["LCDTick"](name="dev")])
        ticks = re.findall(r"__redu_lcd_tick_\w+\((__redu_lcd_anim_dev_\d+),", res.text[res.text.index("void loop()"):])
        globals_ = re.findall(r"^__redu_lcd_animation_state (__redu_lcd_anim_dev_\d+);", res.text, re.M)
        starts = re.findall(r"__redu_lcd_start_\w+\((__redu_lcd_anim_dev_\d+),", res.text)
        r.check(sorted(ticks) == sorted(set(starts)) == sorted(globals_) and len(ticks) == n_anim, f"emit/{n_anim}-animations->one-tick-each", (em, em.func("_emit_block")), f"started {starts}, state globals {globals_}, ticked per pass {ticks}")
        setup_txt = res.text[res.text.index("void setup()"):res.text.index("void loop()")]
        st_pairs = dict((v, k) for k, v in re.findall(r"__redu_lcd_start_(\w+)\((__redu_lcd_anim_dev_\d+),", setup_txt))
        tk_pairs = dict((v, k) for k, v in re.findall(r"__redu_lcd_tick_(\w+)\((__redu_lcd_anim_dev_\d+),", res.text[res.text.index("void loop()"):]))
        for var_, st_ in st_pairs.items():
            tk = tk_pairs.get(var_)
            r.check(st_ == tk, "emit/tick-style-matches-start-style", (em, em.func("_emit_block")), f"animation started as {st_} is ticked as {tk}")

    # an animation started inside the main loop (e.g. on a button press) must be ticked as well
    res = pe.emit_program(setup=[l2.lcd_decl("i2c")], loop=[cls["LCDTick"](name="dev"), cls["LCDAnimate"](name="dev", animation="scroll", row=0, text="H_text_text", speed_ms="H_s", loop="H_l")])
    lp_txt = res.text[res.text.index("void loop()"):]
    started = re.findall(r"__redu_lcd_start_\w+\((__redu_lcd_anim_dev_\d+),", lp_txt)
    ticked = re.findall(r"__redu_lcd_tick_\w+\((__redu_lcd_anim_dev_\d+),", lp_txt)
    r.check(sorted(started) == sorted(ticked), "emit/animation-started-in-loop-is-ticked", (em, em.func("_emit_block")), f"an animation started inside the main loop is started as {started} but the injected tick at the head of loop() advances {ticked}: the tick arm is emitted before the animate arm has registered the animation")

    # whole scripts through the parser (partial evaluation of parse()): however the script is written - animation started before
    # the loop, host-style explicit `lcd.tick()` / `lcd.tick(now)` calls in the loop, under a condition, two displays - the
    # loop body holds exactly one LCDTick per animated display (a tick of a display that never animates is a no-op: not counted)
    head = "from Reduino.Displays import LCD\nfrom Reduino.Utils import sleep\nlcd = LCD(i2c_addr=0x27)\nlcd2 = LCD(rs=12, en=11, d4=5, d5=4, d6=3, d7=2)\nx = 0\n"
    scripts = {
        "animate-before-loop": (head + "lcd.animate('scroll', 0, 'hello world', speed_ms=0)\nwhile True:\n    sleep(10)\n", {"lcd": 1}),
        "explicit-tick-in-loop": (head + "lcd.animate('scroll', 0, 'hello world', speed_ms=0)\nwhile True:\n    lcd.tick()\n    sleep(10)\n", {"lcd": 1}),
        "explicit-tick(now)-in-loop": (head + "lcd.animate('blink', 0, 'hi', speed_ms=0)\nwhile True:\n    x = x + 10\n    lcd.tick(x)\n", {"lcd": 1}),
        "explicit-tick-under-if": (head + "lcd.animate('bounce', 0, 'hi', speed_ms=0)\nwhile True:\n    if x > 2:\n        lcd.tick()\n    x = x + 1\n", {"lcd": 1}),
        "animate-inside-the-loop": (head + "while True:\n    if x > 2:\n        lcd.animate('scroll', 0, 'late', speed_ms=0)\n        lcd.animate('blink', 1, 'later', speed_ms=0)\n    x = x + 1\n", {"lcd": 1}),
        "two-displays": (head + "lcd.animate('scroll', 0, 'a', speed_ms=0)\nlcd2.animate('typewriter', 1, 'b', speed_ms=0)\nlcd.animate('blink', 1, 'c', speed_ms=0)\nwhile True:\n    lcd2.tick()\n    sleep(1)\n", {"lcd": 1, "lcd2": 1}),
        "animate-in-else": (head + "while True:\n    if x > 2:\n        x = 0\n    else:\n        lcd.animate('scroll', 0, 'late', speed_ms=0)\n    x = x + 1\n", {"lcd": 1}),
        "animate-in-elif": (head + "while True:\n    if x > 2:\n        x = 0\n    elif x > 1:\n        lcd.animate('blink', 0, 'late', speed_ms=0)\n    x = x + 1\n", {"lcd": 1}),
        "two-displays-chosen-by-if-else": (head + "while True:\n    if x > 2:\n        lcd.animate('scroll', 0, 'a', speed_ms=0)\n    else:\n        lcd2.animate('bounce', 0, 'b', speed_ms=0)\n    x = x + 1\n", {"lcd": 1, "lcd2": 1}),
        "animate-in-nested-else": (head + "while True:\n    if x > 2:\n        if x > 5:\n            x = 0\n        else:\n            lcd2.animate('typewriter', 1, 'deep', speed_ms=0)\n    x = x + 1\n", {"lcd2": 1}),
        "animate-in-else-before-the-loop": (head + "if x > 2:\n    x = 0\nelse:\n    lcd.animate('scroll', 0, 'boot', speed_ms=0)\nwhile True:\n    x = x + 1\n", {"lcd": 1}),
        "animate-in-for-body": (head + "while True:\n    for i in range(2):\n        lcd.animate('scroll', 0, 'again', speed_ms=0)\n    x = x + 1\n", {"lcd": 1}),
        "animate-in-while-body": (head + "while True:\n    while x < 2:\n        lcd2.animate('blink', 0, 'again', speed_ms=0)\n        x = x + 1\n    x = 0\n", {"lcd2": 1}),
        "animate-in-try-and-handler": (head + "while True:\n    try:\n        lcd.animate('scroll', 0, 'try', speed_ms=0)\n    except Exception:\n        lcd2.animate('blink', 0, 'oops', speed_ms=0)\n    x = x + 1\n", {"lcd": 1, "lcd2": 1}),
        "animation-and-buttons": ("from Reduino.Sensors import Button\n" + head + "b1 = Button(7)\nb2 = Button(8)\nlcd.animate('scroll', 0, 'a', speed_ms=0)\nlcd2.animate('blink', 1, 'b', speed_ms=0)\nwhile True:\n    if b1.is_pressed():\n        x = x + 1\n    if b2.is_pressed():\n        x = 0\n", {"lcd": 1, "lcd2": 1}),
    }

    def count_ticks(nodes, acc):
        for n_ in nodes:
            if type(n_).__name__ == "LCDTick":
                acc[n_.name] = acc.get(n_.name, 0) + 1
            for f_ in ("body", "else_body", "try_body", "branches", "handlers"):
                sub = getattr(n_, f_, None)
                if isinstance(sub, list):
                    count_ticks(sub, acc)
        return acc

    for label, (src_, want_) in scripts.items():
        try:
            _it, out_ = pe.parse_source(src_)
        except dl.Unsupported as e:
            raise AnalysisError(f"parse() left the evaluable subset on script `{label}`: {e}")
        if out_.kind != "return":
            r.ok(f"{label}: rejected ({out_.value})")
            continue
        got_ = count_ticks(list(out_.value.loop_body), {})
        in_setup = count_ticks(list(out_.value.setup_body), {})
        # ... advanced on every pass: the ticks stand unconditionally at the top level of loop(), before the user's statements
        top_ = [n_.name for n_ in out_.value.loop_body if type(n_).__name__ == "LCDTick"]
        lead_ = []
        for n_ in out_.value.loop_body:
            if type(n_).__name__ in ("LCDTick", "ButtonPoll"):
                if type(n_).__name__ == "LCDTick":
                    lead_.append(n_.name)
            else:
                break
        r.check(sorted(top_) == sorted(k_ for k_, v_ in want_.items() if v_) and lead_ == sorted(top_), f"parse/script[{label}]-ticks-unconditional-at-the-head-of-loop-sorted", (pm, pf), f"script `{label}`: top-level LCDTick nodes of loop() {top_}, leading {lead_}; expected {sorted(want_)} at the head of loop() (a tick under a condition or behind user statements does not advance the animation once per pass)")
        r.check(all(got_.get(k_, 0) == v_ for k_, v_ in want_.items()) and not in_setup, f"parse/script[{label}]-one-tick-per-animated-display", (pm, pf), f"script `{label}`: LCDTick nodes per loop() pass {got_} (in setup: {in_setup}), expected {want_}: a display advanced twice per pass runs its animations at double speed, data-dependent ticks break the rate limit's meaning")

    # ---- C18-NAMES ---------------------------------------------------------------------------
    r = cx.rule("C18-NAMES", "animation names agree between host, parser and both emitter tables; every named C++ helper exists with the arity of its call (that the host handles every name is decided by evaluation in C18-LIFE)", floor=10)
    hcls = hm.cls("LCD")
    host_names = None
    for st in hcls.body:
        if isinstance(st, ast.AnnAssign) and isinstance(st.target, ast.Name) and st.target.id == "_ANIMATION_OPTIONS":
            host_names = set(lit.ev(st.value, hm))
    st_tbl, tk_tbl = lit.table(em, "_LCD_ANIMATION_START_FUNCS"), lit.table(em, "_LCD_ANIMATION_TICK_FUNCS")
    clos = {q.split(".")[-1]: f for q, f in pm.funcs.items() if q.startswith("_parse_simple_lines.") and q.count(".") == 1}
    ra = clos.get("_resolve_animation_arg")
    if ra is None or host_names is None:
        raise AnalysisError("animation name tables not found")
    # the names the parser accepts, decided by evaluating its resolver on every candidate spelling (wherever the vocabulary
    # is kept: a local set, a module-level table, ...)
    allowed = set()
    for cand in sorted(set(host_names) | set(st_tbl) | set(tk_tbl) | {"spin", "marquee", "fade", "none"}):
        env_ = dl.Env(None)
        for k_, f_ in clos.items():
            dict.__setitem__(env_, k_, dl.Closure(f_, env_))
        dict.__setitem__(env_, "vars", {})
        dict.__setitem__(env_, "ctx", {})
        try:
            got_ = dl.Interp(pm, opaque={"ast.parse": ast.parse})._call(ra, [repr(cand)], {}, env_)
        except dl.Raised:
            continue
        except dl.Unsupported as e:
            raise AnalysisError(f"_resolve_animation_arg left the evaluable subset: {e}")
        if got_ == cand:
            allowed.add(cand)
        else:
            r.fail(f"parser/animation-name[{cand}]-stored-as-written", (pm, ra), f"_resolve_animation_arg({cand!r}) -> {got_!r}")
    r.check(host_names == set(st_tbl) == set(tk_tbl) == set(allowed or ()), "names/host=parser=emitter", (em.rel, em.const("_LCD_ANIMATION_START_FUNCS").lineno), f"host {sorted(host_names)}, parser {sorted(allowed or ())}, start {sorted(st_tbl)}, tick {sorted(tk_tbl)}")
    for k in sorted(st_tbl):
        r.check(st_tbl[k] in fns and len(fns[st_tbl[k]]["params"]) == 7, f"start[{k}]/helper-exists-arity-7", (em.rel, snippet_line), f"{st_tbl[k]}: {fns.get(st_tbl[k], {}).get('params')}")
        r.check(tk_tbl.get(k) in fns and len(fns[tk_tbl[k]]["params"]) == 3, f"tick[{k}]/helper-exists-arity-3", (em.rel, snippet_line), f"{tk_tbl.get(k)}")
        r.check(st_tbl[k].endswith("_" + k) and tk_tbl.get(k, "").endswith("_" + k), f"tables[{k}]/style-in-function-name", (em.rel, em.const("_LCD_ANIMATION_START_FUNCS").lineno), f"{k} -> {st_tbl[k]}, {tk_tbl.get(k)}")
    # ---- C18-RATE ----------------------------------------------------------------------------
    rule_rate(cx, em, hm, fns, st_tbl, tk_tbl, snippet_line)
    tick = hm.func("LCD.tick")

    # ---- C18-LIFE (replaces the spelled ACTIVE / PROGRESS rules) ---------------------------
    rule_life(cx, em, hm, fns, st_tbl, tk_tbl, snippet_line, host_names)

    # ---- C18-ROW -----------------------------------------------------------------------------
    c17.rule_dev_trunc(cx, "C18-ROW", em, only=lambda n: "_start_" in n or "_tick_" in n)
    c17.rule_no_static(cx, "C18-STATELESS", em)
    r = cx.rule("C18-START", "start records row/text/speed/loop, resets the progress state and draws the first frame on the given row", floor=8)
    for n, f in anim.items():
        if "_start_" not in n:
            continue
        asg = {show(s["e"]) for s, _c in assigns_to(f["body"], "state.")}
        need = {"state.text = text", "state.row = row", "state.speed_ms = speed_ms", "state.loop = loop", "state.last_step = 0", "state.offset = 0", "state.cycles = 0"}
        r.check(need <= asg, f"{n}/records-arguments-and-resets", (em.rel, snippet_line), f"missing {sorted(need - asg)}")
        r.check(any(callee(c) == "__redu_lcd_clear_row" and [show(a) for a in call_args(c)] == ["lcd", "cols", "row"] for c in all_calls(f["body"])), f"{n}/clears-its-row", (em.rel, snippet_line), "start must clear the animation's row")

    from . import c08
    c08.bind_rule(cx, "C18-BIND", "C18-MAP", only=("LCDAnimate",), floor=5)



def _anim_struct(em):
    """fields (type, name) and initial values of the firmware's animation record, from the helper snippet"""
    snip = lit.table(em, "LCD_HELPER_SNIPPET")
    m = re.search(r"struct __redu_lcd_animation_state \{(.*?)\n\};", snip, re.S)
    if not m:
        raise AnalysisError("struct __redu_lcd_animation_state vanished")
    body = m.group(1)
    fields = re.findall(r"^\s{2}([A-Za-z_][\w ]*?)\s+(\w+)(?:\s*=\s*([^;]+))?;", body, re.M)
    inits = dict(re.findall(r"(\w+)\(([^()]*)\)", body.split(")\n      :", 1)[1])) if ")\n      :" in body else dict(re.findall(r"(\w+)\(([^()]*)\)", body.split(":", 1)[1] if ":" in body else ""))
    enum, nxt = {}, 0
    m_ = re.search(r"enum\s+__redu_lcd_align\s*\{([^}]*)\}", snip)
    for item in [x.strip() for x in (m_.group(1) if m_ else "").split(",") if x.strip()]:
        nm, _, val = item.partition("=")
        nxt = int(val) if val.strip() else nxt
        enum[nm.strip()] = nxt
        nxt += 1

    def fresh():
        st = {"__types__": {n: t for t, n, _d in fields}}
        for t, n, d in fields:
            raw = (inits.get(n) if n in inits else (d or "0")).strip()
            try:
                st[n] = raw.strip('"') if t == "String" else 1 if raw == "true" else 0 if raw == "false" else int(raw.rstrip("ULul") or 0)
            except ValueError:
                raise AnalysisError(f"initial value `{raw}` of animation field {n} not understood")
        return st
    return fresh, enum


_LIFE_CTX = {}


def _life_task(task):
    """one (style, cols, row, loop) cell of C18-LIFE, every text length: -> [("ok",) | ("fail", key, side, message) | ("error", message)]"""
    import itertools
    from .. import ckern
    from . import c04, c17
    style, cols, row, loop = task
    em, hm, fns, st_tbl, tk_tbl = (_LIFE_CTX[k] for k in ("em", "hm", "fns", "st_tbl", "tk_tbl"))
    fresh, enum = _anim_struct(em)
    out = []
    sfn, tfn = st_tbl.get(style), tk_tbl.get(style)
    for tlen in (0, 1, 3, cols - 1, cols, cols + 1, cols + 9):
        text = "abcdefghijklmnopqrstuvwxyz0123456789"[:tlen]
        bound = 4 * (tlen + cols) + 8
        steps = (6 * (tlen + cols) + 20) if loop else bound + 6
        label = f"{style} on {cols}x2, row {row}, text of {tlen} characters, loop={loop}"
        # firmware
        if sfn in fns and tfn in fns:
            st = fresh()
            now = [50]
            k = ckern.CallKern(fns, env={"st": st, "lcdobj": 0}, consts=enum, max_steps=4_000_000)
            k.call_hooks["millis"] = lambda a_, _n=now: _n[0]
            fw_active = []
            try:
                k.ev(("call", sfn, [("var", "st"), ("var", "lcdobj"), ("lit", cols), ("lit", row), ("lit", '"' + text + '"'), ("lit", 10), ("lit", loop)]))
                for _i in range(steps):
                    now[0] += 10
                    k.ev(("call", tfn, [("var", "st"), ("var", "lcdobj"), ("lit", cols)]))
                    fw_active.append(bool(st.get("active")))
            except ckern.KernUnsupported as e:
                return [("error", f"animation helpers of style {style} left the evaluable subset: {e}")]
            d = c17.Display(cols, 2, ["." * cols, "." * cols])
            d.feed(k.events)
            if d.outside or d.rows_text()[1 - row] != "." * cols:
                out.append(("fail", f"life[{style}]/firmware-frame-inside-row", "fw", f"{label}: the firmware " + (f"prints outside the display at {d.outside[:2]}" if d.outside else "draws into the other row")))
            elif any(nm_ in ("delay", "delayMicroseconds", "pulseIn") for nm_, _a in k.events):
                out.append(("fail", f"life[{style}]/firmware-never-waits", "fw", f"{label}: the firmware helpers call a blocking wait"))
            elif loop and not all(fw_active):
                out.append(("fail", f"life[{style}]/firmware-looping-never-finishes", "fw", f"{label}: the looping firmware animation is inactive after {fw_active.index(False) + 1} steps"))
            elif not loop and (any(fw_active[bound:]) or any(b_ and not a_ for a_, b_ in zip(fw_active, fw_active[1:]))):
                out.append(("fail", f"life[{style}]/firmware-finishes-within-linear-bound", "fw", f"{label}: the firmware animation is {'still active after ' + str(bound) + ' steps' if any(fw_active[bound:]) else 're-activated after it finished'}"))
            else:
                out.append(("ok",))
        # host
        o = c04.host_object(hm, "LCD", rs=12, en=11, d4=5, d5=4, d6=3, d7=2, cols=cols, rows=2)
        before_other = o.buffer[1 - row]
        try:
            res = dl.Interp(hm).call(hm.func("LCD.animate"), [o, style, row, text], {"speed_ms": 10, "loop": loop})
            if res.kind != "return":
                out.append(("fail", f"life[{style}]/host-animate-accepts", "host-animate", f"{label}: host animate() raises {res.value}"))
                continue
            host_active, t_, bad = [], 50, None
            for _i in range(steps):
                t_ += 10
                res = dl.Interp(hm).call(hm.func("LCD.tick"), [o, t_])
                if res.kind != "return":
                    bad = f"host tick() raises {res.value} at step {_i + 1}"
                    break
                if [len(x) for x in o.buffer] != [cols, cols] or o.buffer[1 - row] != before_other:
                    bad = f"after step {_i + 1} the host buffer is {o.buffer}: rows must keep {cols} cells and row {1 - row} must stay untouched"
                    break
                host_active.append(any(getattr(v_, "active", False) for v_ in o.animations.values()))
        except dl.Unsupported as e:
            return [("error", f"host animate/tick left the evaluable subset: {e}")]
        if bad:
            out.append(("fail", f"life[{style}]/host-frame-inside-row", "host", f"{label}: {bad}"))
        elif loop and not all(host_active):
            out.append(("fail", f"life[{style}]/host-looping-never-finishes", "host", f"{label}: the looping host animation is inactive after {host_active.index(False) + 1} steps"))
        elif not loop and (any(host_active[bound:]) or any(b_ and not a_ for a_, b_ in zip(host_active, host_active[1:]))):
            out.append(("fail", f"life[{style}]/host-finishes-within-linear-bound", "host", f"{label}: the host animation is {'still active after ' + str(bound) + ' steps' if any(host_active[bound:]) else 're-activated after it finished'}"))
        else:
            out.append(("ok",))
    return out


def rule_life(cx, em, hm, fns, st_tbl, tk_tbl, snippet_line, host_names):
    """life cycle decided by evaluation: firmware helpers (C semantics, cell model of the display) and the host LCD (checker's
    interpreter) run every style on texts from empty to longer than the row, widths 8/16, both rows, looping or not, one
    step per tick (cells of the grid are evaluated in worker processes)"""
    import concurrent.futures as cf
    import itertools
    import multiprocessing
    r = cx.rule("C18-LIFE", "for every style x width 8/16 x row x text length (0 .. wider than the row) x loop, stepping once per tick: every frame stays in the animation's row and inside the display width (firmware: cell model; host: buffer rows keep their width, the other row is untouched); a non-looping animation is inactive after at most 4*(len+cols)+8 steps and stays inactive, a looping one is still active after 6*(len+cols)+20 steps; the host accepts every animation name of the table and never raises", floor=300, exhaustive=True)
    _LIFE_CTX.update({"em": em, "hm": hm, "fns": fns, "st_tbl": st_tbl, "tk_tbl": tk_tbl})
    tasks = [(style, cols, row, loop) for style in sorted(set(st_tbl) | set(host_names)) for cols, row, loop in itertools.product((8, 16), (0, 1), (True, False))]
    try:
        with cf.ProcessPoolExecutor(max_workers=__import__('sa.core', fromlist=['workers']).workers(8), mp_context=multiprocessing.get_context("fork")) as ex:
            parts = list(ex.map(_life_task, tasks))
    except (OSError, ValueError, cf.process.BrokenProcessPool):
        parts = [_life_task(t_) for t_ in tasks]
    n_bad = 0
    for part in parts:
        for item in part:
            if item[0] == "error":
                raise AnalysisError(item[1])
            if item[0] == "ok":
                r.ok(None)
                continue
            _k, key, side, msg = item
            n_bad += 1
            if n_bad <= 4:
                where = (em.rel, snippet_line) if side == "fw" else (hm, hm.func("LCD.animate" if side == "host-animate" else "LCD.tick"))
                r.fail(key, where, msg)
            else:
                r.stat.obligations += 1
                r.stat.failed += 1
    return r


def rule_rate(cx, em, hm, fns, st_tbl, tk_tbl, snippet_line):
    """rate limiting decided by evaluation: the firmware's start/tick helpers (C semantics, scripted millis()) and the host's
    animate()/tick() (checker's interpreter) are driven through the same tick schedules - on time, early, late-then-quick,
    dense - for every style, two texts, looping and not, three speeds"""
    from .. import ckern
    from . import c04
    r = cx.rule("C18-RATE", "for every style x text x speed (0/100/250 ms) x loop x tick schedule: a tick changes the animation (a step) only if at least speed_ms have passed since the previous step and always if they have (while active); host and firmware step on exactly the same ticks and agree on when the animation ends; an early tick changes nothing at all", floor=60, exhaustive=True)
    fresh, enum = _anim_struct(em)
    sched = {
        100: ([100, 150, 199, 200, 201, 299, 300, 301, 450, 460, 559, 560, 1000, 1001, 1100], [100, 350, 360, 370, 449, 450, 451, 1000, 1005, 1010, 1099, 1100, 1199, 1200], list(range(100, 800, 37))),
        250: ([500, 600, 749, 750, 751, 999, 1000, 1001, 1600, 1610, 1849, 1850, 3000], [500, 1400, 1410, 1420, 1649, 1650, 1651, 3000, 3005, 3249, 3250]),
        0: ([100, 101, 102, 103, 110, 111],),
    }
    COLS = 8
    n_bad = 0
    for style in sorted(st_tbl):
        sfn, tfn = st_tbl[style], tk_tbl.get(style)
        if sfn not in fns or tfn not in fns:
            raise AnalysisError(f"helpers of style {style} not found in the snippet")
        for text in ("hello", "a text longer than the row"):
            for speed, schedules in sched.items():
                for loop in (True, False):
                    for times in schedules:
                        # firmware
                        st = fresh()
                        now = [50]
                        k = ckern.CallKern(fns, env={"st": st, "lcdobj": 0}, consts=enum, max_steps=2_000_000)
                        k.call_hooks["millis"] = lambda a_, _n=now: _n[0]
                        try:
                            k.ev(("call", sfn, [("var", "st"), ("var", "lcdobj"), ("lit", COLS), ("lit", 0), ("lit", '"' + text + '"'), ("lit", speed), ("lit", loop)]))
                            fw = []
                            for t_ in times:
                                now[0] = t_
                                before = {a_: b_ for a_, b_ in st.items() if a_ != "__types__"}
                                n0 = sum(1 for ev_ in k.events if ev_[0] not in ("millis",))
                                k.ev(("call", tfn, [("var", "st"), ("var", "lcdobj"), ("lit", COLS)]))
                                drew = sum(1 for ev_ in k.events if ev_[0] not in ("millis",)) > n0
                                fw.append((before != {a_: b_ for a_, b_ in st.items() if a_ != "__types__"} or drew, bool(st.get("active"))))
                        except ckern.KernUnsupported as e:
                            raise AnalysisError(f"animation helpers of style {style} left the evaluable subset: {e}")
                        # host
                        o = c04.host_object(hm, "LCD", rs=12, en=11, d4=5, d5=4, d6=3, d7=2, cols=COLS, rows=2)
                        try:
                            out = dl.Interp(hm).call(hm.func("LCD.animate"), [o, style, 0, text], {"speed_ms": speed, "loop": loop})
                            if out.kind != "return":
                                raise AnalysisError(f"host animate({style!r}) raises {out.value}")
                            host = []
                            for t_ in times:
                                snap = lambda: (tuple(o.buffer), tuple(sorted((k_, tuple(sorted((a_, repr(b_)) for a_, b_ in vars(v_).items() if not a_.startswith("__dl_")))) for k_, v_ in o.animations.items())))
                                b4 = snap()
                                out = dl.Interp(hm).call(hm.func("LCD.tick"), [o, t_])
                                if out.kind != "return":
                                    raise AnalysisError(f"host tick raises {out.value}")
                                host.append((snap() != b4, any(getattr(v_, "active", False) for v_ in o.animations.values())))
                        except dl.Unsupported as e:
                            raise AnalysisError(f"host animate/tick left the evaluable subset: {e}")
                        why = None
                        for side, trace in (("firmware", fw), ("host", host)):
                            last = None
                            for t_, (stepped, active) in zip(times, trace):
                                due = last is None or t_ - last >= speed
                                was_active = True if last is None else prev_active
                                if stepped and not due:
                                    why = f"{side}: tick at {t_} ms changes the animation only {t_ - last} ms after the step at {last} ms (speed {speed} ms)"
                                elif not stepped and due and was_active and speed > 0 and last is not None:
                                    why = f"{side}: tick at {t_} ms does nothing although {t_ - last} ms have passed since the step at {last} ms (speed {speed} ms) and the animation is active"
                                if stepped:
                                    last = t_
                                prev_active = active
                                if why:
                                    break
                            if why:
                                break
                        if why is None and [x[0] for x in fw] != [x[0] for x in host]:
                            i_ = next(i for i, (a_, b_) in enumerate(zip(fw, host)) if a_[0] != b_[0])
                            why = f"at the tick at {times[i_]} ms the firmware {'steps' if fw[i_][0] else 'does not step'} and the host {'steps' if host[i_][0] else 'does not step'}"
                        if why is None and [x[1] for x in fw] != [x[1] for x in host]:
                            i_ = next(i for i, (a_, b_) in enumerate(zip(fw, host)) if a_[1] != b_[1])
                            why = f"after the tick at {times[i_]} ms the firmware animation is {'active' if fw[i_][1] else 'finished'} and the host's is {'active' if host[i_][1] else 'finished'}"
                        if why is None:
                            r.ok(None)
                        else:
                            n_bad += 1
                            if n_bad <= 3:
                                side_key = "host" if why.startswith("host") else "firmware" if why.startswith("firmware") else "host=firmware"
                                r.fail(f"rate[{style}]/{side_key}", (em.rel, snippet_line) if side_key != "host" else (hm, hm.func("LCD.tick")), f"{style} {text!r}, speed {speed} ms, loop={loop}, ticks at {times[:8]}...: {why}", detail={"style": style, "text": text, "speed": speed, "loop": loop, "times": times})
                            else:
                                r.stat.obligations += 1
                                r.stat.failed += 1
    return r

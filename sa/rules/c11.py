"""C11 - transpiling never runs user code, has no side effects, fails only cleanly."""
from __future__ import annotations

import ast

from .. import lit
from ..core import AnalysisError
from ..src import call_name, dotted, mod, norm, stmt_key, walk_local
from . import c10

TRANSPILE = ["transpile/parser.py", "transpile/emitter.py", "transpile/ast.py"]
ALLOWED_IMPORTS = {"ast", "operator", "re", "typing", "dataclasses", "__future__"}
FORBIDDEN_CALLS = {
    "eval", "exec", "compile", "__import__", "open", "input", "globals", "locals", "vars", "setattr", "delattr",
    "breakpoint", "exit", "quit", "help", "memoryview", "importlib.import_module", "import_module", "runpy.run_path",
    "runpy.run_module", "execfile", "os.system", "os.popen", "pickle.loads", "marshal.loads",
}
FORBIDDEN_ROOTS = {"os", "sys", "subprocess", "socket", "pathlib", "shutil", "importlib", "runpy", "ctypes", "pickle",
                   "marshal", "tempfile", "urllib", "http", "requests", "io", "builtins", "inspect", "code", "codeop"}
SAFE_EV_BUILTINS = {"isinstance", "type", "zip", "str", "len", "abs", "max", "min", "int", "float", "bool", "tuple",
                    "list", "ValueError", "TypeError", "any", "all", "round"}
SAFE_OPERATOR = {"add", "sub", "mul", "truediv", "floordiv", "mod", "pow", "and_", "or_", "xor", "lshift", "rshift",
                 "eq", "ne", "lt", "le", "gt", "ge", "neg", "pos", "not_", "invert"}
SAFE_VALUE_METHODS = {"append", "extend", "join", "get", "bit_length", "is_integer", "lower", "upper", "strip", "items",
                      "keys", "values", "startswith", "endswith", "count", "index"}
FORBIDDEN_EV_ARMS = {"Attribute", "Lambda", "Await", "Yield", "YieldFrom", "GeneratorExp", "ListComp", "SetComp",
                     "DictComp", "Starred", "NamedExpr"}
UNBOUNDED_OPS = {"Pow": "pow", "LShift": "lshift"}


def run(cx):
    mods = [mod(f) for f in TRANSPILE]
    pm = mods[0]
    init = mod("__init__.py")
    for m in mods + [init]:
        cx.consulted(m)
    cx.explanation = (
        "who-may-import / who-may-call rules over every function of transpile/ (all of them are reachable from "
        "parse()/emit()), allow-list analysis of the constant evaluator's arms and tables, raise-type and "
        "exception-guard discipline, module-state inventory; termination time and implicit exception types are not decided"
    )
    # ---- C11-IMPORTS -------------------------------------------------------------------------
    r = cx.rule("C11-IMPORTS", "transpile/*.py import only ast, operator, re, typing, dataclasses, __future__ and siblings", floor=5)
    for m in mods:
        for n in ast.walk(m.tree):
            if isinstance(n, ast.Import):
                for a in n.names:
                    root = a.name.split(".")[0]
                    r.check(root in ALLOWED_IMPORTS, f"{m.rel.split('/')[-1]}/import[{a.name}]", (m, n), f"transpiler module imports {a.name}")
            elif isinstance(n, ast.ImportFrom):
                if n.level and n.level > 0:
                    r.ok(f"from .{n.module or ''}")
                    continue
                root = (n.module or "").split(".")[0]
                r.check(root in ALLOWED_IMPORTS or root == "Reduino", f"{m.rel.split('/')[-1]}/import[{n.module}]", (m, n), f"transpiler module imports from {n.module}")

    # ---- C11-FORBIDDEN -----------------------------------------------------------------------
    r = cx.rule("C11-FORBIDDEN", "no eval/exec/compile/__import__/open/getattr-with-computed-name/dunder traversal/os|sys|subprocess use anywhere in the transpiler", floor=500)
    for m in mods:
        for n in ast.walk(m.tree):
            if isinstance(n, ast.Call):
                cn = call_name(n) or ""
                fnq = m.qualname_of(m.enclosing_func(n)) if m.enclosing_func(n) is not None else "<module>"
                if cn in FORBIDDEN_CALLS or cn.split(".")[0] in FORBIDDEN_ROOTS:
                    r.fail(f"{fnq}/call[{cn}]", (m, n), f"`{stmt_key(n)}`: the transpiler must not call {cn}")
                elif cn in ("getattr", "hasattr") and (len(n.args) < 2 or not (isinstance(n.args[1], ast.Constant) and isinstance(n.args[1].value, str) and not n.args[1].value.startswith("__"))):
                    r.fail(f"{fnq}/getattr-computed", (m, n), f"`{stmt_key(n)}`: attribute name is not a plain literal")
                else:
                    r.ok(None)
            elif isinstance(n, ast.Attribute):
                if n.attr.startswith("__") and n.attr.endswith("__") and n.attr not in ("__name__", "__dict__", "__class__"):
                    r.fail(f"dunder[{n.attr}]", (m, n), f"dunder attribute access {norm(n)}")
                elif n.attr == "__class__" or n.attr == "__dict__":
                    # type(node).__name__ is the only idiom in use; __class__/__dict__ traversal is not
                    r.fail(f"dunder[{n.attr}]", (m, n), f"dunder attribute access {norm(n)}")
    # target() hands the script text to parse() only
    tgt = init.func("target")
    for n in walk_local(tgt):
        if isinstance(n, ast.Call):
            cn = call_name(n) or ""
            bad = cn in FORBIDDEN_CALLS - {"open"} or cn.split(".")[0] in ("runpy", "importlib")
            r.check(not bad, f"target/call[{cn}]", (init, n), f"target() must only parse the script text, found {cn}()", sample=None)

    # ---- C11-EVAL-WL -------------------------------------------------------------------------
    r = cx.rule("C11-EVAL-WL", "_eval_const evaluates only constants, names bound in env, arithmetic via operator.*, safe casts and len/abs/min/max: every callee and every dispatched node class is on the allow-list", floor=30)
    ev = pm.func("_eval_const")
    local_defs = {f.name for f in ast.walk(ev) if isinstance(f, ast.FunctionDef)}
    tables_ok = {}
    for n in ast.walk(ev):
        if isinstance(n, ast.Dict) and n.keys and all(isinstance(k, ast.Attribute) and dotted(k).startswith("ast.") for k in n.keys):
            for k, v in zip(n.keys, n.values):
                dn = dotted(v) or ""
                okv = dn.split(".")[0] in ("op", "operator") and dn.split(".")[-1] in SAFE_OPERATOR
                r.check(okv, f"_eval_const/table[{dotted(k)}]->{dn}", (pm, v), f"operator table maps {dotted(k)} to {dn}, not a pure operator.* function")
    casts = lit.table(pm, "_SAFE_CASTS")
    for k, v in casts.items():
        r.check(isinstance(v, lit.Ref) and v.name in ("int", "float", "str", "bool") and v.name == k, f"_SAFE_CASTS[{k}]", (pm.rel, pm.const("_SAFE_CASTS").lineno), f"_SAFE_CASTS[{k!r}] = {v!r}")
    evq = {}
    for n in ast.walk(ev):
        if isinstance(n, ast.Call):
            f = n.func
            ok = False
            why = norm(f)
            if isinstance(f, ast.Name):
                if f.id in local_defs or f.id in SAFE_EV_BUILTINS:
                    ok = True
                elif f.id in ("func",):  # value looked up from the compare table, checked above
                    ok = True
            elif isinstance(f, ast.Attribute):
                dn = dotted(f) or ""
                if dn in ("ast.parse",):
                    ok = True
                elif f.attr in SAFE_VALUE_METHODS:
                    # methods of the evaluator's own value types (int/float/str/list); str.format is
                    # deliberately absent (format-string attribute traversal)
                    ok = True
            elif isinstance(f, ast.Subscript):
                base = norm(f.value)
                ok = base in ("_SAFE_CASTS", "ops")
            r.check(ok, f"_eval_const/callee[{why}]", (pm, n), f"`{stmt_key(n)}`: callee {why} is not on the evaluator's allow-list")
        elif isinstance(n, ast.Call) is False and isinstance(n, ast.Attribute) and dotted(n) and dotted(n).startswith("ast.") and n.attr in FORBIDDEN_EV_ARMS:
            r.fail(f"_eval_const/arm[{n.attr}]", (pm, n), f"the evaluator dispatches on ast.{n.attr}: user attribute access / lambdas / comprehensions must not be evaluated")
    # ast.Call arms must pin the callee to a Name from the safe set
    for n in ast.walk(ev):
        if isinstance(n, ast.If):
            t = norm(n.test)
            if "isinstance(n, ast.Call)" in t:
                pins = "isinstance(n.func, ast.Name)" in t and ("n.func.id in _SAFE_CASTS" in t or any(f"n.func.id == '{b}'" in t for b in ("len", "abs", "max", "min")))
                r.check(pins, f"_eval_const/call-arm[{t[:60]}]", (pm, n), "a Call arm of the evaluator does not pin the callee to a safe builtin name")
    # names resolve only through env
    for n in ast.walk(ev):
        if isinstance(n, ast.If) and "isinstance(n, ast.Name)" in norm(n.test):
            bad = [c for c in ast.walk(n) if isinstance(c, ast.Call) and (call_name(c) or "") in ("getattr", "globals", "eval", "vars", "locals")]
            r.check(not bad, "_eval_const/name-arm", (pm, n), "names must be resolved through env only")
    # the other evaluators in use
    for n in ast.walk(pm.tree):
        if isinstance(n, ast.Call) and (call_name(n) or "").startswith("ast.") and call_name(n) not in ("ast.parse", "ast.literal_eval", "ast.unparse", "ast.iter_child_nodes", "ast.walk", "ast.BinOp", "ast.Name", "ast.Load", "ast.dump", "ast.get_source_segment", "ast.Constant", "ast.copy_location", "ast.fix_missing_locations"):
            r.fail(f"ast-call[{call_name(n)}]", (pm, n), f"unexpected ast.* call {call_name(n)}")

    # ---- C11-RAISE ---------------------------------------------------------------------------
    r = cx.rule("C11-RAISE", "every explicit raise in transpile/ constructs ValueError (or re-raises)", floor=100)
    for m in mods:
        for n in ast.walk(m.tree):
            if isinstance(n, ast.Raise):
                if n.exc is None:
                    r.ok("re-raise")
                    continue
                t = n.exc.func if isinstance(n.exc, ast.Call) else n.exc
                fnq = m.qualname_of(m.enclosing_func(n)) if m.enclosing_func(n) is not None else "<module>"
                r.check(dotted(t) == "ValueError", f"{fnq}/raise[{dotted(t)}]", (m, n), f"`{stmt_key(n)}`: internal errors must surface as ValueError")

    # ---- C11-GUARD ---------------------------------------------------------------------------
    r = cx.rule("C11-GUARD", "every call of the constant evaluator / literal_eval / int()-of-evaluated-value sits in a try whose handler catches Exception (arithmetic errors such as ZeroDivisionError/OverflowError must not escape parse())", floor=15)
    for n in ast.walk(pm.tree):
        if isinstance(n, ast.Call) and call_name(n) in ("_eval_const", "ast.literal_eval"):
            fn = pm.enclosing_func(n)
            if fn is not None and fn.name in ("_eval_const",):
                continue
            fnq = pm.qualname_of(fn) if fn is not None else "<module>"
            guarded = False
            node = n
            for anc in pm.ancestors(n):
                if isinstance(anc, ast.Try):
                    in_body = any(node is b or any(node is x for x in ast.walk(b)) for b in anc.body)
                    if in_body:
                        for h in anc.handlers:
                            if h.type is None or dotted(h.type) in ("Exception", "BaseException"):
                                guarded = True
                if isinstance(anc, (ast.FunctionDef, ast.AsyncFunctionDef)):
                    break
            # key by function + normalised argument so that distinct sites stay distinct
            r.check(guarded, f"{fnq}/{call_name(n)}({norm(n.args[0]) if n.args else ''})-unguarded", (pm, n), f"`{stmt_key(n)}` is not inside a try/except Exception: ZeroDivisionError/OverflowError/TypeError from constant folding would escape as an internal error", sample=f"{fnq}: {call_name(n)}({norm(n.args[0]) if n.args else ''})")

    # ---- C11-COST ----------------------------------------------------------------------------
    r = cx.rule("C11-COST", "operators whose cost is unbounded in the size of literal operands (**, <<) are guarded by a magnitude check before being applied at transpile time", floor=2)
    ab = pm.funcs.get("_eval_const._apply_bin")
    if ab is None:
        raise AnalysisError("_eval_const._apply_bin vanished")
    tbl = [n for n in ast.walk(ab) if isinstance(n, ast.Dict) and n.keys and all(isinstance(k, ast.Attribute) for k in n.keys)]
    if not tbl:
        raise AnalysisError("_apply_bin operator table not found")
    keys = {k.attr: v for k, v in zip(tbl[0].keys, tbl[0].values)}
    src_txt = norm(ab)
    for opname, fn_name in UNBOUNDED_OPS.items():
        if opname not in keys:
            r.ok(f"{opname} not folded")
            continue
        guarded = any(isinstance(n, ast.If) and f"ast.{opname}" in norm(n.test) and any(isinstance(x, ast.Raise) for x in ast.walk(n)) for n in ast.walk(ab))
        r.check(guarded, f"_eval_const._apply_bin[{opname}]-unbounded", (pm, keys[opname]), f"ast.{opname} is folded with operator.{fn_name} on unbounded literal operands (e.g. sleep(10**10**8) never returns)")

    # ---- C11-STATE ---------------------------------------------------------------------------
    c10.rule_global_state(cx, "C11-STATE", mods + [init])

"""C11 - transpiling never runs user code, has no side effects, fails only cleanly."""
from __future__ import annotations

import ast
import re

from .. import dl, lit
from ..core import AnalysisError
from ..src import Locals, call_name, dotted, mod, norm, stmt_key, walk_local
from . import c10

TRANSPILE = ["transpile/parser.py", "transpile/emitter.py", "transpile/ast.py"]
ALLOWED_IMPORTS = {"ast", "operator", "re", "typing", "dataclasses", "__future__"}
FORBIDDEN_CALLS = {
    "eval", "exec", "compile", "__import__", "open", "input", "globals", "locals", "vars", "setattr", "delattr",
    "breakpoint", "exit", "quit", "help", "memoryview", "importlib.import_module", "import_module", "runpy.run_path",
    "runpy.run_module", "execfile", "os.system", "os.popen", "pickle.loads", "marshal.loads",
}
FORBIDDEN_ROOTS = {"os", "sys", "subprocess", "socket", "pathlib", "shutil", "importlib", "runpy", "ctypes", "pickle",
                   "marshal", "tempfile", "urllib", "http", "requests", "io", "builtins", "inspect", "code", "codeop"}
SAFE_EV_BUILTINS = {"isinstance", "type", "zip", "str", "len", "abs", "max", "min", "int", "float", "bool", "tuple",
                    "list", "ValueError", "TypeError", "any", "all", "round"}
SAFE_OPERATOR = {"add", "sub", "mul", "truediv", "floordiv", "mod", "pow", "and_", "or_", "xor", "lshift", "rshift",
                 "eq", "ne", "lt", "le", "gt", "ge", "neg", "pos", "not_", "invert"}
SAFE_VALUE_METHODS = {"append", "extend", "join", "get", "bit_length", "is_integer", "lower", "upper", "strip", "items",
                      "keys", "values", "startswith", "endswith", "count", "index"}
FORBIDDEN_EV_ARMS = {"Attribute", "Lambda", "Await", "Yield", "YieldFrom", "GeneratorExp", "ListComp", "SetComp",
                     "DictComp", "Starred", "NamedExpr"}
UNBOUNDED_OPS = {"Pow": "pow", "LShift": "lshift"}


def _stmt_lists(node):
    out = []
    for f_ in ("body", "orelse", "finalbody"):
        b = getattr(node, f_, None)
        if isinstance(b, list) and b and isinstance(b[0], ast.stmt):
            out.append(b)
    for h in getattr(node, "handlers", []) or []:
        out.append(h.body)
    return out


def _plain_attr_names(m, arg) -> bool:
    """the attribute-name argument of getattr/hasattr is a plain (non-dunder) string literal, or a variable bound only by a
    for/comprehension over a literal tuple/list of such literals (or of tuples holding them at the variable's position)"""
    def plain(v):
        return isinstance(v, ast.Constant) and isinstance(v.value, str) and v.value.isidentifier() and not v.value.startswith("__")
    if plain(arg):
        return True
    if not isinstance(arg, ast.Name):
        return False
    binders = []
    for anc in m.ancestors(arg):
        gens = anc.generators if isinstance(anc, (ast.ListComp, ast.SetComp, ast.GeneratorExp, ast.DictComp)) else []
        for g in gens:
            binders.append((g.target, g.iter))
        if isinstance(anc, ast.For):
            binders.append((anc.target, anc.iter))
        if isinstance(anc, (ast.FunctionDef, ast.Lambda)):
            break
    fn = m.enclosing_func(arg)
    for tgt, it in binders:
        pos = None
        if isinstance(tgt, ast.Name) and tgt.id == arg.id:
            pos = ()
        elif isinstance(tgt, ast.Tuple):
            for i_, e_ in enumerate(tgt.elts):
                if isinstance(e_, ast.Name) and e_.id == arg.id:
                    pos = (i_,)
        if pos is None:
            continue
        if not isinstance(it, (ast.Tuple, ast.List)) or not it.elts:
            return False
        for e_ in it.elts:
            v = e_
            if pos:
                if not isinstance(e_, ast.Tuple) or len(e_.elts) <= pos[0]:
                    return False
                v = e_.elts[pos[0]]
            if not plain(v):
                return False
        # no other assignment to the name in the function
        others = [x for x in ast.walk(fn if fn is not None else m.tree) if isinstance(x, (ast.Assign, ast.AugAssign, ast.AnnAssign)) and any(isinstance(t_, ast.Name) and t_.id == arg.id for t_ in (x.targets if isinstance(x, ast.Assign) else [x.target]))]
        return not others
    return False


def _has_module_level_updates(m, name) -> bool:
    """is the module-level table completed by statements after its assignment (`T.update(...)`, `T[k] = v`)?"""
    for st in m.tree.body:
        if isinstance(st, ast.Expr) and isinstance(st.value, ast.Call) and isinstance(st.value.func, ast.Attribute) and isinstance(st.value.func.value, ast.Name) and st.value.func.value.id == name:
            return True
        if isinstance(st, ast.Assign) and any(isinstance(t, ast.Subscript) and isinstance(t.value, ast.Name) and t.value.id == name for t in st.targets):
            return True
        if isinstance(st, ast.AugAssign) and isinstance(st.target, ast.Name) and st.target.id == name:
            return True
    return False


def run(cx):
    mods = [mod(f) for f in TRANSPILE]
    pm = mods[0]
    init = mod("__init__.py")
    for m in mods + [init]:
        cx.consulted(m)
    cx.explanation = (
        "who-may-import / who-may-call rules over every function of transpile/; allow-list analysis of the constant evaluator's scope (helpers and dispatch tables followed, computed tables judged by their evaluated values) plus hostile expressions refused by evaluation; raise-type and exception-guard discipline; resolvers on unrepresentable literals, tuple arity and the cost guard (powers/shifts up to 10**10**8 with recording operators) by evaluation; regex structure analysis; module-state inventory. Termination time in general and implicit exception types elsewhere are not decided."
    )
    # ---- C11-IMPORTS -------------------------------------------------------------------------
    r = cx.rule("C11-IMPORTS", "transpile/*.py import nothing that reaches the file system, processes, the network, the import machinery or the interpreter's internals: only standard-library modules outside that deny-list, and siblings", floor=5)
    import sys as _sys
    stdlib_ok = (set(getattr(_sys, "stdlib_module_names", ())) | ALLOWED_IMPORTS) - FORBIDDEN_ROOTS - {"multiprocessing", "threading", "asyncio", "concurrent", "ssl", "ftplib", "smtplib", "webbrowser", "pty", "signal", "glob", "fileinput", "sqlite3", "shelve", "dbm", "zipimport", "pkgutil", "site", "atexit", "gc", "zipfile", "tarfile", "socketserver", "xmlrpc", "mmap", "fcntl", "resource", "select", "selectors", "venv", "ensurepip", "distutils", "imp", "trace", "pdb", "cProfile", "profile", "timeit", "getpass", "os"}
    for m in mods:
        for n in ast.walk(m.tree):
            if isinstance(n, ast.Import):
                for a in n.names:
                    root = a.name.split(".")[0]
                    r.check(root in stdlib_ok, f"{m.rel.split('/')[-1]}/import[{a.name}]", (m, n), f"transpiler module imports {a.name}")
            elif isinstance(n, ast.ImportFrom):
                if n.level and n.level > 0:
                    r.ok(f"from .{n.module or ''}")
                    continue
                root = (n.module or "").split(".")[0]
                r.check(root in stdlib_ok or root == "Reduino", f"{m.rel.split('/')[-1]}/import[{n.module}]", (m, n), f"transpiler module imports from {n.module}")

    # ---- C11-FORBIDDEN -----------------------------------------------------------------------
    r = cx.rule("C11-FORBIDDEN", "no eval/exec/compile/__import__/open/getattr-with-computed-name/dunder traversal/os|sys|subprocess use anywhere in the transpiler", floor=500)
    for m in mods:
        for n in ast.walk(m.tree):
            if isinstance(n, ast.Call):
                cn = call_name(n) or ""
                fnq = m.qualname_of(m.enclosing_func(n)) if m.enclosing_func(n) is not None else "<module>"
                if cn in FORBIDDEN_CALLS or cn.split(".")[0] in FORBIDDEN_ROOTS:
                    r.fail(f"{fnq}/call[{cn}]", (m, n), f"`{stmt_key(n)}`: the transpiler must not call {cn}")
                elif cn in ("getattr", "hasattr") and (len(n.args) < 2 or not _plain_attr_names(m, n.args[1])):
                    r.fail(f"{fnq}/getattr-computed", (m, n), f"`{stmt_key(n)}`: attribute name is not a plain literal (nor a loop variable over a literal table of plain names)")
                else:
                    r.ok(None)
            elif isinstance(n, ast.Attribute):
                if n.attr.startswith("__") and n.attr.endswith("__") and n.attr not in ("__name__", "__dict__", "__class__"):
                    r.fail(f"dunder[{n.attr}]", (m, n), f"dunder attribute access {norm(n)}")
                elif n.attr == "__class__" or n.attr == "__dict__":
                    # type(node).__name__ is the only idiom in use; __class__/__dict__ traversal is not
                    r.fail(f"dunder[{n.attr}]", (m, n), f"dunder attribute access {norm(n)}")
    # the package root (target() and everything beside it): the script text is handed to parse() only - nothing there may
    # import, locate-by-import or run user modules
    for n in ast.walk(init.tree):
        if isinstance(n, (ast.Import, ast.ImportFrom)):
            roots = [a.name.split(".")[0] for a in n.names] if isinstance(n, ast.Import) else ([] if n.level else [(n.module or "").split(".")[0]])
            for root in roots:
                r.check(root in {"pathlib", "sys", "tempfile", "typing", "__future__", "Reduino", "re", "ast", "operator", "dataclasses", "functools", "itertools", "collections", "enum", "textwrap"}, f"__init__/import[{root}]", (init, n), f"the package root imports {root}: target() needs only pathlib/sys/tempfile (importlib/runpy/subprocess machinery can execute the user's modules)", sample=None)
    tgt = init.func("target")
    for n in ast.walk(init.tree):
        if isinstance(n, ast.Call):
            cn = call_name(n) or ""
            bad = cn in FORBIDDEN_CALLS - {"open"} or cn.split(".")[0] in ("runpy", "importlib")
            r.check(not bad, f"__init__/call[{cn}]", (init, n), f"target() and its helpers must only parse the script text, found {cn}()", sample=None)

    # ---- C11-EVAL-WL -------------------------------------------------------------------------
    r = cx.rule("C11-EVAL-WL", "_eval_const evaluates only constants, names bound in env, arithmetic via operator.*, safe casts and len/abs/min/max: every callee and every dispatched node class is on the allow-list", floor=30)
    ev = pm.func("_eval_const")

    def _identity_lambda(v_):
        return isinstance(v_, ast.Lambda) and len(v_.args.args) == 1 and isinstance(v_.body, ast.Name) and v_.body.id == v_.args.args[0].arg

    # the evaluator's scope: _eval_const, the module-level helpers it calls by name (transitively) and the functions stored in
    # the module-level dispatch tables it indexes; a table is safe when every value is a pure operator.* function, the
    # identity, a safe builtin, or a function of the scope (which is then checked like the evaluator itself)
    scope = {"_eval_const": ev}
    safe_tables = {}
    value_tables = {}
    closure_envs = {}
    import operator as _opm
    SAFE_PY = {int, float, str, bool, len, abs, max, min, round, tuple, list}

    def _holds_callable(v_):
        return callable(v_) or isinstance(v_, (dl.Closure, ast.FunctionDef)) or (isinstance(v_, (tuple, list)) and any(_holds_callable(e_) for e_ in v_))

    def _show_value(v_):
        if isinstance(v_, dl.Closure):
            return f"<closure {v_.fn.name}>"
        if isinstance(v_, ast.FunctionDef):
            return v_.name
        if isinstance(v_, (tuple, list)):
            return "(" + ", ".join(_show_value(e_) for e_ in v_) + ")"
        return getattr(v_, "__name__", repr(v_))

    def _safe_value(v_):
        """(is the value a safe callable / plain datum?, [(function node, closure env)] to be scanned as part of the scope)"""
        if v_ is None or isinstance(v_, (bool, int, float, str)):
            return True, []
        if isinstance(v_, lit.Ref):
            nm_ = v_.name
            return (nm_ in (SAFE_EV_BUILTINS - {"type", "isinstance"}) or (nm_.split(".")[0] in ("op", "operator") and nm_.split(".")[-1] in SAFE_OPERATOR)), []
        if isinstance(v_, (tuple, list)):
            oks, cl = True, []
            for e_ in v_:
                o_, c_ = _safe_value(e_)
                oks = oks and o_
                cl += c_
            return oks, cl
        if isinstance(v_, dl.Closure):
            return True, [(v_.fn, v_.env)]
        if isinstance(v_, ast.FunctionDef):
            return True, [(v_, None)]
        if getattr(v_, "_dl_lambda", False):
            nd = getattr(v_, "_dl_node", None)
            return (nd is not None and _identity_lambda(nd)), []
        if v_ in SAFE_PY:
            return True, []
        if getattr(_opm, getattr(v_, "__name__", ""), None) is v_ and v_.__name__ in SAFE_OPERATOR:
            return True, []
        return False, []

    work = [ev]
    module_fns = {q: f for q, f in pm.funcs.items() if "." not in q}

    def table_value_ok(v_):
        dn = dotted(v_) or ""
        if dn.split(".")[0] in ("op", "operator") and dn.split(".")[-1] in SAFE_OPERATOR:
            return True
        if _identity_lambda(v_):
            return True
        if isinstance(v_, ast.Name) and v_.id in (SAFE_EV_BUILTINS - {"type", "isinstance", "zip", "any", "all"}):
            return True
        if isinstance(v_, ast.Name) and v_.id in module_fns:
            if v_.id not in scope:
                scope[v_.id] = module_fns[v_.id]
                work.append(module_fns[v_.id])
            return True
        return False

    while work:
        fn_ = work.pop()
        for x in ast.walk(fn_):
            if isinstance(x, ast.Call) and isinstance(x.func, ast.Name) and x.func.id in module_fns and x.func.id not in scope and x.func.id not in ("_ensure_representable",):
                scope[x.func.id] = module_fns[x.func.id]
                work.append(module_fns[x.func.id])
            if isinstance(x, ast.Name) and x.id in pm.consts and x.id not in safe_tables and x.id not in value_tables:
                tbl_ = pm.consts[x.id]
                simple = isinstance(tbl_, ast.Dict) and tbl_.values and not any(isinstance(v_, (ast.Tuple, ast.List, ast.Call)) for v_ in tbl_.values) and not _has_module_level_updates(pm, x.id)
                if simple:
                    if not all(isinstance(v_, ast.Constant) for v_ in tbl_.values):
                        safe_tables[x.id] = tbl_
                        for k, v in zip(tbl_.keys, tbl_.values):
                            kd = dotted(k) or norm(k)
                            r.check(table_value_ok(v), f"_eval_const/table[{kd}]->{dotted(v) or ('lambda' if isinstance(v, ast.Lambda) else norm(v))}", (pm, v), f"dispatch table {x.id} maps {kd} to {norm(v)}, which is neither a pure operator.* function, a safe builtin nor a checked helper of the evaluator")
                    continue
                # a table that is computed (comprehension, factory calls, tuples of (folder, flag), completed by .update()):
                # evaluate it as the import of the module does and judge the values it holds
                if isinstance(tbl_, (ast.Dict, ast.DictComp, ast.Call)):
                    try:
                        val_ = dl.Interp(pm).expr(ast.Name(id=x.id, ctx=ast.Load()), dl.Env(None))
                    except dl.Unsupported:
                        continue
                    if not isinstance(val_, dict) or not any(_holds_callable(v_) for v_ in val_.values()):
                        continue
                    value_tables[x.id] = val_
                    safe_tables[x.id] = tbl_
                    for k_, v_ in val_.items():
                        okv_, closures_ = _safe_value(v_)
                        for fn_node, fenv in closures_:
                            qn = pm.qualname_of(fn_node) if hasattr(pm, "qualname_of") else getattr(fn_node, "name", "?")
                            if qn not in scope:
                                scope[qn] = fn_node
                                closure_envs[qn] = fenv
                                work.append(fn_node)
                        r.check(okv_, f"_eval_const/table[{k_!r}]->{_show_value(v_)}", (pm, tbl_), f"dispatch table {x.id} maps {k_!r} to {_show_value(v_)}, which is neither a pure operator.* function, a safe builtin nor a checked helper of the evaluator")
    module_tables = safe_tables
    for n in ast.walk(ev):
        if isinstance(n, ast.Dict) and n.keys and all(isinstance(k, ast.Attribute) and (dotted(k) or "").startswith("ast.") for k in n.keys):
            for k, v in zip(n.keys, n.values):
                dn = dotted(v) or ""
                okv = dn.split(".")[0] in ("op", "operator") and dn.split(".")[-1] in SAFE_OPERATOR
                r.check(okv, f"_eval_const/table[{dotted(k)}]->{dn}", (pm, v), f"operator table maps {dotted(k)} to {dn}, not a pure operator.* function")
    cx.extra["evaluator_scope"] = sorted(scope)
    cx.extra["evaluator_tables"] = sorted(safe_tables)
    for sq, sfn in sorted(scope.items()):
        local_defs = {f.name for f in ast.walk(sfn) if isinstance(f, ast.FunctionDef)} | set(scope)
        params = {a_.arg for f_ in ast.walk(sfn) if isinstance(f_, (ast.FunctionDef, ast.Lambda)) for a_ in f_.args.posonlyargs + f_.args.args + f_.args.kwonlyargs}
        for n in ast.walk(sfn):
            if isinstance(n, ast.Call):
                f = n.func
                ok = False
                why = norm(f)
                if isinstance(f, ast.Name):
                    fenv_ = closure_envs.get(sq)
                    if f.id in local_defs or f.id in SAFE_EV_BUILTINS:
                        ok = True
                    elif fenv_ is not None and f.id in fenv_ and f.id not in {a_.arg for a_ in sfn.args.posonlyargs + sfn.args.args + sfn.args.kwonlyargs} and _safe_value(fenv_[f.id])[0]:
                        ok = True          # a free variable of a factory-made folder (`cast` in `_fold_cast(cast)`), bound to a safe callable
                    elif f.id == "_ensure_representable":   # a pure range check on the folded value (its verdicts are decided by C11-CONVERT)
                        ok = True
                    else:
                        # a local that only ever holds a safe callable: a lookup in one of the checked tables, a safe builtin,
                        # a function of the scope, or a conditional choice between such values
                        def safe_callable_expr(d_, _sfn=sfn, _ld=local_defs):
                            if isinstance(d_, ast.Subscript):
                                return norm(d_.value) in set(module_tables) | {"ops"}
                            if isinstance(d_, ast.Call) and isinstance(d_.func, ast.Attribute) and d_.func.attr == "get":
                                return norm(d_.func.value) in set(module_tables) | {"ops"}
                            if isinstance(d_, ast.Name):
                                return d_.id in (SAFE_EV_BUILTINS - {"type", "isinstance"}) or d_.id in _ld
                            if isinstance(d_, ast.IfExp):
                                return safe_callable_expr(d_.body) and safe_callable_expr(d_.orelse)
                            if isinstance(d_, ast.Attribute):
                                dn_ = dotted(d_) or ""
                                return dn_.split(".")[0] in ("op", "operator") and dn_.split(".")[-1] in SAFE_OPERATOR
                            return False
                        ds_ = [x.value for x in ast.walk(sfn) if isinstance(x, ast.Assign) and len(x.targets) == 1 and isinstance(x.targets[0], ast.Name) and x.targets[0].id == f.id]
                        # `folder, variadic = TABLE[name]`: the row of a checked table (every element of every row was judged)
                        ds_ += [x.value for x in ast.walk(sfn) if isinstance(x, ast.Assign) and len(x.targets) == 1 and isinstance(x.targets[0], (ast.Tuple, ast.List)) and any(isinstance(e_, ast.Name) and e_.id == f.id for e_ in x.targets[0].elts)]
                        ok = bool(ds_) and all(safe_callable_expr(d_) for d_ in ds_)
                elif isinstance(f, ast.Attribute):
                    dn = dotted(f) or ""
                    if dn in ("ast.parse",):
                        ok = True
                    elif f.attr in SAFE_VALUE_METHODS:
                        # methods of the evaluator's own value types (int/float/str/list); str.format is
                        # deliberately absent (format-string attribute traversal)
                        ok = True
                    elif isinstance(f.value, ast.Name):
                        # `row.fold(...)`: `row` only ever holds a row of a checked, evaluated table (every field of every row
                        # was judged as a value) and `fold` is a field of those rows
                        def _row_lookup(d_):
                            if isinstance(d_, ast.Subscript):
                                return norm(d_.value) if norm(d_.value) in value_tables else None
                            if isinstance(d_, ast.Call) and isinstance(d_.func, ast.Attribute) and d_.func.attr == "get" and len(d_.args) == 1:
                                return norm(d_.func.value) if norm(d_.func.value) in value_tables else None
                            return None
                        ds_ = [x.value for x in ast.walk(sfn) if isinstance(x, ast.Assign) and len(x.targets) == 1 and isinstance(x.targets[0], ast.Name) and x.targets[0].id == f.value.id]
                        tbls_ = [_row_lookup(d_) for d_ in ds_]
                        ok = bool(ds_) and all(tbls_) and f.value.id not in params and all(
                            (isinstance(v_, tuple) and f.attr in getattr(type(v_), "_fields", ())) or (isinstance(v_, dl.Synth) and f.attr in vars(v_))
                            for t_ in tbls_ for v_ in value_tables[t_].values())
                elif isinstance(f, ast.Subscript):
                    base = norm(f.value)
                    ok = base in ("ops",) or base in module_tables
                r.check(ok, f"{sq}/callee[{why}]", (pm, n), f"`{stmt_key(n)}`: callee {why} is not on the evaluator's allow-list")
            elif isinstance(n, ast.Attribute) and dotted(n) and dotted(n).startswith("ast.") and n.attr in FORBIDDEN_EV_ARMS:
                r.fail(f"{sq}/arm[{n.attr}]", (pm, n), f"the evaluator dispatches on ast.{n.attr}: user attribute access / lambdas / comprehensions must not be evaluated")
    casts = lit.table(pm, "_SAFE_CASTS")
    for k, v in casts.items():
        r.check(isinstance(v, lit.Ref) and v.name in ("int", "float", "str", "bool") and v.name == k, f"_SAFE_CASTS[{k}]", (pm.rel, pm.const("_SAFE_CASTS").lineno), f"_SAFE_CASTS[{k!r}] = {v!r}")
    # ... and by evaluation: expressions that would reach anything beyond arithmetic on literals are refused
    hostile = ["__import__('os')", "open('x')", "eval('1')", "exec('1')", "(1).__class__", "getattr(1, 'real')", "(lambda: 1)()", "[x for x in (1, 2)]", "compile('1', 'f', 'eval')", "globals()", "vars()",
               "''.join", "'{0.__class__}'.format(1)", "print(1)", "input()", "type(1)", "len.__self__", "int.__subclasses__()", "max.__call__(1, 2)", "a.b", "x := 1", "dir()", "breakpoint()", "str.format('{}', 1)", "__builtins__"]
    for src in hostile:
        try:
            out = dl.Interp(pm, opaque={"ast.parse": ast.parse}).call(ev, [src, {}])
        except dl.Unsupported as e:
            raise AnalysisError(f"_eval_const left the evaluable subset on `{src}`: {e}")
        r.check(out.kind == "raise", f"_eval_const/refuses[{src}]", (pm, ev), f"_eval_const({src!r}) is evaluated to {out!r}: the constant evaluator must refuse everything but arithmetic on literals and bound names")
    # names resolve only through env
    for n in ast.walk(ev):
        if isinstance(n, ast.If) and "isinstance(n, ast.Name)" in norm(n.test):
            bad = [c for c in ast.walk(n) if isinstance(c, ast.Call) and (call_name(c) or "") in ("getattr", "globals", "eval", "vars", "locals")]
            r.check(not bad, "_eval_const/name-arm", (pm, n), "names must be resolved through env only")
    # the other evaluators in use
    for n in ast.walk(pm.tree):
        if isinstance(n, ast.Call) and (call_name(n) or "").startswith("ast.") and call_name(n) not in ("ast.parse", "ast.literal_eval", "ast.unparse", "ast.iter_child_nodes", "ast.walk", "ast.BinOp", "ast.Name", "ast.Load", "ast.dump", "ast.get_source_segment", "ast.Constant", "ast.copy_location", "ast.fix_missing_locations"):
            r.fail(f"ast-call[{call_name(n)}]", (pm, n), f"unexpected ast.* call {call_name(n)}")

    # ---- C11-RAISE ---------------------------------------------------------------------------
    r = cx.rule("C11-RAISE", "every explicit raise in transpile/ constructs ValueError (or re-raises)", floor=100)
    for m in mods:
        for n in ast.walk(m.tree):
            if isinstance(n, ast.Raise):
                if n.exc is None:
                    r.ok("re-raise")
                    continue
                t = n.exc.func if isinstance(n.exc, ast.Call) else n.exc
                fnq = m.qualname_of(m.enclosing_func(n)) if m.enclosing_func(n) is not None else "<module>"
                r.check(dotted(t) == "ValueError", f"{fnq}/raise[{dotted(t)}]", (m, n), f"`{stmt_key(n)}`: internal errors must surface as ValueError")

    # ---- C11-GUARD ---------------------------------------------------------------------------
    r = cx.rule("C11-GUARD", "every call of the constant evaluator / literal_eval / int()-of-evaluated-value sits in a try whose handler catches Exception (arithmetic errors such as ZeroDivisionError/OverflowError must not escape parse())", floor=15)
    for n in ast.walk(pm.tree):
        if isinstance(n, ast.Call) and call_name(n) in ("_eval_const", "ast.literal_eval"):
            fn = pm.enclosing_func(n)
            if fn is not None and fn.name in ("_eval_const",):
                continue
            fnq = pm.qualname_of(fn) if fn is not None else "<module>"
            guarded = False
            node = n
            for anc in pm.ancestors(n):
                if isinstance(anc, ast.Try):
                    in_body = any(node is b or any(node is x for x in ast.walk(b)) for b in anc.body)
                    if in_body:
                        for h in anc.handlers:
                            if h.type is None or dotted(h.type) in ("Exception", "BaseException"):
                                guarded = True
                if isinstance(anc, (ast.FunctionDef, ast.AsyncFunctionDef)):
                    break
            # key by function + normalised argument so that distinct sites stay distinct
            r.check(guarded, f"{fnq}/{call_name(n)}({norm(n.args[0]) if n.args else ''})-unguarded", (pm, n), f"`{stmt_key(n)}` is not inside a try/except Exception: ZeroDivisionError/OverflowError/TypeError from constant folding would escape as an internal error", sample=f"{fnq}: {call_name(n)}({norm(n.args[0]) if n.args else ''})")

    # ---- C11-MIXED --------------------------------------------------------------------------
    r = cx.rule("C11-MIXED", "a value returned by an argument resolver typed Union[number, str] (a number when the argument folds, C++ text otherwise) is only compared or used in arithmetic under an isinstance guard: `0 <= value <= 7` on the text form would raise TypeError, an internal error, for every non-literal argument; the same for IR fields annotated Union[number, str]", floor=0)
    mixed = set()
    for q, fn in pm.funcs.items():
        if fn.returns is not None:
            t = norm(fn.returns)
            if "Union" in t and "str" in t and any(x in t for x in ("int", "float", "bool")):
                mixed.add(fn.name)
    if len(mixed) < 5:
        raise AnalysisError(f"only {len(mixed)} Union[number, str] resolvers found (confirmed: 8)")
    from ..flow import lexical_conds
    for q, fn in pm.funcs.items():
        mv = {}
        for n in walk_local(fn, include_self=False):
            if isinstance(n, ast.Assign) and isinstance(n.value, ast.Call) and call_name(n.value) in mixed:
                for t in n.targets:
                    if isinstance(t, ast.Name):
                        mv[t.id] = n
        if not mv:
            continue
        for n in walk_local(fn, include_self=False):
            risky = None
            if isinstance(n, ast.Compare) and any(isinstance(o, (ast.Lt, ast.LtE, ast.Gt, ast.GtE)) for o in n.ops):
                risky = [x for x in [n.left] + list(n.comparators)]
            elif isinstance(n, ast.BinOp) and isinstance(n.op, (ast.Add, ast.Sub, ast.Mult, ast.Div, ast.Mod, ast.FloorDiv, ast.Pow)):
                risky = [n.left, n.right]
            elif isinstance(n, ast.UnaryOp) and isinstance(n.op, ast.USub):
                risky = [n.operand]
            if not risky:
                continue
            names = set()
            for x in risky:
                core = x.args[0] if isinstance(x, ast.Call) and call_name(x) in ("float", "int") and x.args else x
                if isinstance(core, ast.Name) and core.id in mv and (core.lineno, core.col_offset) > (mv[core.id].lineno, mv[core.id].col_offset):
                    names.add(core.id)
            for v in sorted(names):
                guard = any(c.startswith(f"isinstance({v},") and tv for c, tv in lexical_conds(pm, n)) or any(c.startswith(f"isinstance({v}, str") and not tv for c, tv in lexical_conds(pm, n))
                child = n
                for anc in pm.ancestors(n):
                    if isinstance(anc, ast.BoolOp) and isinstance(anc.op, ast.And):
                        idx = next((i for i, val in enumerate(anc.values) if val is child or any(val is y for y in ast.walk(val)) and any(child is y for y in ast.walk(val))), None)
                        if idx is not None and any(isinstance(e, ast.Call) and call_name(e) == "isinstance" and e.args and norm(e.args[0]) == v for e in anc.values[:idx]):
                            guard = True
                    if isinstance(anc, (ast.FunctionDef, ast.stmt)) and not isinstance(anc, ast.Expr):
                        pass
                    child = anc
                    if isinstance(anc, ast.FunctionDef):
                        break
                r.check(guard, f"{q}/numeric-use-of-mixed[{v}]", (pm, n), f"`{norm(n)}`: {v} comes from {call_name(mv[v].value)}() and is C++ text whenever the argument is not a literal; comparing/adding it without an isinstance guard raises TypeError for such calls", sample=f"{q}: {norm(n)[:50]}")

    # the same discipline for IR fields annotated Union[number, str] wherever they are read as `node.f` / `self.f`
    # (dataclass __post_init__ hooks, emitter arms): expected count on the pinned tree is zero, so a control keeps the
    # matcher honest
    am_, em_ = mod("transpile/ast.py"), mod("transpile/emitter.py")
    mixed_fields = set()
    for cn_, c_ in am_.classes.items():
        for st_ in c_.body:
            if isinstance(st_, ast.AnnAssign) and isinstance(st_.target, ast.Name):
                t_ = norm(st_.annotation)
                if "str" in t_ and any(x in t_ for x in ("int", "float", "bool")) and ("Union" in t_ or "|" in t_):
                    mixed_fields.add(st_.target.id)
    if len(mixed_fields) < 30:
        raise AnalysisError(f"only {len(mixed_fields)} Union[number, str] IR fields found (confirmed: 58)")

    def helper_guard_excludes_str(m_, cond_node, truth, operand_text):
        """`not f(a, b)` / `f(a, b)` where f is a module-level pure function: evaluated on every assignment of {number, text} to
        its arguments; the guard protects `operand` if f(...) == truth never holds while the operand is text"""
        neg = False
        c_ = cond_node
        while isinstance(c_, ast.UnaryOp) and isinstance(c_.op, ast.Not):
            neg = not neg
            c_ = c_.operand
        if not (isinstance(c_, ast.Call) and isinstance(c_.func, ast.Name) and c_.func.id in m_.funcs and not c_.keywords):
            return False
        args = [norm(a) for a in c_.args]
        if operand_text not in args:
            return False
        import itertools
        f_ = m_.funcs[c_.func.id]
        for combo in itertools.product((1.5, "H_x"), repeat=len(args)):
            if not isinstance(combo[args.index(operand_text)], str):
                continue
            try:
                out = dl.Interp(m_).call(f_, list(combo))
            except dl.Unsupported:
                return False
            if out.kind != "return":
                return False
            val = bool(out.value) != neg
            if val == truth:
                return False        # the guarded block is reachable with a text operand
        return True

    n_attr = 0
    for m_ in (am_, em_, pm):
        for q, fn in m_.funcs.items():
            for n in walk_local(fn, include_self=False):
                risky = None
                if isinstance(n, ast.Compare) and any(isinstance(o, (ast.Lt, ast.LtE, ast.Gt, ast.GtE)) for o in n.ops):
                    risky = [n.left] + list(n.comparators)
                elif isinstance(n, ast.BinOp) and isinstance(n.op, (ast.Add, ast.Sub, ast.Mult, ast.Div, ast.Mod, ast.FloorDiv, ast.Pow)):
                    risky = [n.left, n.right]
                if not risky:
                    continue
                for x in risky:
                    if not (isinstance(x, ast.Attribute) and isinstance(x.value, ast.Name) and x.value.id in ("node", "self", "decl") and x.attr in mixed_fields):
                        continue
                    n_attr += 1
                    v = norm(x)
                    guard = False
                    child = n
                    conds_ = []
                    for anc in m_.ancestors(n):
                        if isinstance(anc, ast.If) and (any(child is b for b in anc.body) or any(child is b for b in anc.orelse)):
                            conds_.append((anc.test, any(child is b for b in anc.body)))
                        if isinstance(anc, ast.BoolOp) and isinstance(anc.op, ast.And):
                            idx = next((i for i, val in enumerate(anc.values) if val is child), None)
                            if idx is not None:
                                conds_ += [(e, True) for e in anc.values[:idx]]
                        child = anc
                        if isinstance(anc, ast.FunctionDef):
                            break
                    from ..flow import split_and
                    for test, tv in conds_:
                        for atom, t_ in split_and(test, tv):
                            a_txt = norm(atom)
                            if a_txt.startswith(f"isinstance({v},") and "str" not in a_txt and t_:
                                guard = True
                            elif a_txt.startswith(f"isinstance({v}, str") and not t_:
                                guard = True
                            elif helper_guard_excludes_str(m_, atom, t_, v):
                                guard = True
                    r.check(guard, f"{q}/numeric-use-of-mixed-field[{v}]", (m_, n), f"`{norm(n)}`: {v} is annotated Union[number, str] and holds C++ text whenever the argument is not a literal; comparing it without a guard that excludes the text form raises TypeError (an internal error) for such calls", sample=f"{q}: {norm(n)[:50]}")
    # aggregate comparisons: min()/max()/sorted() over a collection that holds Union[number, str] fields compares a number
    # with text unless *every* element is known to be a number (per-element isinstance atoms or an all(isinstance...) guard)
    for m_ in (am_, em_, pm):
        for q, fn in m_.funcs.items():
            loc_ = None
            for n in walk_local(fn, include_self=False):
                if not (isinstance(n, ast.Call) and call_name(n) in ("min", "max", "sorted", "sum") and n.args):
                    continue
                loc_ = loc_ or Locals(fn)
                elems = []
                for a_ in n.args:
                    src_ = loc_.resolve(a_) if isinstance(a_, ast.Name) else a_
                    elems += list(src_.elts) if isinstance(src_, (ast.Tuple, ast.List)) else [src_]
                mixed_el = [norm(e_) for e_ in elems if isinstance(e_, ast.Attribute) and isinstance(e_.value, ast.Name) and e_.value.id in ("node", "self", "decl") and e_.attr in mixed_fields]
                if not mixed_el:
                    continue
                n_attr += 1
                atoms = []
                child = n
                for anc in m_.ancestors(n):
                    if isinstance(anc, ast.If) and (any(child is b for b in anc.body)):
                        atoms += [norm(a_) for a_, t_ in split_and(anc.test, True) if t_]
                    if isinstance(anc, ast.BoolOp) and isinstance(anc.op, ast.And):
                        idx = next((i for i, val in enumerate(anc.values) if val is child), None)
                        if idx is not None:
                            atoms += [norm(e_) for e_ in anc.values[:idx]]
                    child = anc
                    if isinstance(anc, ast.FunctionDef):
                        break
                coll = norm(n.args[0])
                all_guard = any(a_.startswith("all(isinstance(") and f" in {coll})" in a_ and "str" not in a_ for a_ in atoms)
                each = all(any(a_.startswith(f"isinstance({e_},") and "str" not in a_ for a_ in atoms) for e_ in mixed_el)
                r.check(all_guard or each, f"{q}/{call_name(n)}-over-mixed-fields[{coll}]", (m_, n), f"`{norm(n)}` orders {mixed_el}, each a number or C++ text: with exactly one of them given as an expression the comparison raises TypeError (an `any(isinstance...)` guard does not exclude that)", sample=f"{q}: {norm(n)[:40]}")
    cx.extra["mixed_field_uses"] = n_attr
    # control: the helper-guard evaluator must accept an any()-style guard and refuse an all()-style one
    ctl = ast.parse("def g_any(*v):\n    return any(isinstance(x, str) for x in v)\ndef g_all(*v):\n    return all(isinstance(x, str) for x in v)\n")

    class _Ctl:
        funcs = {f.name: f for f in ctl.body}
        classes, consts, imports, rel = {}, {}, {}, "<control>"
    ok_any = helper_guard_excludes_str(_Ctl, ast.parse("not g_any(a, b)", mode="eval").body, True, "a")
    ok_all = helper_guard_excludes_str(_Ctl, ast.parse("not g_all(a, b)", mode="eval").body, True, "a")
    if not ok_any or ok_all:
        raise AnalysisError("the helper-guard evaluation lost its control (any()-guard must protect, all()-guard must not)")

    # IR classes declared frozen cannot be updated in place: an attribute store on such a node raises FrozenInstanceError
    from .. import pe as pe_
    cls_, fields_ = pe_.ir_classes()
    frozen_fields = {}
    for cn_, c_ in cls_.items():
        if getattr(c_, "__dl_frozen__", False):
            for f_ in fields_[cn_]:
                frozen_fields.setdefault(f_[0], set()).add(cn_)
    n_store = 0
    for m_ in (pm, em_):
        for q, fn in m_.funcs.items():
            for n in walk_local(fn, include_self=False):
                if isinstance(n, (ast.Assign, ast.AugAssign)):
                    for t in (n.targets if isinstance(n, ast.Assign) else [n.target]):
                        if isinstance(t, ast.Attribute) and isinstance(t.value, ast.Name) and t.value.id not in ("self", "ctx", "cls"):
                            n_store += 1
                            hit = frozen_fields.get(t.attr)
                            r.check(not hit, f"{q}/store-into-frozen-node[{t.value.id}.{t.attr}]", (m_, n), f"`{stmt_key(n)}` assigns field {t.attr} of an object that can be a {sorted(hit or [])} node; that class is declared frozen, so the store raises dataclasses.FrozenInstanceError (an internal error) when this path runs", sample=None)
    cx.extra["node_attribute_stores"] = n_store

    # ---- C11-CONVERT -------------------------------------------------------------------------
    r = cx.rule("C11-CONVERT", "number-to-number conversions of folded constants cannot raise OverflowError: _eval_const hands out only representable values (finite floats, ints within 64 bits, recursively in lists) and every unguarded int(x)/float(x) on a number takes its operand from _eval_const or from a value passed through _ensure_representable; tuple assignment checks its arity before indexing", floor=12)
    evc = pm.func("_eval_const")
    rets = [n for n in walk_local(evc) if isinstance(n, ast.Return) and pm.enclosing_func(n) is evc]
    if not rets:
        raise AnalysisError("_eval_const has no return")
    for rt in rets:
        blk = next((b for b in _stmt_lists(pm.parent[rt]) if rt in b), [])
        before = blk[:blk.index(rt)] if rt in blk else []
        okp = isinstance(rt.value, ast.Name) and any(isinstance(st, ast.Expr) and isinstance(st.value, ast.Call) and call_name(st.value) == "_ensure_representable" and st.value.args and norm(st.value.args[0]) == rt.value.id for st in before)
        r.check(okp, "_eval_const/result-checked-representable", (pm, rt), f"`{stmt_key(rt)}`: the folded value is returned without passing _ensure_representable(...)")
    er = pm.funcs.get("_ensure_representable")
    if er is None:
        r.fail("_ensure_representable/present", (pm, evc), "the representability check of folded constants is gone: inf/nan/huge constants reach int()/float() and raise OverflowError")
    else:
        inf = float("inf")
        for label, v, bad in (("inf", inf, True), ("-inf", -inf, True), ("nan", float("nan"), True), ("2**64", 2 ** 64, True), ("-2**70", -2 ** 70, True), ("[1, inf]", [1, inf], True), ("(nan,)", (float("nan"),), True), ("[[inf]]", [[inf]], True),
                              ("2**1024", 2 ** 1024, True), ("10**400", 10 ** 400, True), ("-10**400", -10 ** 400, True), ("[0, 10**400]", [0, 10 ** 400], True), ("(2**2000,)", (2 ** 2000,), True), ("2**1023", 2 ** 1023, True),
                              ("2**63", 2 ** 63, False), ("1.5", 1.5, False), ("True", True, False), ("'s'", "s", False), ("[1, 2.5]", [1, 2.5], False), ("1e308", 1e308, False), ("0", 0, False)):
            out = dl.Interp(pm).call(er, [v])
            r.check((out.kind == "raise" and out.value == "ValueError") if bad else out.kind == "return", f"_ensure_representable({label})", (pm, er), f"_ensure_representable({label}) -> {out!r}; expected {'ValueError' if bad else 'acceptance'}")

    def _try_guarded(n):
        node = n
        for anc in pm.ancestors(n):
            if isinstance(anc, ast.Try) and any(node is b or any(node is x for x in ast.walk(b)) for b in anc.body):
                for h in anc.handlers:
                    names = [dotted(t) for t in (h.type.elts if isinstance(h.type, ast.Tuple) else [h.type])] if h.type is not None else ["Exception"]
                    if set(names) & {"Exception", "BaseException", "OverflowError", "ArithmeticError"}:
                        return True
            if isinstance(anc, ast.FunctionDef):
                return False
        return False

    # conversion functions handed over as an argument (`_fold(expr, int)` ... `cast(value)`): a parameter is a cast when
    # every call of its function passes int/float/bool there
    cast_params = {}
    for q, fn in pm.funcs.items():
        pnames = [a.arg for a in fn.args.posonlyargs + fn.args.args]
        short = q.split(".")[-1]
        sites = [c for m_fn in pm.funcs.values() for c in walk_local(m_fn, include_self=False) if isinstance(c, ast.Call) and isinstance(c.func, ast.Name) and c.func.id == short]
        for i_, pn in enumerate(pnames):
            passed = [c.args[i_] if len(c.args) > i_ else next((k.value for k in c.keywords if k.arg == pn), None) for c in sites]
            if sites and all(isinstance(a_, ast.Name) and a_.id in ("int", "float", "bool") for a_ in passed):
                cast_params[(q, pn)] = sorted({a_.id for a_ in passed})
    cx.extra["cast_parameters"] = {f"{q}.{pn}": v for (q, pn), v in cast_params.items()}

    def conv_kind(q, n):
        if not (isinstance(n, ast.Call) and len(n.args) == 1 and not isinstance(n.args[0], ast.Constant)):
            return None
        nm = call_name(n)
        if nm in ("int", "float"):
            return nm
        if isinstance(n.func, ast.Name) and (q, n.func.id) in cast_params:
            kinds_ = cast_params[(q, n.func.id)]
            return "float" if "float" in kinds_ else "int" if "int" in kinds_ else None
        return None

    n_conv = 0
    for q, fn in pm.funcs.items():
        loc = None
        for n in walk_local(fn, include_self=False):
            ck = conv_kind(q, n)
            if ck is None:
                continue
            a = norm(n.args[0])
            cs = set(lexical_conds(pm, n))
            child = n
            for anc in pm.ancestors(n):
                if isinstance(anc, ast.IfExp) and (anc.body is child or anc.orelse is child):
                    cs.add((norm(anc.test), anc.body is child))
                if isinstance(anc, ast.stmt):
                    break
                child = anc
            numeric = [c for c, t in cs if t and c.startswith(f"isinstance({a},") and ("int" in c or "float" in c) and "str" not in c]
            if any(t and c == f"isinstance({a}, int)" for c, t in cs) and ck == "int" and call_name(n) == "int":
                continue     # int(int)
            if not numeric or _try_guarded(n):
                continue
            if ck == "int" and call_name(n) == "int" and all("float" not in c for c in numeric):
                continue     # int(int)
            n_conv += 1
            loc = loc or Locals(fn)
            ok = False
            src_name = n.args[0].id if isinstance(n.args[0], ast.Name) else None
            if src_name:
                # the definition that reaches the use: the closest preceding assignment to the name in this function
                prev = [x for x in walk_local(fn, include_self=False) if isinstance(x, ast.Assign) and any(isinstance(t, ast.Name) and t.id == src_name for t in x.targets) and (x.lineno, x.col_offset) < (n.lineno, n.col_offset)]
                last = max(prev, key=lambda x: (x.lineno, x.col_offset)) if prev else None
                ok = last is not None and isinstance(last.value, ast.Call) and call_name(last.value) == "_eval_const"
                # or: the operand (or the container it is drawn from) went through _ensure_representable in this function
                containers = {src_name}
                for f_ in walk_local(fn, include_self=False):
                    if isinstance(f_, ast.For) and isinstance(f_.target, ast.Name) and f_.target.id == src_name and isinstance(f_.iter, ast.Name):
                        containers.add(f_.iter.id)
                for c in walk_local(fn, include_self=False):
                    if isinstance(c, ast.Call) and call_name(c) == "_ensure_representable" and c.args and isinstance(c.args[0], ast.Name) and c.args[0].id in containers and (c.lineno, c.col_offset) < (n.lineno, n.col_offset):
                        ok = True
            r.check(ok, f"{q}/{norm(n.func)}({a})-operand-representable", (pm, n), f"`{norm(n)}` converts a number that does not come from _eval_const(...)/_ensure_representable(...): float('inf') or a huge int would raise OverflowError, an internal error", sample=f"{q}: {norm(n)}")
    if n_conv < 3:
        raise AnalysisError(f"only {n_conv} unguarded numeric conversions found (confirmed: 10 written out, fewer when resolvers share a helper)")
    # ... and by evaluation: the argument resolvers on sources whose value is not representable (or only just)
    from . import c03 as _c03
    clos = {q.split(".")[-1]: f for q, f in pm.funcs.items() if q.startswith("_parse_simple_lines.") and q.count(".") == 1}
    extreme = ["1e999", "-1e999", "1e308 * 10", "10 ** 30", "2 ** 64", "-(2 ** 70)", "2 ** 63", "1e308", "1e999 - 1e999", "10 ** 400", "-10 ** 400", "1e200 * 1e200", "9007199254740993", "[1e999][0]", "abs(-1e999)", "max(1e999, 1)"]
    for name, dflt in (("_resolve_numeric_arg", (99,)), ("_resolve_optional_numeric_arg", ()), ("_resolve_float_arg", (99.5,)), ("_resolve_bool_arg", (True,))):
        if name not in clos:
            raise AnalysisError(f"{name} vanished")
        for src in extreme:
            it_ = dl.Interp(pm, opaque={"ast.parse": ast.parse, "ast.iter_child_nodes": lambda n_: list(ast.iter_child_nodes(n_)), "ast.walk": lambda n_: list(ast.walk(n_)), "re.fullmatch": re.fullmatch, "re.sub": re.sub})
            env = dl.Env(None)
            for k_, f_ in clos.items():
                dict.__setitem__(env, k_, dl.Closure(f_, env))
            dict.__setitem__(env, "vars", {})
            dict.__setitem__(env, "ctx", {})
            try:
                outc = ("return", it_._call(clos[name], [src, *dflt], {}, env))
            except dl.Raised as ex_:
                outc = ("raise", ex_.exc_type)
            except dl.Unsupported as ex_:
                raise AnalysisError(f"{name} left the evaluable subset on {src!r}: {ex_}")
            r.check(outc[0] == "return" or outc[1] == "ValueError", f"{name}/extreme-literal-is-folded-or-refused", (pm, clos[name]), f"{name}({src!r}) raises {outc[1]}: an internal error escapes instead of a ValueError or a run-time expression", sample=f"{name}({src})")
    # tuple assignment with a wrong number of values: refused with ValueError (never IndexError) - scripts through parse()
    from .. import pe as _pe
    pf_ = pm.func("parse")
    for label, line in (("one-value-two-targets", "a, b = (1,)"), ("three-values-two-targets", "a, b = 1, 2, 3"), ("two-values-three-targets", "a, b, c = 1, 2"), ("list-form", "[a, b] = [1]"),
                        ("empty-tuple", "a, b = ()"), ("redeclared-targets", "a = 0\nb = 0\na, b = 1, 2, 3"), ("nested-target", "a, (b, c) = 1, (2, 3)"), ("starred-target", "a, *b = 1, 2, 3"), ("scalar-value", "a, b = 5")):
        for place in ("setup", "loop", "function"):
            body = line.replace("\n", "\n" + ("    " if place != "setup" else ""))
            src = (line + "\nwhile True:\n    z0 = 0\n") if place == "setup" else ("while True:\n    " + body + "\n") if place == "loop" else ("def f():\n    " + body + "\n    return 0\nwhile True:\n    z0 = f()\n")
            try:
                _it, out = _pe.parse_source(src)
            except dl.Unsupported as e:
                raise AnalysisError(f"parse() left the evaluable subset on `{line}` ({place}): {e}")
            r.check(out.kind == "return" or out.value == "ValueError", f"tuple-arity[{label}]/refused-with-ValueError[{place}]", (pm, pf_), f"`{line}` in {place}: parse() raises {out.value}: an internal error instead of a ValueError", sample=f"{label}/{place}")
    # ---- C11-COST ----------------------------------------------------------------------------
    r = cx.rule("C11-COST", "operators whose cost is unbounded in the size of literal operands (**, <<) are never applied to operands whose result would be wide: the evaluator is run on powers, shifts and towers (from 5000-bit results to 10**10**8) with recording pow/lshift that estimate the result width before computing", floor=20)
    # no fold hands out an integer wider than the evaluator's own bound: a family of powers and shifts whose results need
    # about 5000 bits must be declined whatever the base (1 << n grows although 1 ** n does not)
    evc_ = pm.func("_eval_const")
    wide = ["1 << 5000", "-1 << 5000", "True << 5000", "2 << 5000", "3 << 4999", "2 ** 5000", "-2 ** 5001", "3 ** 3200", "10 ** 1600", "(1 << 3000) << 3000", "7 ** 1800", "(2 ** 64) ** 80",
            # towers whose every exponent / shift count is small: the intermediate results are what grows
            # unbounded: the value must never be computed (the recorder below refuses to compute it and reports the application)
            "10 ** 10 ** 8", "2 ** 10 ** 9", "1 << 10 ** 9", "9 ** 9 ** 9", "7 ** 200000000", "(-3) ** 99999999", "1 << (1 << 40)", "2 ** (2 ** 40)",
            "((9 ** 64) ** 64) ** 64", "(((2 ** 60) ** 60) ** 60) ** 60", "((3 ** 64) ** 64) ** 2", "((1 << 64) ** 64) ** 64", "((5 ** 40) ** 40) << 3", "(2 ** 63) ** 63 ** 2"]
    import operator as _op
    applied = []

    def _rec(fn_):
        def w(a, b):
            if isinstance(a, int) and isinstance(b, int) and b >= 0:
                est = (abs(a).bit_length() * b if abs(a) > 1 else 1) if fn_.__name__ == "pow" else a.bit_length() + b
                if est > 20000:
                    # the checker does not compute the huge value itself: the application is the evidence
                    applied.append((fn_.__name__, a, b, est))
                    raise dl.Raised("MemoryError", "result too wide for the checker")
            res = fn_(a, b)
            applied.append((fn_.__name__, a, b, res.bit_length() if isinstance(res, int) else 0))
            return res
        return w

    saved = {k_: dl._PURE_STDLIB[k_] for k_ in (("operator", "pow"), ("operator", "lshift"))}
    recs = {k_: _rec(v_) for k_, v_ in saved.items()}
    try:
        for k_, v_ in recs.items():
            dl._PURE_STDLIB[k_] = v_
            dl._PURE_CALLABLES.add(v_)
        for e_ in wide:
            del applied[:]
            it_ = dl.Interp(pm, opaque={"ast.parse": ast.parse, "ast.walk": lambda n_: list(ast.walk(n_)), "ast.iter_child_nodes": lambda n_: list(ast.iter_child_nodes(n_))})
            try:
                out_ = it_.call(evc_, [e_, {}])
            except dl.Unsupported as ex_:
                raise AnalysisError(f"_eval_const left the evaluable subset on `{e_}`: {ex_}")
            widest = max([x[3] for x in applied] or [0])
            r.check(widest <= 4500, f"_eval_const/wide-result-never-computed[{'<<' if '<<' in e_ else '**'}]", (pm, evc_), f"while evaluating {e_!r} the evaluator applied {[(x[0], x[3]) for x in applied if x[3] > 4500][:2]} (operator, result bits): the magnitude guard lets this operand through and the huge value is computed before anything can reject it (a larger exponent means minutes of CPU or gigabytes of memory)", sample=e_)
    finally:
        for k_, v_ in saved.items():
            dl._PURE_CALLABLES.discard(dl._PURE_STDLIB[k_])
            dl._PURE_STDLIB[k_] = v_

    # ---- C11-REGEX ---------------------------------------------------------------------------
    # "terminates promptly": the statement parser matches every source line against its regexes with a backtracking matcher;
    # a pattern with an ambiguous nested repetition takes time exponential in the length of a line that finally fails to match
    from .. import rx as rxa
    r = cx.rule("C11-REGEX", "no regular expression of the transpiler nests an unbounded repeat at the end of the body of another unbounded repeat such that both can consume the same characters (exponential backtracking on a non-matching line); module-level patterns are evaluated even when built by a helper or an f-string", floor=60)
    for m_ in mods + [init]:
        for name, node in m_.consts.items():
            v = lit.try_ev(node, m_)
            if not isinstance(v, lit.Regex) and isinstance(node, (ast.Call, ast.Name)):
                try:
                    v = dl.Interp(m_).expr(node, {})
                except (dl.Unsupported, dl.Raised):
                    v = None
            if isinstance(v, lit.Regex):
                try:
                    amb = rxa.ambiguous_nested_repeats(v.pattern)
                except rxa.RxUnsupported as e:
                    raise AnalysisError(f"regex {name} uses a construct the analysis does not model: {e}")
                except re.error as e:
                    raise AnalysisError(f"regex {name} does not compile: {e}")
                r.check(not amb, f"{m_.rel.split('/')[-1]}:{name}/no-ambiguous-nested-repeat", (m_.rel, node.lineno), f"pattern {v.pattern!r}: {amb[0][1] if amb else ''} (characters {amb[0][0] if amb else ''}...); a long line that fails to match makes parse() run for minutes", sample=None)
        for c_ in ast.walk(m_.tree):
            if isinstance(c_, ast.Call) and (call_name(c_) or "") in ("re.compile", "re.match", "re.fullmatch", "re.search", "re.sub", "re.findall", "re.split", "re.finditer") and c_.args and isinstance(c_.args[0], ast.Constant) and isinstance(c_.args[0].value, str):
                if any(c_ is getattr(v_, "value", None) or c_ is v_ for v_ in m_.consts.values()):
                    continue
                try:
                    amb = rxa.ambiguous_nested_repeats(c_.args[0].value)
                except (rxa.RxUnsupported, re.error):
                    continue
                r.check(not amb, f"{m_.rel.split('/')[-1]}/inline-pattern[{c_.args[0].value[:24]}]", (m_, c_), f"pattern {c_.args[0].value!r}: {amb[0][1] if amb else ''}")

    # ---- C11-STATE ---------------------------------------------------------------------------
    c10.rule_global_state(cx, "C11-STATE", mods + [init])

"""C20 - host sensor, Core-pin, timing and serial helpers are faithful small models."""
from __future__ import annotations

import ast

from .. import dl, lit
from ..core import AnalysisError
from ..flow import CallCount, CondTrace, conds
from ..num import Iv, bounds_of, iv_eval, rat_equal, try_const
from ..src import inline_self_calls, Locals, call_name, calls_in, dotted, func_params, mod, norm, stmt_key, walk_local

PIN_DICTS = ("_pin_modes", "_digital_values", "_analog_values")


class Weighted(CallCount):
    """CallCount where some calls/attribute loads carry a summarised (min,max) weight"""

    def __init__(self, weight):
        self.weight = weight

    def count_iv(self, node):
        lo = hi = 0
        stack = [node]
        first = True
        while stack:
            x = stack.pop()
            if not first and isinstance(x, (ast.FunctionDef, ast.AsyncFunctionDef, ast.ClassDef, ast.Lambda)):
                continue
            first = False
            w = self.weight(x)
            if w:
                lo += w[0]
                hi += w[1]
            stack.extend(ast.iter_child_nodes(x))
        return lo, hi

    def transfer(self, stmt, state):
        if isinstance(stmt, (ast.FunctionDef, ast.ClassDef)):
            return state
        lo, hi = self.count_iv(stmt)
        return (min(3, state[0] + lo), min(3, state[1] + hi)) if hi else state

    def assume(self, test, state, truth):
        lo, hi = self.count_iv(test)
        return (min(3, state[0] + lo), min(3, state[1] + hi)) if hi else state


def exits_of(out, fn):
    ex = [s for _n, s in out.ret]
    if out.fall is not None:
        ex.append(out.fall)
    return ex


def run(cx):
    core = mod("Core/__init__.py")
    utils = mod("Utils/__init__.py")
    btn = mod("Sensors/Button.py")
    pot = mod("Sensors/Potentiometer.py")
    ult = mod("Sensors/Ultrasonic.py")
    ser = mod("Communication/SerialMonitor.py")
    for m in (core, utils, btn, pot, ult, ser):
        cx.consulted(m)
    cx.explanation = (
        'the Core pin simulation against a reference memory on every history of up to three operations; _normalise_pin as a decision list; Utils.map over a grid incl. reversed, huge-but-narrow and tiny ranges; sleep with recording sleepers; sensors, Button (provider signals and set_pressed histories) and SerialMonitor against recorder objects; ownership of the pin tables and of the Button state. Float exactness of map is not decided.'
    )

    # ---- C20-MEMORY --------------------------------------------------------------------------
    rule_pin_memory(cx, core)

    # ---- C20-INPUTS --------------------------------------------------------------------------
    rule_host_inputs_eval(cx, "C20-INPUTS")

    # ---- C20-PINKEY --------------------------------------------------------------------------
    r = cx.rule("C20-PINKEY", "nothing iterates over, rebinds or (outside the five pin helpers and what they call) writes the simulated pin dictionaries; _normalise_pin identifies exactly int n with its decimal string and keeps all other pins distinct (which entry each operation touches is decided over every history by C20-MEMORY)", floor=8)
    pin_fns = ["pin_mode", "digital_write", "analog_write", "digital_read", "analog_read"]
    # which entry an operation touches, and that reads return the last write, is decided over every history by C20-MEMORY;
    # here: the tables are never walked, rebound or written by anything but the pin helpers (and the helpers they call)
    reach = set(pin_fns)
    grew = True
    while grew:
        grew = False
        for q in list(reach):
            for c in walk_local(core.func(q), include_self=False):
                if isinstance(c, ast.Call) and isinstance(c.func, ast.Name) and c.func.id in core.funcs and c.func.id not in reach:
                    reach.add(c.func.id)
                    grew = True
    for q in sorted(core.funcs):
        r.ok(f"{q}: scanned")
    for q, fn in core.funcs.items():
        for n in walk_local(fn, include_self=False):
            if isinstance(n, (ast.For, ast.comprehension)) and any(isinstance(x, ast.Name) and x.id in PIN_DICTS for x in ast.walk(n.iter)):
                r.fail(f"{q}/iterates-pin-table", (core, n if isinstance(n, ast.For) else fn), "iteration over a pin table: one pin's operation depends on / affects the others")
            if isinstance(n, (ast.Assign, ast.AugAssign)) and q not in reach:
                for t in (n.targets if isinstance(n, ast.Assign) else [n.target]):
                    if any(isinstance(x, ast.Name) and x.id in PIN_DICTS for x in ast.walk(t)):
                        r.fail(f"{q}/writes-pin-table", (core, n), "pin table written outside the five pin helpers")
            if isinstance(n, ast.Global) and any(x in PIN_DICTS for x in n.names):
                r.fail(f"{q}/rebinds-pin-table", (core, n), "pin table rebound")
    np_ = core.func("_normalise_pin")
    ints = [0, 7, 13]
    names = ["A0", "A1", "A5", "a0", "LED_BUILTIN", "D7"]
    img = {}
    try:
        for v in ints + [str(i) for i in ints] + names:
            out = dl.Interp(core).call(np_, [v])
            if out.kind != "return":
                r.fail("_normalise_pin/total", (core, np_), f"_normalise_pin({v!r}) raises")
            img[v] = out.value
    except dl.Unsupported as e:
        raise AnalysisError(f"_normalise_pin left the decision-list subset: {e}")
    for i in ints:
        r.check(img[i] == img[str(i)] and type(img[i]) is type(img[str(i)]), f"_normalise_pin/int-equals-digit-string", (core, np_), f"pin {i} and pin {str(i)!r} are different keys ({img[i]!r} vs {img[str(i)]!r})")
    keys = [img[i] for i in ints] + [img[n] for n in names]
    distinct = len({(type(k).__name__, k) for k in keys}) == len(keys)
    clash = [(a, b) for i, a in enumerate(ints + names) for b in (ints + names)[i + 1:] if img[a] == img[b]]
    r.check(distinct, "_normalise_pin/distinct-pins-stay-distinct", (core, np_), f"different pins share one key: {clash[:3]} - a write to one would be read back on the other")

    # ---- C20-MAP -----------------------------------------------------------------------------
    r = cx.rule("C20-MAP", "Utils.map returns to_low + (value-from_low)*(to_high-to_low)/(from_high-from_low) (rational normal form) and raises for from_low == from_high before dividing", floor=3)
    mp = utils.func("map")
    mloc = Locals(mp)
    subst = {k: v[0] for k, v in mloc.defs.items() if len(v) == 1 and isinstance(v[0], ast.expr)}
    rets = [n for n in walk_local(mp) if isinstance(n, ast.Return)]
    oracle = ast.parse("to_low + (value - from_low) * (to_high - to_low) / (from_high - from_low)", mode="eval").body
    for ret in rets:
        try:
            eq = rat_equal(ret.value, oracle, subst, {})
        except ValueError as e:
            raise AnalysisError(f"Utils.map return expression left arithmetic: {e}")
        r.check(eq, "map/affine-through-both-points", (utils, ret), f"`{norm(ret.value)}` (with {', '.join(k + '=' + norm(v) for k, v in subst.items())}) is not the affine map through (from_low,to_low),(from_high,to_high)")
    r.check(len(rets) >= 1, "map/returns", (utils, mp), "map() has no return")
    tr = CondTrace(lambda s: any(isinstance(x, ast.BinOp) and isinstance(x.op, ast.Div) for x in ast.walk(s)) and not isinstance(s, (ast.If, ast.FunctionDef)))
    tr.run_function(mp, frozenset({frozenset()}))
    for st, state in tr.hits:
        for alt in state:
            cs = conds(alt)
            ok = ("from_low == from_high", False) in cs or ("from_high == from_low", False) in cs or ("from_low != from_high", True) in cs or ("from_high - from_low == 0", False) in cs
            # any other spelling of the guard (a test over both bounds that left the raising branch) is accepted here: what
            # it refuses is decided by the evaluation grid below
            ok = ok or any("from_low" in t_ and "from_high" in t_ for t_, _v in cs)
            r.check(ok, "map/zero-span-guard-dominates-division", (utils, st), "division by (from_high - from_low) is reachable without any test of the source range")
    guards = [n for n in walk_local(mp) if isinstance(n, ast.If) and "from_low" in norm(n.test) and "from_high" in norm(n.test) and any(isinstance(x, ast.Raise) for x in n.body)]
    for g in guards:
        rz = [x for x in g.body if isinstance(x, ast.Raise)]
        r.check(bool(rz) and dotted(rz[0].exc.func if isinstance(rz[0].exc, ast.Call) else rz[0].exc) == "ValueError", "map/zero-span-ValueError", (utils, g), "zero-width range must raise ValueError")

    # the same two clauses decided by evaluating map() (checker's interpreter) over a grid that includes reversed, negative,
    # huge-but-narrow and tiny source ranges: refused exactly when the range has zero width, affine otherwise
    from fractions import Fraction
    spans = [(0, 1023), (1023, 0), (-1, 1), (5, 5), (0.5, 0.5), (2000000000, 2000000002), (2000000000, 2000000000), (0, 1e-12), (1e9, 1e9 + 0.25), (-3.5, -3.5), (1e-9, 2e-9)]
    n_bad = 0
    for lo_, hi_ in spans:
        for val_ in (lo_, hi_, (lo_ + hi_) / 2, lo_ - 1):
            for tl_, th_ in ((0, 255), (255, 0), (-1.0, 1.0)):
                try:
                    out = dl.Interp(utils).call(mp, [val_, lo_, hi_, tl_, th_])
                except dl.Unsupported as e:
                    raise AnalysisError(f"Utils.map left the evaluable subset: {e}")
                if lo_ == hi_:
                    good = out.kind == "raise" and out.value == "ValueError"
                    why = "a zero-width source range must be refused with ValueError"
                else:
                    exact = Fraction(tl_) + (Fraction(val_) - Fraction(lo_)) * (Fraction(th_) - Fraction(tl_)) / (Fraction(hi_) - Fraction(lo_))
                    good = out.kind == "return" and isinstance(out.value, (int, float)) and abs(Fraction(out.value) - exact) <= max(Fraction(1, 10 ** 6), abs(exact) / 10 ** 6)
                    why = f"the range has non-zero width: the affine value is {float(exact)!r}"
                if good:
                    r.ok(None)
                else:
                    n_bad += 1
                    if n_bad <= 3:
                        r.fail("map/refuses-exactly-zero-width-else-affine", (utils, mp), f"map({val_!r}, {lo_!r}, {hi_!r}, {tl_!r}, {th_!r}) -> {out!r}; {why}", detail={"args": [val_, lo_, hi_, tl_, th_]})
                    else:
                        r.stat.obligations += 1
                        r.stat.failed += 1

    # ---- C20-SLEEP ---------------------------------------------------------------------------
    r = cx.rule("C20-SLEEP", "sleep(ms), evaluated with a recording sleeper (injected, and the default time.sleep): a negative duration raises ValueError and nothing waits; every other duration makes exactly one wait of ms/1000 seconds", floor=20, exhaustive=True)
    sl = utils.func("sleep")

    class _Time(dl.Synth):
        pass

    for d_ in (-1, -0.001, -1e9, -250, 0, 0.0, 1, 250, 1500, 2.5, 0.4, True, 1e6, 59999):
        for injected in (True, False):
            waits = []
            rec = lambda secs, _w=waits: _w.append(secs)
            rec._dl_lambda = True
            tm = _Time()
            tm.sleep = rec
            try:
                if injected:
                    out = dl.Interp(utils, opaque={"time.sleep": lambda secs: waits.append(("default", secs))}, extra_env={"time": tm}).call(sl, [d_], {"sleep_func": rec})
                else:
                    out = dl.Interp(utils, opaque={"time.sleep": rec}, extra_env={"time": tm}).call(sl, [d_])
            except dl.Unsupported as e:
                raise AnalysisError(f"Utils.sleep left the evaluable subset: {e}")
            if d_ < 0:
                ok = out.kind == "raise" and out.value == "ValueError" and not waits
                want = "ValueError and no wait"
            else:
                ok = out.kind == "return" and len(waits) == 1 and isinstance(waits[0], (int, float)) and abs(waits[0] - d_ / 1000) <= 1e-12
                want = f"exactly one wait of {d_ / 1000} s"
            r.check(ok, f"sleep/{'negative-refused-before-waiting' if d_ < 0 else 'one-wait-of-ms/1000'}[{'injected' if injected else 'time.sleep'}]", (utils, sl), f"sleep({d_!r}) with {'an injected sleeper' if injected else 'the default sleeper'} -> {out!r}, waits {waits}; expected {want}", sample=f"sleep({d_!r})")

    rule_sensors(cx, "C20-SENSORS")
    from . import c10
    c10.rule_global_state(cx, "C20-INSTANCE-STATE", [utils, btn, pot, ult, ser], floor=15)



def rule_sensors(cx, rid):
    btn = mod("Sensors/Button.py")
    pot = mod("Sensors/Potentiometer.py")
    ult = mod("Sensors/Ultrasonic.py")
    for m in (btn, pot, ult):
        cx.consulted(m)
    r = cx.rule(rid, "who may write the Button's state: the previous sample belongs to the sampling method (and its private helpers), the raw level to set_pressed, handler and provider to the constructor; sampling, click dispatch and return values are decided by evaluation over signal histories (CLICKS / INPUTS rules)", floor=4)
    bc = btn.cls("Button")
    meths = {f.name: f for f in bc.body if isinstance(f, ast.FunctionDef)}
    ip = meths.get("is_pressed")
    if ip is None:
        raise AnalysisError("Button.is_pressed vanished")
    # who may write: the previous *sample* belongs to the sampling method - nothing else re-arms or disarms the edge
    # detector (a release that no poll ever saw must not produce a click); the raw level belongs to set_pressed
    WRITERS = {"_was_pressed": {"__init__", "is_pressed"}, "_pressed": {"__init__", "set_pressed"}, "_on_click": {"__init__"}, "_state_provider": {"__init__"}}
    helper_of_is_pressed = {c.func.attr for c in ast.walk(ip) if isinstance(c, ast.Call) and isinstance(c.func, ast.Attribute) and norm(c.func.value) == "self"}
    for name, f in meths.items():
        for n in walk_local(f):
            if isinstance(n, (ast.Assign, ast.AugAssign, ast.AnnAssign)):
                for t in (n.targets if isinstance(n, ast.Assign) else [n.target]):
                    for x in ast.walk(t):
                        if isinstance(x, ast.Attribute) and norm(x.value) == "self" and isinstance(x.ctx, ast.Store) and x.attr in WRITERS:
                            ok_w = name in WRITERS[x.attr] or (x.attr == "_was_pressed" and name in helper_of_is_pressed)
                            r.check(ok_w, f"Button.{name}/writes[{x.attr}]", (btn, n), f"`{stmt_key(n)}` in Button.{name}(): {x.attr} may only be written by {sorted(WRITERS[x.attr])}; the edge detector compares consecutive *samples*, so state changes between two polls must not touch it", sample=f"Button.{name} writes {x.attr}")
    # how often the provider is sampled, when on_click fires and what is stored are decided by evaluation over signal
    # histories (C15-CLICKS with a counting provider, C20-INPUTS through set_pressed)
    return r


def rule_pin_memory(cx, core, rid="C20-MEMORY"):
    """the Core pin simulation evaluated (checker's interpreter; the module's pin dictionaries shared between the calls of
    one history) against a reference memory on every history of up to three operations: the statement of the property,
    not the spelling of the five functions"""
    import itertools
    r = cx.rule(rid, "every history of up to 3 Core operations (pin_mode / digital_write / analog_write on pins 7, '7', 8 and 'A0', in-range, boundary and out-of-range values) followed by reads of every pin: digital_read/analog_read return the last value written to that pin (7 and '7' are one pin; analog clamped to 0..255, digital HIGH iff truthy), an unwritten INPUT_PULLUP pin reads HIGH, every other unwritten pin LOW/0, other pins are unaffected", floor=5000, exhaustive=True)
    state_names = [n for n, v in core.consts.items() if (isinstance(v, ast.Dict) and not v.keys) or (isinstance(v, ast.Call) and call_name(v) == "dict" and not v.args and not v.keywords)]
    if not state_names:
        raise AnalysisError("Core keeps its pin state in no module-level dictionary this rule can share between calls")
    fns = {q: core.func(q) for q in ("pin_mode", "digital_write", "analog_write", "digital_read", "analog_read")}
    HIGH_, LOW_ = try_const(ast.Name(id="HIGH"), core), try_const(ast.Name(id="LOW"), core)
    PULL = try_const(ast.Name(id="INPUT_PULLUP"), core)
    OUT = try_const(ast.Name(id="OUTPUT"), core)
    INP = try_const(ast.Name(id="INPUT"), core)
    if None in (HIGH_, LOW_, PULL, OUT, INP):
        raise AnalysisError("Core constants HIGH/LOW/INPUT/OUTPUT/INPUT_PULLUP not found")
    r.check(HIGH_ == 1 and LOW_ == 0, "Core/HIGH=1,LOW=0", (core.rel, 1), f"HIGH={HIGH_!r} LOW={LOW_!r}")
    key = lambda p_: int(p_) if isinstance(p_, str) and p_.isdigit() else p_

    def reference(hist, pins):
        modes, dig, ana = {}, {}, {}
        for op, (p_, v_) in hist:
            k_ = key(p_)
            if op == "pin_mode":
                modes[k_] = v_
            elif op == "digital_write":
                dig[k_] = HIGH_ if v_ else LOW_
            else:
                ana[k_] = max(0, min(255, int(round(float(v_)))))
        out = {}
        for p_ in pins:
            k_ = key(p_)
            out[("digital_read", p_)] = dig[k_] if k_ in dig else (HIGH_ if modes.get(k_) == PULL else LOW_)
            out[("analog_read", p_)] = ana.get(k_, 0)
        return out

    def run_hist(hist, pins):
        st = {n_: {} for n_ in state_names}
        it = dl.Interp(core, extra_env=st)
        try:
            for op, args in hist:
                o = it.call(fns[op], list(args))
                if o.kind != "return":
                    return None, f"{op}{args} raises {o.value}"
            got = {}
            for p_ in pins:
                for rd in ("digital_read", "analog_read"):
                    o = it.call(fns[rd], [p_])
                    got[(rd, p_)] = o.value if o.kind == "return" else f"<raises {o.value}>"
            return got, None
        except dl.Unsupported as e:
            raise AnalysisError(f"Core left the evaluable subset: {e}")

    small_pins = [7, "7", 8]
    small = [("pin_mode", (p_, m_)) for p_ in small_pins for m_ in (PULL, OUT)] + [("digital_write", (p_, v_)) for p_ in small_pins for v_ in (0, 1)] + [("analog_write", (p_, v_)) for p_ in small_pins for v_ in (-5, 300)]
    rich_pins = [7, "7", 8, "A0"]
    rich = [("pin_mode", (p_, m_)) for p_ in rich_pins for m_ in (PULL, OUT, INP)] + [("digital_write", (p_, v_)) for p_ in rich_pins for v_ in (0, 1, True, False, 5)] + \
           [("analog_write", (p_, v_)) for p_ in rich_pins for v_ in (-5, 0, 127.6, 128.5, 255, 300, True)]
    n_bad = 0
    for hists, pins in ((itertools.chain([()], ((a,) for a in rich), itertools.product(rich, repeat=2)), rich_pins), (itertools.product(small, repeat=3), small_pins)):
        for h in hists:
            got, err = run_hist(h, pins)
            want = reference(h, pins)
            if err is None and got == want:
                r.ok(None)
                continue
            n_bad += 1
            if n_bad <= 4:
                diff = err or "; ".join(f"{rd}({p_!r}) -> {got[(rd, p_)]!r}, the memory model gives {want[(rd, p_)]!r}" for (rd, p_) in want if got[(rd, p_)] != want[(rd, p_)])[:300]
                hist_txt = "; ".join(f"{op}({a_!r}, {b_!r})" for op, (a_, b_) in h) or "(no operation)"
                ops_key = "+".join(sorted({op for op, _a in h})) or "none"
                r.fail(f"pin-memory/history[{ops_key}]", (core, fns[h[-1][0]] if h else fns["digital_read"]), f"after {hist_txt}: {diff}", detail={"history": [[op, list(map(repr, a_))] for op, a_ in h]})
            else:
                r.stat.obligations += 1
                r.stat.failed += 1
    return r


def rule_host_inputs_eval(cx, rid):
    """the host-side input helpers evaluated on the classes themselves (checker's interpreter; providers, handlers and the
    serial port are recorder objects of the checker) over value grids and short histories - what they return, raise and
    send, not how they are spelled"""
    import itertools
    from . import c04
    btn, pot, ult, ser = mod("Sensors/Button.py"), mod("Sensors/Potentiometer.py"), mod("Sensors/Ultrasonic.py"), mod("Communication/SerialMonitor.py")
    for m in (btn, pot, ult, ser):
        cx.consulted(m)
    r = cx.rule(rid, "Potentiometer.read returns int(provider()) sampled once (0 without a provider) and raises ValueError outside 0..1023; UltrasonicSensor.measure_distance returns float(provider()) sampled once (the default without a provider) and raises ValueError for negatives; Button driven through set_pressed fires on_click exactly on the polls that see pressed after a poll that saw released and is_pressed returns the level; SerialMonitor.write returns str(value) and sends (str(value)+newline) utf-8 encoded exactly once iff the port is open; read refuses a bad emit before touching the port", floor=150, exhaustive=True)

    def provider(values, log):
        def p_():
            log.append(1)
            return values[min(len(log) - 1, len(values) - 1)]
        p_._dl_lambda = True
        return p_

    def call(m_, q_, args, **kw):
        try:
            return dl.Interp(m_, **kw).call(m_.func(q_), args)
        except dl.Unsupported as e:
            raise AnalysisError(f"host {q_} left the evaluable subset: {e}")

    # Potentiometer
    for v in (-1, 0, 1, 512, 1023, 1024, 5000, 3.9, 1023.9, -0.5, True):
        log = []
        o = c04.host_object(pot, "Potentiometer", "A0", value_provider=provider([v], log))
        out = call(pot, "Potentiometer.read", [o])
        iv_ = int(v)
        if 0 <= iv_ <= 1023:
            ok = out.kind == "return" and out.value == iv_ and type(out.value) is int and len(log) == 1
        else:
            ok = out.kind == "raise" and out.value == "ValueError" and len(log) == 1
        r.check(ok, "Potentiometer.read/provider-value-in-range-or-ValueError", (pot, pot.func("Potentiometer.read")), f"provider gives {v!r}: read() -> {out!r} after sampling it {len(log)} time(s); expected {'int ' + str(iv_) if 0 <= iv_ <= 1023 else 'ValueError'}, one sample", sample=f"pot {v!r}")
    o = c04.host_object(pot, "Potentiometer", "A3")
    out = call(pot, "Potentiometer.read", [o])
    r.check(out.kind == "return" and out.value == 0, "Potentiometer.read/no-provider-reads-0", (pot, pot.func("Potentiometer.read")), f"without a provider read() -> {out!r}")
    # Ultrasonic
    for v in (-1, -0.5, 0, 0.0, 12.5, 400, 7, 1e6):
        log = []
        o = c04.host_object(ult, "UltrasonicSensor", 2, 3, distance_provider=provider([v], log), default_distance=33.0)
        out = call(ult, "UltrasonicSensor.measure_distance", [o])
        if v >= 0:
            ok = out.kind == "return" and out.value == float(v) and type(out.value) is float and len(log) == 1
        else:
            ok = out.kind == "raise" and out.value == "ValueError" and len(log) == 1
        r.check(ok, "Ultrasonic.measure_distance/provider-value-or-ValueError", (ult, ult.func("UltrasonicSensor.measure_distance")), f"provider gives {v!r}: measure_distance() -> {out!r} after {len(log)} sample(s)", sample=f"ultra {v!r}")
    for d_ in (0.0, 25, 400.5):
        o = c04.host_object(ult, "UltrasonicSensor", 2, 3, default_distance=d_)
        out = call(ult, "UltrasonicSensor.measure_distance", [o])
        r.check(out.kind == "return" and out.value == float(d_), "Ultrasonic.measure_distance/no-provider-gives-default", (ult, ult.func("UltrasonicSensor.measure_distance")), f"default {d_!r}: -> {out!r}")
    # Button through set_pressed: every history of up to 6 operations over {press, release, poll}, starting released
    n_bad = 0
    for L in range(1, 7):
        for hist in itertools.product(("press", "release", "poll"), repeat=L):
            if "poll" not in hist:
                continue
            clicks = []
            cb_ = lambda _c=clicks: _c.append(1)
            cb_._dl_lambda = True
            o = c04.host_object(btn, "Button", 7, on_click=cb_)
            level, prev, want_clicks, want_vals, vals, bad = False, False, 0, [], [], None
            for op in hist:
                if op == "poll":
                    out = call(btn, "Button.is_pressed", [o])
                    if out.kind != "return":
                        bad = f"is_pressed raises {out.value}"
                        break
                    vals.append(out.value)
                    want_vals.append(1 if level else 0)
                    if level and not prev:
                        want_clicks += 1
                    prev = level
                else:
                    level = op == "press"
                    out = call(btn, "Button.set_pressed", [o, level])
                    if out.kind != "return":
                        bad = f"set_pressed raises {out.value}"
                        break
            if bad is None and (len(clicks) != want_clicks or vals != want_vals):
                bad = f"on_click ran {len(clicks)} time(s) and is_pressed returned {vals}; the sampled signal has {want_clicks} rising edge(s) and levels {want_vals}"
            if bad is None:
                r.ok(None)
            else:
                n_bad += 1
                if n_bad <= 3:
                    r.fail("Button/clicks=rising-edges-of-the-sampled-level", (btn, btn.func("Button.is_pressed")), f"history {' '.join(hist)}: {bad}", detail={"history": list(hist)})
                else:
                    r.stat.obligations += 1
                    r.stat.failed += 1

    # Button through a state provider: every signal of up to 6 samples (one per poll)
    for L in range(1, 7):
        for sig in itertools.product((False, True), repeat=L):
            clicks, log = [], []
            cb_ = lambda _c=clicks: _c.append(1)
            cb_._dl_lambda = True
            o = c04.host_object(btn, "Button", 7, on_click=cb_, state_provider=provider(list(sig), log))
            vals, bad = [], None
            for _i in range(L):
                out = call(btn, "Button.is_pressed", [o])
                if out.kind != "return":
                    bad = f"is_pressed raises {out.value}"
                    break
                vals.append(out.value)
            want_clicks = sum(1 for i_, s_ in enumerate(sig) if s_ and not (sig[i_ - 1] if i_ else False))
            if bad is None and (len(clicks) != want_clicks or vals != [1 if s_ else 0 for s_ in sig] or len(log) != L):
                bad = f"on_click ran {len(clicks)} time(s), is_pressed returned {vals} after {len(log)} sample(s); the signal has {want_clicks} rising edge(s), levels {[1 if s_ else 0 for s_ in sig]}, one sample per poll"
            if bad is None:
                r.ok(None)
            else:
                n_bad += 1
                if n_bad <= 3:
                    r.fail("Button/clicks=rising-edges-of-the-provided-signal", (btn, btn.func("Button.is_pressed")), f"provider signal {[int(s_) for s_ in sig]}: {bad}", detail={"signal": [int(s_) for s_ in sig]})
                else:
                    r.stat.obligations += 1
                    r.stat.failed += 1

    # SerialMonitor
    class _Port(dl.Synth):
        __dl_native__ = True

        def __init__(self, is_open):
            self.is_open = is_open
            self.sent = []
            self.calls = []

        def write(self, payload):
            self.sent.append(payload)
            return len(payload)

        def readline(self):
            self.calls.append("readline")
            return b""

        def close(self):
            self.is_open = False

    for nl in ("\n", "\r\n", ""):
        for v in ("hi", 12, 2.5, None, True, "a\nb", "café", "", "done\n", "\n", "x\r\n", "\r"):
            for port_state in ("open", "closed", "none"):
                o = c04.host_object(ser, "SerialMonitor", 9600, None, 1.0, nl)
                port = None if port_state == "none" else _Port(port_state == "open")
                o._serial = port
                out = call(ser, "SerialMonitor.write", [o, v])
                want_sent = [(str(v) + nl).encode("utf-8")] if port_state == "open" else []
                got_sent = port.sent if port is not None else []
                ok = out.kind == "return" and out.value == str(v) and got_sent == want_sent
                r.check(ok, f"SerialMonitor.write/returns-str-and-sends-once-iff-open[{port_state}]", (ser, ser.func("SerialMonitor.write")), f"write({v!r}) with newline {nl!r} on a port that is {port_state}: -> {out!r}, sent {got_sent}; expected {str(v)!r} and {want_sent}", sample=f"serial {v!r}/{port_state}")
    for em in ("nonsense", "", "HOST", None):
        o = c04.host_object(ser, "SerialMonitor", 9600, None, 1.0, "\n")
        port = _Port(True)
        o._serial = port
        out = call(ser, "SerialMonitor.read", [o, em], opaque={"print": lambda *a_, **k_: None})
        r.check(out.kind == "raise" and out.value == "ValueError" and not port.calls, "SerialMonitor.read/validates-emit-first", (ser, ser.func("SerialMonitor.read")), f"read(emit={em!r}) -> {out!r} after port calls {port.calls}; an invalid emit must be refused before the port is touched")
    return r

"""C19 - host actuator models keep their invariants under every operation history."""
from __future__ import annotations

import ast

from .. import dl
from ..core import AnalysisError
from ..flow import CallCount, CondTrace, conds
from ..num import INF, Iv, bounds_of, iv_eval, rat_equal, try_const
from ..src import Locals, call_name, calls_in, dotted, func_params, mod, norm, stmt_key, walk_local

CLASSES = {
    "Led": "Actuators/Led.py",
    "RGBLed": "Actuators/RGBLed.py",
    "Servo": "Actuators/Servo.py",
    "DCMotor": "Actuators/DCMotor.py",
}
# state attribute -> methods allowed to write it (the single-writer discipline the invariants rest on)
WRITERS = {
    "Led": {"state": {"__init__", "set_brightness"}, "brightness": {"__init__", "set_brightness"}},
    "RGBLed": {"_color": {"__init__", "set_color"}, "_state": {"__init__", "_update_state"}},
    "Servo": {"_current_angle": {"__init__", "write", "write_us"}, "_current_pulse": {"__init__", "write", "write_us"},
              "_min_angle": {"__init__"}, "_max_angle": {"__init__"}, "_min_pulse": {"__init__"}, "_max_pulse": {"__init__"}},
    "DCMotor": {"_speed": {"__init__", "set_speed", "stop", "coast"}, "_applied_speed": {"__init__", "_apply_speed", "stop", "coast"},
                "_mode": {"__init__", "_apply_speed", "stop", "coast"}, "_inverted": {"__init__", "invert"}},
}
# argument requirements of callees that raise on bad input: name -> list of (lo, hi) per positional argument
CONTRACTS = {
    "_sleep": [(0, INF)],
    "self.set_brightness": [(0, 255)],
}
# documented exceptions to the interval discharge (one row, one reason)
FROZEN = {
    ("RGBLed.fade", "self.set_color(*interpolated)"): "convex combination of the current colour (invariant 0..255) and the validated target, rounded: stays in 0..255",
    ("RGBLed.blink", "self.set_color(*original)"): "original is the colour read from the object's own state before the first mutation (invariant 0..255)",
    ("RGBLed.blink", "self.set_color(*colour)"): "colour is the tuple of _validate_component results",
    ("RGBLed.fade", "self.set_color(*target)"): "target is the tuple of _validate_component results",
}


def methods_of(c: ast.ClassDef):
    return {f.name: f for f in c.body if isinstance(f, ast.FunctionDef)}


def self_stores(fn):
    out = []
    for n in walk_local(fn, include_self=False):
        if isinstance(n, (ast.Assign, ast.AugAssign, ast.AnnAssign)):
            tgts = n.targets if isinstance(n, ast.Assign) else [n.target]
            for t in tgts:
                for x in ast.walk(t):
                    if isinstance(x, ast.Attribute) and isinstance(x.value, ast.Name) and x.value.id == "self" and isinstance(x.ctx, ast.Store):
                        out.append((x.attr, n))
    return out


def mutating_methods(meths, state_attrs):
    mut = {name for name, f in meths.items() if any(a in state_attrs for a, _ in self_stores(f)) and name != "__init__"}
    changed = True
    while changed:
        changed = False
        for name, f in meths.items():
            if name in mut or name == "__init__":
                continue
            for c in calls_in(f):
                if isinstance(c.func, ast.Attribute) and norm(c.func.value) == "self" and c.func.attr in mut:
                    mut.add(name)
                    changed = True
                    break
    return mut


def env_from_path(alt, tests, subjects, m, cls):
    env = {}
    for s in subjects:
        iv = Iv()
        for f in alt:
            if isinstance(f, tuple) and f[0] == "c" and f[1] in tests:
                iv = iv.meet(bounds_of(tests[f[1]], f[2], s, m, cls))
        env[s] = iv
    return env


def interval_of_arg(arg, fn, alt, tests, m, cls, depth=0):
    """interval of an argument expression at a call site, using path conditions for parameters/loop
    variables, definitions of locals (inductively for loop-carried ones)."""
    loc = Locals(fn)
    names = sorted({n.id for n in ast.walk(arg) if isinstance(n, ast.Name)})
    env = {}
    for nm in names:
        guard = env_from_path(alt, tests, [nm], m, cls)[nm]
        defs = [d for d in loc.defs.get(nm, []) if isinstance(d, ast.expr)]
        if nm in loc.params or not defs or len(defs) != len(loc.defs.get(nm, [])):
            env[nm] = guard
            continue
        # local: hypothesis = join of non-self-referential definitions, then verify the others preserve it
        base = [d for d in defs if nm not in {x.id for x in ast.walk(d) if isinstance(x, ast.Name)}]
        rec = [d for d in defs if d not in base]
        hyp = None
        for d in base:
            sub_env = {}
            for x in {y.id for y in ast.walk(d) if isinstance(y, ast.Name)}:
                sub_env[x] = env_from_path(alt, tests, [x], m, cls)[x]
            iv = iv_eval(d, sub_env, m, cls)
            hyp = iv if hyp is None else hyp.join(iv)
        if hyp is None:
            env[nm] = guard
            continue
        ok = True
        for d in rec:
            sub_env = {nm: hyp}
            for x in {y.id for y in ast.walk(d) if isinstance(y, ast.Name)} - {nm}:
                sub_env[x] = env_from_path(alt, tests, [x], m, cls)[x]
            iv = iv_eval(d, sub_env, m, cls)
            if not iv.within(hyp.lo, hyp.hi):
                ok = False
        env[nm] = hyp.meet(guard) if ok else guard
    return iv_eval(arg, env, m, cls)


def host_fade_kernel(hm_rgb):
    """(host_value(cur, goal, index, steps), number-of-steps function) for RGBLed.fade: the whole method is evaluated by the
    checker's interpreter on a host object whose three channels start at `cur` and fade to `goal`; the colour is read at every
    wait and at the end, so the result does not depend on how the interpolation is spelled (loop, comprehension, helper)"""
    from .. import dl
    from ..core import AnalysisError
    from . import c04
    hf = hm_rgb.func("RGBLed.fade")
    cache = {}

    def sequence(cur, goal, steps_):
        key = (cur, goal, steps_)
        if key not in cache:
            o = c04.host_object(hm_rgb, "RGBLed", 9, 10, 11)
            ini = dl.Interp(hm_rgb).call(hm_rgb.func("RGBLed.set_color"), [o, cur, cur, cur])
            if ini.kind != "return":
                raise AnalysisError(f"host RGBLed.set_color({cur}) raises {ini.value}")
            seen = []
            try:
                out = dl.Interp(hm_rgb, opaque={"_sleep": lambda ms, _s=seen, _o=o: _s.append(dl.Interp(hm_rgb).call(hm_rgb.func("RGBLed.get_color"), [_o]).value)}).call(hf, [o, goal, goal, goal], {"duration_ms": steps_ * 4, "steps": steps_})
            except dl.Unsupported as e:
                raise AnalysisError(f"RGBLed.fade left the evaluable subset: {e}")
            if out.kind != "return":
                raise AnalysisError(f"host RGBLed.fade({cur}->{goal}, steps={steps_}) raises {out.value}")
            seen.append(dl.Interp(hm_rgb).call(hm_rgb.func("RGBLed.get_color"), [o]).value)
            cache[key] = [c_[0] if isinstance(c_, (tuple, list)) else c_ for c_ in seen]
        return cache[key]

    def host_value(cur, goal, index, steps_):
        seq = sequence(cur, goal, steps_)
        if cur == goal:
            return goal
        if len(seq) != steps_:
            raise AnalysisError(f"host RGBLed.fade({cur}->{goal}) takes {len(seq)} steps for steps={steps_}")
        return seq[index - 1]

    def n_steps(cur, goal, steps_):
        return len(sequence(cur, goal, steps_))

    return host_value, n_steps


def servo_maps(r, m):
    """host Servo: both conversions are the linear map through the configured end points"""
    a2p, p2a = m.func("Servo._angle_to_pulse"), m.func("Servo._pulse_to_angle")
    # attributes the constructor derives from the four end points (a cached slope, a span) are expanded
    init = m.func("Servo.__init__")
    stores = {}
    for n in walk_local(init):
        if isinstance(n, ast.Assign) and len(n.targets) == 1 and isinstance(n.targets[0], ast.Attribute) and norm(n.targets[0].value) == "self":
            stores.setdefault(norm(n.targets[0]), []).append(n.value)
    params = {a.arg for a in init.args.args + init.args.kwonlyargs}
    base = {}      # constructor parameter -> the attribute that keeps it
    for attr, vals in stores.items():
        if len(vals) == 1:
            v = vals[0].args[0] if isinstance(vals[0], ast.Call) and call_name(vals[0]) == "float" and len(vals[0].args) == 1 else vals[0]
            if isinstance(v, ast.Name) and v.id in params:
                base[v.id] = ast.parse(attr, mode="eval").body
    derived = {attr: vals[0] for attr, vals in stores.items() if len(vals) == 1 and attr not in {norm(b) for b in base.values()}}
    derived.update({p_: a_ for p_, a_ in base.items()})
    for f, src_, o in ((a2p, "angle", "self._min_pulse + (angle - self._min_angle) / (self._max_angle - self._min_angle) * (self._max_pulse - self._min_pulse)"),
                       (p2a, "pulse", "self._min_angle + (pulse - self._min_pulse) / (self._max_pulse - self._min_pulse) * (self._max_angle - self._min_angle)")):
        rets = [n for n in walk_local(f) if isinstance(n, ast.Return)]
        subst = {k: v[0] for k, v in Locals(f).defs.items() if len(v) == 1 and isinstance(v[0], ast.expr)}
        subst.update(derived)
        try:
            ok = len(rets) == 1 and rat_equal(rets[0].value, ast.parse(o, mode="eval").body, subst, {})
        except ValueError:
            ok = False
        why = ""
        if not ok:
            # another spelling (a shared helper, a different association): the method is evaluated (checker's interpreter) on
            # three calibrations x seven arguments and compared with the line through the configured end points
            from .. import dl
            from . import c04
            from fractions import Fraction
            ok = True
            for cal in ({}, {"min_angle": 10, "max_angle": 170, "min_pulse_us": 500, "max_pulse_us": 2500}, {"min_angle": -90, "max_angle": 90, "min_pulse_us": 1000, "max_pulse_us": 2000}):
                o_ = c04.host_object(m, "Servo", 9, **cal)
                lo_a, hi_a, lo_p, hi_p = (Fraction(getattr(o_, a_)) for a_ in ("_min_angle", "_max_angle", "_min_pulse", "_max_pulse"))
                xs = [lo_a, hi_a, (lo_a + hi_a) / 2, lo_a + (hi_a - lo_a) / 3, lo_a + 1, hi_a - Fraction(1, 4), lo_a + Fraction(7, 10)] if src_ == "angle" else [lo_p, hi_p, (lo_p + hi_p) / 2, lo_p + (hi_p - lo_p) / 3, lo_p + 1, hi_p - Fraction(1, 4), lo_p + Fraction(7, 10)]
                for x in xs:
                    try:
                        out_ = dl.Interp(m).call(f, [o_, float(x)])
                    except dl.Unsupported as e:
                        raise AnalysisError(f"Servo.{f.name} left the evaluable subset: {e}")
                    want = lo_p + (Fraction(float(x)) - lo_a) / (hi_a - lo_a) * (hi_p - lo_p) if src_ == "angle" else lo_a + (Fraction(float(x)) - lo_p) / (hi_p - lo_p) * (hi_a - lo_a)
                    if out_.kind != "return" or not isinstance(out_.value, (int, float)) or abs(Fraction(out_.value) - want) > Fraction(1, 10 ** 6):
                        ok = False
                        why = f": {f.name}({float(x)}) with calibration {cal or 'default'} -> {out_!r}, the line gives {float(want)}"
                        break
                if not ok:
                    break
        r.check(ok, f"Servo.{f.name}/linear-map", (m, f), f"{f.name} is not the linear map through the configured end points{why}")


def run(cx):
    cx.explanation = (
        "every Led/RGBLed/Servo/DCMotor clause of the property evaluated on the host classes themselves (checker's interpreter, sleeps recorded with the Utils.sleep contract) from every state of a grid and for in-range, boundary and out-of-range arguments: invariants, round trips, wait counts, monotone fades/ramps, atomicity of raising calls; interpolation kernel on a dense grid. Float rounding of ramp end values is not decided."
    )
    mods = {c: mod(f) for c, f in CLASSES.items()}
    for m in mods.values():
        cx.consulted(m)

    meths_by = {cname: methods_of(m.cls(cname)) for cname, m in mods.items()}
    # (single-writer and range rules on the spelling of the writer bodies were replaced by the LAWS rules below: the
    # invariants are decided on the objects' observable state over state x command grids)

    # (that a call which raises leaves the object exactly as it was is decided on the objects themselves, from every state of
    # a grid and for in-range, boundary and out-of-range arguments, by C19-MOTOR-LAW / C19-LAWS)

    # ---- C19-SLEEPS --------------------------------------------------------------------------
    r = cx.rule("C19-SLEEPS", "blink sleeps exactly twice per repetition with the given delay, run_for sleeps exactly once and ends with stop(), fade/ramp delay per step is duration/steps with at most one sleep per step, interpolation formulas end exactly on the target", floor=1)
    # (how often and how long blink/fade/ramp/run_for wait, that blink restores the colour it started from and that fades end
    # on the target is decided on recorded waits and states by the LAWS rules; here: the interpolation kernel on a dense grid)
    m = mods["RGBLed"]
    fd = m.func("RGBLed.fade")
    if True:
        from fractions import Fraction
        hv, _it = host_fade_kernel(m)
        bad = None
        for s_ in range(1, 17):
            for a_, b_ in ((0, 255), (255, 0), (100, 101), (3, 200), (200, 3), (0, 1), (1, 0), (10, 17)):
                prev = a_
                for i_ in range(1, s_ + 1):
                    v_ = hv(a_, b_, i_, s_)
                    exact = a_ + Fraction((b_ - a_) * i_, s_)
                    good = isinstance(v_, int) and abs(v_ - exact) <= Fraction(1, 2) and (i_ != s_ or v_ == b_) and min(a_, b_) <= v_ <= max(a_, b_) and ((v_ >= prev) if b_ >= a_ else (v_ <= prev))
                    prev = v_
                    if not good and bad is None:
                        bad = f"fade {a_}->{b_} over {s_} steps: step {i_} gives {v_!r} (exact {float(exact):.3f})"
        r.check(bad is None, "RGBLed.fade/interpolation-ends-on-target", (m, fd), f"every step must be a nearest integer of current + (goal-current)*index/steps, monotone, exactly the target at index == steps; {bad}")
    # ---- C19-MOTOR-LAW / C19-LAWS ------------------------------------------------------------
    rule_motor_law(cx)
    rule_host_laws(cx, mods)


def _sleep_contract(ms):
    """the recorded wait keeps the contract of the real Utils.sleep (decided by C20): a negative duration is refused"""
    if isinstance(ms, (int, float)) and ms < 0:
        raise dl.Raised("ValueError", "duration must be non-negative")


def rule_motor_law(cx, rid="C19-MOTOR-LAW"):
    """the DCMotor clauses of the property evaluated on the host class itself (checker's interpreter, sleeps recorded): from
    every state of a grid and for every command with in-range, boundary and out-of-range arguments"""
    from . import c04
    m = mod(CLASSES["DCMotor"])
    r = cx.rule(rid, "DCMotor, from every state of {speed -1,-0.5,0,0.5,1} x inverted x mode and for every command/argument of a grid: |speed|<=1, applied = +-speed, mode = drive iff applied != 0 else brake after stop/run_for and coast otherwise, invert twice is the identity, ramp ends on the clamped target after exactly 20 monotone steps with 20 waits of duration/20 (never longer than the duration), run_for waits exactly once and ends braked, a raising call leaves the object unchanged", floor=400, exhaustive=True)
    # (values far below one PWM count and just off the boundaries: a law decided on the rounded duty is not the law on the speed)
    cmds = [("set_speed", [v_]) for v_ in (-2, -1, -0.5, 0, 0.5, 1, 3, True, 0.001, -0.0019, 1e-9, 0.0039, 0.999999, -1.000001)] + [("backward", [v_]) for v_ in (0, 0.5, 1, -0.5, 2, 0.0019, 1e-7)] + [("backward", [])] + \
           [("stop", []), ("coast", []), ("invert", [])] + [("ramp", [t_, d_]) for t_ in (-2, -0.5, 0, 0.5, 1, 0.001) for d_ in (0, 100, 1000, -1)] + \
           [("run_for", [d_, v_]) for v_ in (-1, 0, 0.5) for d_ in (0, 250, -5)]
    attrs = ("_speed", "_applied_speed", "_mode", "_inverted")
    n_bad = 0

    def report(meth, args, st, why):
        nonlocal n_bad
        n_bad += 1
        if n_bad <= 4:
            r.fail(f"DCMotor.{meth}/law", (m, m.func(f"DCMotor.{meth}")), f"from (speed {st[0]}, inverted {st[1]}, mode {st[2]}): motor.{meth}({', '.join(map(str, args))}) {why}", detail={"method": meth, "args": [repr(a) for a in args], "state": list(st)})
        else:
            r.stat.obligations += 1
            r.stat.failed += 1

    for meth, args in cmds:
        fn = m.func(f"DCMotor.{meth}")
        for sp in (-1.0, -0.5, 0.0, 0.5, 1.0):
            for inv in (False, True):
                for mode0 in (("drive",) if sp != 0 else ("coast", "brake")):
                    o = c04.host_object(m, "DCMotor", 2, 4, 9)
                    o._speed, o._inverted, o._mode, o._applied_speed = sp, inv, mode0, (-sp if inv else sp)
                    before = tuple(getattr(o, a_) for a_ in attrs)
                    trace = []
                    try:
                        out = dl.Interp(m, opaque={"_sleep": lambda ms, _t=trace, _o=o: (_sleep_contract(ms), _t.append((ms, _o._speed)))[1]}).call(fn, [o] + list(args))
                    except dl.Unsupported as e:
                        raise AnalysisError(f"host DCMotor.{meth} left the evaluable subset: {e}")
                    st = (sp, inv, mode0)
                    after = tuple(getattr(o, a_) for a_ in attrs)
                    if out.kind == "raise":
                        bad_arg = (meth == "ramp" and args[1] < 0) or (meth == "run_for" and args[0] < 0)
                        if not bad_arg:
                            report(meth, args, st, f"raises {out.value} for a valid argument")
                        elif after != before or trace:
                            report(meth, args, st, f"raises {out.value} but leaves {after} (was {before}) after {len(trace)} waits")
                        else:
                            r.ok(None)
                        continue
                    why = None
                    if not abs(o._speed) <= 1:
                        why = f"leaves |speed| = {abs(o._speed)} > 1"
                    elif o._applied_speed != (-o._speed if o._inverted else o._speed):
                        why = f"leaves applied {o._applied_speed} with speed {o._speed}, inverted {o._inverted}"
                    else:
                        want_mode = "drive" if o._applied_speed != 0 else ("brake" if meth in ("stop", "run_for") else "coast")
                        if meth == "invert" and o._applied_speed == 0:
                            want_mode = None if False else "coast"
                        if o._mode != want_mode:
                            why = f"leaves mode {o._mode!r}; the law gives {want_mode!r} (applied {o._applied_speed})"
                    clamp = lambda v_: max(-1.0, min(1.0, float(v_)))
                    if why is None and meth == "ramp":
                        t_, d_ = args
                        if abs(o._speed - clamp(t_)) > 1e-9:
                            why = f"ends at {o._speed}, clamped target {clamp(t_)}"
                        elif d_ > 0 and (len(trace) != 20 or any(abs(w_ - d_ / 20) > 1e-9 for w_, _s in trace) or sum(w_ for w_, _s in trace) > d_ + 1e-9):
                            why = f"waits {len(trace)} time(s) ({sorted(set(w_ for w_, _s in trace))}); the law is 20 waits of {d_ / 20}"
                        elif d_ > 0:
                            seq = [sp] + [s_ for _w, s_ in trace]
                            up = clamp(t_) >= sp
                            if any((b_ < a_ - 1e-12) if up else (b_ > a_ + 1e-12) for a_, b_ in zip(seq, seq[1:])):
                                why = f"steps are not monotone: {seq}"
                        elif d_ == 0 and trace:
                            why = f"waits {len(trace)} time(s) although the duration is 0"
                    if why is None and meth == "run_for":
                        if [w_ for w_, _s in trace] != [args[0]]:
                            why = f"waits {[w_ for w_, _s in trace]}; the law is exactly one wait of {args[0]}"
                        elif o._mode != "brake" or o._speed != 0:
                            why = f"ends (speed {o._speed}, mode {o._mode}), not braked"
                    if why is None and meth == "invert":
                        out2 = dl.Interp(m).call(fn, [o])
                        back = tuple(getattr(o, a_) for a_ in attrs)
                        if out2.kind != "return" or (back[0], back[1], back[3]) != (before[0], before[1], before[3]):
                            why = f"twice gives {back}, started from {before}: not an involution"
                    if why is None and meth not in ("ramp", "run_for") and trace:
                        why = f"waits {len(trace)} time(s)"
                    if why:
                        report(meth, args, st, why)
                    else:
                        r.ok(None)
    return r


def rule_host_laws(cx, mods, rid="C19-LAWS"):
    """the Led / RGBLed / Servo clauses of the property evaluated on the host classes themselves (checker's interpreter; sleeps
    and every intermediate state recorded) from every state of a grid and for every command with in-range, boundary and
    out-of-range arguments.  Observation goes through the public getters and the documented attributes only."""
    import itertools
    from fractions import Fraction
    from . import c04
    r = cx.rule(rid, "Led: 0<=brightness<=255 and on iff brightness>0 after every command, blink sleeps exactly 2*times*duration and restores nothing it should not, fades stay in range and end on 255/0; RGBLed: channels 0..255, on iff some channel non-zero, fade ends exactly on the target after `steps` monotone steps with steps-1 waits of duration/steps, blink ends on the colour it started from after 2*times waits; Servo: angle and pulse within the configured bounds and on the configured line, write/read and write_us/read_us round-trip; a call that raises leaves the object exactly as it was", floor=400, exhaustive=True)
    bad = {}

    def report(cls_, meth, args, st, why, fn_):
        k_ = (cls_, meth)
        bad[k_] = bad.get(k_, 0) + 1
        if bad[k_] <= 2:
            r.fail(f"{cls_}.{meth}/law", (mods[cls_], fn_), f"{cls_} in state {st}: {meth}({', '.join(map(repr, args))}) {why}", detail={"class": cls_, "method": meth, "args": [repr(a) for a in args], "state": repr(st)})
        else:
            r.stat.obligations += 1
            r.stat.failed += 1

    def call(m, q, obj, args, kw=None, sleeps=None, probe=None):
        try:
            return dl.Interp(m, opaque={"_sleep": (lambda ms, _s=sleeps, _p=probe: (_sleep_contract(ms), _s.append((ms, _p() if _p else None)))[1]) if sleeps is not None else (lambda ms: _sleep_contract(ms))}).call(m.func(q), [obj] + list(args), dict(kw or {}))
        except dl.Unsupported as e:
            raise AnalysisError(f"host {q} left the evaluable subset: {e}")

    # ---- Led ------------------------------------------------------------------------------------
    m = mods["Led"]
    led_state = lambda o: (o.brightness, o.state)
    led_cmds = [("on", []), ("off", []), ("toggle", [])] + [("set_brightness", [v]) for v in (0, 1, 127, 255, 256, -1, 300, 12.7, True, 0.5, 0.9, 254.5, 255.0)] + \
               [("blink", [d, t]) for d, t in ((10, 1), (0, 3), (25, 2), (-1, 1), (10, 0), (10, -2))] + [("blink", [40])] + \
               [("fade_in", [s_, d]) for s_, d in ((5, 10), (100, 0), (256, 1), (0, 5), (-3, 5), (5, -1))] + [("fade_out", [s_, d]) for s_, d in ((5, 10), (100, 0), (300, 1), (0, 5), (5, -1))] + \
               [("flash_pattern", [p_, d]) for p_, d in (([1, 0, 1], 10), ([], 5), ([0, 255, 128, 1], 0), ([1, 256], 5), ([1, -1], 5), ([1, 0], -1))]
    for b0 in (0, 1, 100, 255):
        for meth, args in led_cmds:
            o = c04.host_object(m, "Led", 13)
            o.brightness, o.state = b0, b0 > 0
            before = led_state(o)
            sleeps = []
            out = call(m, f"Led.{meth}", o, args, sleeps=sleeps, probe=lambda _o=o: led_state(_o))
            fn_ = m.func(f"Led.{meth}")
            if out.kind == "raise":
                # flash_pattern validates entry by entry (documented): earlier entries have been applied
                if led_state(o) != before and meth != "flash_pattern":
                    report("Led", meth, args, before, f"raises {out.value} and leaves {led_state(o)}", fn_)
                elif sleeps and meth != "flash_pattern":
                    report("Led", meth, args, before, f"raises {out.value} after sleeping {len(sleeps)} time(s)", fn_)
                else:
                    r.ok(None)
                continue
            why = None
            for (ms, st_) in sleeps + [(None, led_state(o))]:
                b_, s_ = st_
                if not (isinstance(b_, int) and 0 <= b_ <= 255) or bool(s_) != (b_ > 0):
                    why = f"passes through brightness {b_!r}, state {s_!r}"
                    break
            if why is None and meth == "blink":
                d_, t_ = (args + [1])[:2]
                if [x[0] for x in sleeps] != [d_] * (2 * t_):
                    why = f"sleeps {[x[0] for x in sleeps]}; the law is exactly {2 * t_} waits of {d_}"
                elif led_state(o)[0] != 0:
                    why = f"ends with brightness {led_state(o)[0]} (a blink ends dark)"
            if why is None and meth in ("fade_in", "fade_out") and led_state(o)[0] != (255 if meth == "fade_in" else 0):
                why = f"ends at brightness {led_state(o)[0]}"
            if why is None and meth in ("fade_in", "fade_out"):
                seq = [before[0]] + [x[1][0] for x in sleeps] + [led_state(o)[0]]
                if any((b_ < a_) if meth == "fade_in" else (b_ > a_) for a_, b_ in zip(seq, seq[1:])):
                    why = f"is not monotone: {seq[:8]}..."
            if why is None and meth == "on" and led_state(o) != (255, True):
                why = f"leaves {led_state(o)}"
            if why is None and meth == "off" and led_state(o) != (0, False):
                why = f"leaves {led_state(o)}"
            if why is None and meth == "toggle" and bool(led_state(o)[1]) == bool(before[1]):
                why = f"does not flip the state ({before} -> {led_state(o)})"
            if why is None and meth == "set_brightness" and led_state(o)[0] != int(args[0]):
                why = f"stores {led_state(o)[0]}"
            if why:
                report("Led", meth, args, before, why, fn_)
            else:
                r.ok(None)

    # ---- RGBLed ---------------------------------------------------------------------------------
    m = mods["RGBLed"]
    rgb_get = lambda o: (tuple(dl.Interp(m).call(m.func("RGBLed.get_color"), [o]).value), bool(dl.Interp(m).call(m.func("RGBLed.get_state"), [o]).value))
    colours = [(0, 0, 0), (255, 255, 255), (10, 0, 0), (0, 0, 1), (200, 100, 50)]
    rgb_cmds = [("set_color", list(c_)) for c_ in ((0, 0, 0), (1, 2, 3), (255, 0, 255), (256, 0, 0), (0, -1, 0), (1, 2, 3.5), (0, 0, True))] + [("on", []), ("on", [5]), ("on", [0, 0, 0]), ("off", [])] + \
               [("fade", list(c_) + [d, s_]) for c_ in ((0, 0, 0), (255, 10, 128), (200, 100, 50)) for d, s_ in ((100, 5), (0, 5), (30, 1), (7, 3), (100, 16), (20, 50), (3, 8), (0.5, 4))] + [("fade", [1, 2, 3, -1, 5]), ("fade", [1, 2, 3, 10, 0]), ("fade", [256, 2, 3, 10, 5])] + \
               [("blink", list(c_) + [t_, d]) for c_ in ((255, 0, 0), (0, 0, 0), (200, 100, 50), (255, 255, 255), (10, 0, 0)) for t_, d in ((1, 10), (3, 0), (2, 25))] + [("blink", [1, 2, 3, 0, 10]), ("blink", [1, 2, 3, 2, -1]), ("blink", [300, 2, 3, 1, 1])]
    for c0 in colours:
        for meth, args in rgb_cmds:
            o = c04.host_object(m, "RGBLed", 9, 10, 11)
            ini = call(m, "RGBLed.set_color", o, list(c0))
            if ini.kind != "return":
                raise AnalysisError(f"host RGBLed.set_color{c0} raises {ini.value}")
            before = rgb_get(o)
            sleeps = []
            out = call(m, f"RGBLed.{meth}", o, args, sleeps=sleeps, probe=lambda _o=o: rgb_get(_o))
            fn_ = m.func(f"RGBLed.{meth}")
            after = rgb_get(o)
            if out.kind == "raise":
                if after != before or sleeps:
                    report("RGBLed", meth, args, before, f"raises {out.value} and leaves {after} after {len(sleeps)} wait(s)", fn_)
                else:
                    r.ok(None)
                continue
            why = None
            for (_ms, st_) in sleeps + [(None, after)]:
                col_, on_ = st_
                if len(col_) != 3 or not all(isinstance(x, int) and not isinstance(x, bool) and 0 <= x <= 255 for x in col_) or on_ != any(x > 0 for x in col_):
                    why = f"passes through colour {col_!r}, state {on_!r}"
                    break
            if why is None and meth in ("set_color",) and after[0] != tuple(args):
                why = f"stores {after[0]}"
            if why is None and meth == "on" and after[0] != tuple((args + [255, 255, 255])[:3] if len(args) < 3 else args):
                want_ = tuple(list(args) + [255] * (3 - len(args)))
                if after[0] != want_:
                    why = f"leaves {after[0]}, expected {want_}"
            if why is None and meth == "off" and after != ((0, 0, 0), False):
                why = f"leaves {after}"
            if why is None and meth == "fade":
                tgt, d_, s_ = tuple(args[:3]), args[3], args[4]
                if after[0] != tgt:
                    why = f"ends on {after[0]}, not on the target {tgt}"
                elif d_ > 0 and before[0] != tgt:
                    seq = [before[0]] + [x[1][0] for x in sleeps] + [after[0]]
                    if len(sleeps) != s_ - 1 or any(abs(x[0] - d_ / s_) > 1e-9 for x in sleeps) or sum(x[0] for x in sleeps) > d_ + 1e-9:
                        why = f"waits {len(sleeps)} time(s) ({sorted(set(x[0] for x in sleeps))[:3]}); the law is {s_ - 1} waits of {d_ / s_}"
                    else:
                        for ch in range(3):
                            col = [c_[ch] for c_ in seq]
                            up = tgt[ch] >= before[0][ch]
                            if any((b_ < a_) if up else (b_ > a_) for a_, b_ in zip(col, col[1:])):
                                why = f"channel {ch} is not monotone: {col}"
                            for i_, v_ in enumerate(col[1:], 1):
                                exact = before[0][ch] + Fraction((tgt[ch] - before[0][ch]) * i_, s_)
                                if abs(v_ - exact) > Fraction(1, 2):
                                    why = f"channel {ch} step {i_} is {v_}, more than half a count from {float(exact):.2f}"
                elif sleeps:
                    why = f"waits although duration is 0 or the colour is already the target"
            if why is None and meth == "blink":
                t_, d_ = args[3], args[4]
                if after != before:
                    why = f"ends on {after}, it started from {before}"
                elif [x[0] for x in sleeps] != [d_] * (2 * t_):
                    why = f"waits {[x[0] for x in sleeps]}; the law is exactly {2 * t_} waits of {d_}"
            if why:
                report("RGBLed", meth, args, before, why, fn_)
            else:
                r.ok(None)

    # ---- Servo ----------------------------------------------------------------------------------
    m = mods["Servo"]
    # (the last two calibrations make the angle range overlap the pulse range: a winch servo, pulses given in milliseconds)
    for cal in ({}, {"min_angle": 10, "max_angle": 170, "min_pulse_us": 500, "max_pulse_us": 2500}, {"min_angle": -90, "max_angle": 90, "min_pulse_us": 1000.5, "max_pulse_us": 2000},
                {"min_angle": 0, "max_angle": 1260, "min_pulse_us": 544, "max_pulse_us": 2400}, {"min_angle": 0, "max_angle": 180, "min_pulse_us": 1, "max_pulse_us": 2}):
        probe_o = c04.host_object(m, "Servo", 9, **cal)
        la, ha, lp, hp = probe_o._min_angle, probe_o._max_angle, probe_o._min_pulse, probe_o._max_pulse
        read = lambda o: (dl.Interp(m).call(m.func("Servo.read"), [o]).value, dl.Interp(m).call(m.func("Servo.read_us"), [o]).value)
        line_ok = lambda a_, p_: abs((Fraction(p_) - Fraction(lp)) * (Fraction(ha) - Fraction(la)) - (Fraction(a_) - Fraction(la)) * (Fraction(hp) - Fraction(lp))) <= Fraction(1, 10 ** 6) * (Fraction(ha) - Fraction(la)) * (Fraction(hp) - Fraction(lp))
        cmds = [("write", [v]) for v in (la, ha, (la + ha) / 2, la + 0.25, ha - 1e-9, la - 0.001, ha + 1, la - 100)] + [("write_us", [v]) for v in (lp, hp, (lp + hp) / 2, lp + 0.25, hp - 0.5, lp - 0.5, hp + 1, 0)]
        for first in (("write", [la]), ("write", [(la + ha) / 2]), ("write_us", [hp])):
            for meth, args in cmds:
                o = c04.host_object(m, "Servo", 9, **cal)
                call(m, f"Servo.{first[0]}", o, first[1])
                before = read(o)
                out = call(m, f"Servo.{meth}", o, args)
                after = read(o)
                fn_ = m.func(f"Servo.{meth}")
                inside = (la <= args[0] <= ha) if meth == "write" else (lp <= args[0] <= hp)
                if out.kind == "raise":
                    if inside:
                        report("Servo", meth, args, before, f"raises {out.value} for a value inside the configured bounds {('angle', la, ha) if meth == 'write' else ('pulse', lp, hp)}", fn_)
                    elif after != before:
                        report("Servo", meth, args, before, f"raises {out.value} and leaves {after}", fn_)
                    else:
                        r.ok(None)
                    continue
                why = None
                a_, p_ = after
                if not inside:
                    why = f"accepts a value outside the configured bounds and leaves {after}"
                elif not (la <= a_ <= ha and lp <= p_ <= hp):
                    why = f"leaves angle {a_}, pulse {p_} outside the bounds [{la}, {ha}] / [{lp}, {hp}]"
                elif not line_ok(a_, p_):
                    why = f"leaves angle {a_} and pulse {p_}, which are not on the configured line"
                elif (meth == "write" and a_ != float(args[0])) or (meth == "write_us" and p_ != float(args[0])):
                    why = f"reads back {after}: the written value does not round-trip"
                if why:
                    report("Servo", meth, args, before, why, fn_)
                else:
                    r.ok(None)
    return r

"""C19 - host actuator models keep their invariants under every operation history."""
from __future__ import annotations

import ast

from .. import dl
from ..core import AnalysisError
from ..flow import CallCount, CondTrace, conds
from ..num import INF, Iv, bounds_of, iv_eval, rat_equal, try_const
from ..src import Locals, call_name, calls_in, dotted, func_params, mod, norm, stmt_key, walk_local

CLASSES = {
    "Led": "Actuators/Led.py",
    "RGBLed": "Actuators/RGBLed.py",
    "Servo": "Actuators/Servo.py",
    "DCMotor": "Actuators/DCMotor.py",
}
# state attribute -> methods allowed to write it (the single-writer discipline the invariants rest on)
WRITERS = {
    "Led": {"state": {"__init__", "set_brightness"}, "brightness": {"__init__", "set_brightness"}},
    "RGBLed": {"_color": {"__init__", "set_color"}, "_state": {"__init__", "_update_state"}},
    "Servo": {"_current_angle": {"__init__", "write", "write_us"}, "_current_pulse": {"__init__", "write", "write_us"},
              "_min_angle": {"__init__"}, "_max_angle": {"__init__"}, "_min_pulse": {"__init__"}, "_max_pulse": {"__init__"}},
    "DCMotor": {"_speed": {"__init__", "set_speed", "stop", "coast"}, "_applied_speed": {"__init__", "_apply_speed", "stop", "coast"},
                "_mode": {"__init__", "_apply_speed", "stop", "coast"}, "_inverted": {"__init__", "invert"}},
}
# argument requirements of callees that raise on bad input: name -> list of (lo, hi) per positional argument
CONTRACTS = {
    "_sleep": [(0, INF)],
    "self.set_brightness": [(0, 255)],
}
# documented exceptions to the interval discharge (one row, one reason)
FROZEN = {
    ("RGBLed.fade", "self.set_color(*interpolated)"): "convex combination of the current colour (invariant 0..255) and the validated target, rounded: stays in 0..255",
    ("RGBLed.blink", "self.set_color(*original)"): "original is the colour read from the object's own state before the first mutation (invariant 0..255)",
    ("RGBLed.blink", "self.set_color(*colour)"): "colour is the tuple of _validate_component results",
    ("RGBLed.fade", "self.set_color(*target)"): "target is the tuple of _validate_component results",
}


def methods_of(c: ast.ClassDef):
    return {f.name: f for f in c.body if isinstance(f, ast.FunctionDef)}


def self_stores(fn):
    out = []
    for n in walk_local(fn, include_self=False):
        if isinstance(n, (ast.Assign, ast.AugAssign, ast.AnnAssign)):
            tgts = n.targets if isinstance(n, ast.Assign) else [n.target]
            for t in tgts:
                for x in ast.walk(t):
                    if isinstance(x, ast.Attribute) and isinstance(x.value, ast.Name) and x.value.id == "self" and isinstance(x.ctx, ast.Store):
                        out.append((x.attr, n))
    return out


def mutating_methods(meths, state_attrs):
    mut = {name for name, f in meths.items() if any(a in state_attrs for a, _ in self_stores(f)) and name != "__init__"}
    changed = True
    while changed:
        changed = False
        for name, f in meths.items():
            if name in mut or name == "__init__":
                continue
            for c in calls_in(f):
                if isinstance(c.func, ast.Attribute) and norm(c.func.value) == "self" and c.func.attr in mut:
                    mut.add(name)
                    changed = True
                    break
    return mut


def env_from_path(alt, tests, subjects, m, cls):
    env = {}
    for s in subjects:
        iv = Iv()
        for f in alt:
            if isinstance(f, tuple) and f[0] == "c" and f[1] in tests:
                iv = iv.meet(bounds_of(tests[f[1]], f[2], s, m, cls))
        env[s] = iv
    return env


def interval_of_arg(arg, fn, alt, tests, m, cls, depth=0):
    """interval of an argument expression at a call site, using path conditions for parameters/loop
    variables, definitions of locals (inductively for loop-carried ones)."""
    loc = Locals(fn)
    names = sorted({n.id for n in ast.walk(arg) if isinstance(n, ast.Name)})
    env = {}
    for nm in names:
        guard = env_from_path(alt, tests, [nm], m, cls)[nm]
        defs = [d for d in loc.defs.get(nm, []) if isinstance(d, ast.expr)]
        if nm in loc.params or not defs or len(defs) != len(loc.defs.get(nm, [])):
            env[nm] = guard
            continue
        # local: hypothesis = join of non-self-referential definitions, then verify the others preserve it
        base = [d for d in defs if nm not in {x.id for x in ast.walk(d) if isinstance(x, ast.Name)}]
        rec = [d for d in defs if d not in base]
        hyp = None
        for d in base:
            sub_env = {}
            for x in {y.id for y in ast.walk(d) if isinstance(y, ast.Name)}:
                sub_env[x] = env_from_path(alt, tests, [x], m, cls)[x]
            iv = iv_eval(d, sub_env, m, cls)
            hyp = iv if hyp is None else hyp.join(iv)
        if hyp is None:
            env[nm] = guard
            continue
        ok = True
        for d in rec:
            sub_env = {nm: hyp}
            for x in {y.id for y in ast.walk(d) if isinstance(y, ast.Name)} - {nm}:
                sub_env[x] = env_from_path(alt, tests, [x], m, cls)[x]
            iv = iv_eval(d, sub_env, m, cls)
            if not iv.within(hyp.lo, hyp.hi):
                ok = False
        env[nm] = hyp.meet(guard) if ok else guard
    return iv_eval(arg, env, m, cls)


def host_fade_kernel(hm_rgb):
    """(host_value(cur, goal, index, steps), text of the step loop's iterator) for RGBLed.fade: the body of
    `for current, goal in zip(start, target)` is evaluated by the checker's interpreter and appends one value"""
    from .. import dl
    from ..core import AnalysisError
    hf = hm_rgb.func("RGBLed.fade")
    chan = [n for n in walk_local(hf) if isinstance(n, ast.For) and norm(n.iter) == "zip(start, target)" and norm(n.target) in ("current, goal", "(current, goal)")]
    if len(chan) != 1:
        raise AnalysisError("RGBLed.fade: per-channel interpolation loop `for current, goal in zip(start, target)` not found")
    step_loop = [n for n in walk_local(hf) if isinstance(n, ast.For) and any(c is chan[0] for c in ast.walk(n)) and n is not chan[0]]
    idx_name = norm(step_loop[0].target) if step_loop else "index"
    hit = dl.Interp(hm_rgb)

    def host_value(cur, goal, index, steps_):
        env = dl.Env(None)
        for k_, v_ in (("current", cur), ("goal", goal), (idx_name, index), ("steps", steps_), ("interpolated", [])):
            dict.__setitem__(env, k_, v_)
        hit.steps = 0
        try:
            hit._block(chan[0].body, env)
        except dl.Unsupported as e:
            raise AnalysisError(f"RGBLed.fade interpolation left the evaluable subset: {e}")
        out_ = env["interpolated"]
        if len(out_) != 1:
            raise AnalysisError("RGBLed.fade interpolation does not append exactly one value per channel")
        return out_[0]

    return host_value, (norm(step_loop[0].iter) if step_loop else None)


def servo_maps(r, m):
    """host Servo: both conversions are the linear map through the configured end points"""
    a2p, p2a = m.func("Servo._angle_to_pulse"), m.func("Servo._pulse_to_angle")
    # attributes the constructor derives from the four end points (a cached slope, a span) are expanded
    init = m.func("Servo.__init__")
    stores = {}
    for n in walk_local(init):
        if isinstance(n, ast.Assign) and len(n.targets) == 1 and isinstance(n.targets[0], ast.Attribute) and norm(n.targets[0].value) == "self":
            stores.setdefault(norm(n.targets[0]), []).append(n.value)
    params = {a.arg for a in init.args.args + init.args.kwonlyargs}
    base = {}      # constructor parameter -> the attribute that keeps it
    for attr, vals in stores.items():
        if len(vals) == 1:
            v = vals[0].args[0] if isinstance(vals[0], ast.Call) and call_name(vals[0]) == "float" and len(vals[0].args) == 1 else vals[0]
            if isinstance(v, ast.Name) and v.id in params:
                base[v.id] = ast.parse(attr, mode="eval").body
    derived = {attr: vals[0] for attr, vals in stores.items() if len(vals) == 1 and attr not in {norm(b) for b in base.values()}}
    derived.update({p_: a_ for p_, a_ in base.items()})
    for f, src_, o in ((a2p, "angle", "self._min_pulse + (angle - self._min_angle) / (self._max_angle - self._min_angle) * (self._max_pulse - self._min_pulse)"),
                       (p2a, "pulse", "self._min_angle + (pulse - self._min_pulse) / (self._max_pulse - self._min_pulse) * (self._max_angle - self._min_angle)")):
        rets = [n for n in walk_local(f) if isinstance(n, ast.Return)]
        subst = {k: v[0] for k, v in Locals(f).defs.items() if len(v) == 1 and isinstance(v[0], ast.expr)}
        subst.update(derived)
        try:
            ok = len(rets) == 1 and rat_equal(rets[0].value, ast.parse(o, mode="eval").body, subst, {})
        except ValueError:
            ok = False
        r.check(ok, f"Servo.{f.name}/linear-map", (m, f), f"{f.name} is not the linear map through the configured end points")


def run(cx):
    cx.explanation = (
        "single-writer inventory of every state attribute, guard/bounds analysis of the writer bodies, path-sensitive "
        "validate-before-mutate analysis of every public method with interval discharge of calls that can raise after the "
        "first mutation, rational normal forms of the servo maps and interpolation formulas, call-count analysis of the "
        "sleeps; float rounding of ramp end values is not decided"
    )
    mods = {c: mod(f) for c, f in CLASSES.items()}
    for m in mods.values():
        cx.consulted(m)

    # ---- C19-WRITERS -------------------------------------------------------------------------
    r = cx.rule("C19-WRITERS", "each state attribute is assigned only in its designated writer methods", floor=12)
    meths_by = {}
    for cname, m in mods.items():
        c = m.cls(cname)
        meths = methods_of(c)
        meths_by[cname] = meths
        for name, f in meths.items():
            for attr, st in self_stores(f):
                allowed = WRITERS[cname].get(attr)
                if allowed is None:
                    if name != "__init__" and not attr.startswith("__"):
                        r.ok(f"{cname}.{name}: non-state attribute {attr}")
                    continue
                r.check(name in allowed, f"{cname}.{attr}/written-in[{name}]", (m, st), f"`{stmt_key(st)}` in {cname}.{name}: {attr} may only be written by {sorted(allowed)}", sample=f"{cname}.{attr} <- {name}")
            for c_ in calls_in(f):
                if call_name(c_) in ("setattr", "object.__setattr__") or "__dict__" in norm(c_):
                    r.fail(f"{cname}.{name}/setattr", (m, c_), "state written through setattr/__dict__")

    # ---- C19-RANGE ---------------------------------------------------------------------------
    r = cx.rule("C19-RANGE", "writer bodies establish the invariants: stores happen only under the range guard (0..255, configured servo bounds, clamp to -1..1), derived state is recomputed from the stored value", floor=20)
    # Led.set_brightness
    m = mods["Led"]
    lc = m.cls("Led")
    sb = m.func("Led.set_brightness")
    tr = CondTrace(lambda s: isinstance(s, ast.Assign) and norm(s.targets[0]) in ("self.brightness", "self.state"),
                   marks=lambda s: {"B"} if isinstance(s, ast.Assign) and norm(s.targets[0]) == "self.brightness" else set())
    tr.run_function(sb, frozenset({frozenset()}))
    for st, state in tr.hits:
        tgt = norm(st.targets[0])
        for alt in state:
            if tgt == "self.brightness":
                iv = env_from_path(alt, tr.tests, ["value"], m, lc)["value"]
                r.check(iv.within(0, 255) and iv.lo == 0 and iv.hi == 255, "Led.set_brightness/stores-only-0..255", (m, st), f"brightness is stored with value in {iv}; invariant is [0, 255]")
                r.check(norm(st.value) in ("int(value)", "value"), "Led.set_brightness/stores-the-value", (m, st), f"brightness := `{norm(st.value)}`")
            else:
                r.check(norm(st.value) in ("self.brightness > 0", "self.brightness != 0", "bool(self.brightness)") and "B" in alt, "Led.set_brightness/state=brightness>0-after-store", (m, st), f"state := `{norm(st.value)}` (must be recomputed from the new brightness)")
    for name, want in (("on", "255"), ("off", "0")):
        f = m.func(f"Led.{name}")
        cs = [c for c in calls_in(f) if norm(c.func) == "self.set_brightness"]
        r.check(len(cs) == 1 and norm(cs[0].args[0]) == want, f"Led.{name}/set_brightness({want})", (m, f), f"Led.{name} must be set_brightness({want})")
    tg = m.func("Led.toggle")
    tr = CondTrace(lambda s: isinstance(s, ast.Expr) and isinstance(s.value, ast.Call) and norm(s.value.func) in ("self.on", "self.off"))
    tr.run_function(tg, frozenset({frozenset()}))
    for st, state in tr.hits:
        for alt in state:
            cs = conds(alt)
            want_on = norm(st.value.func) == "self.on"
            r.check((("self.state", not want_on) in cs) or (("not self.state", want_on) in cs), "Led.toggle/flips-state", (m, st), f"toggle calls {norm(st.value.func)} under {sorted(cs)}")
    # RGBLed
    m = mods["RGBLed"]
    rc = m.cls("RGBLed")
    vc = m.func("RGBLed._validate_component")
    tr = CondTrace(lambda s: isinstance(s, ast.Return))
    tr.run_function(vc, frozenset({frozenset()}))
    for st, state in tr.hits:
        for alt in state:
            iv = env_from_path(alt, tr.tests, ["value"], m, rc)["value"]
            r.check(iv.lo == 0 and iv.hi == 255, "RGBLed._validate_component/accepts-only-0..255", (m, st), f"a component in {iv} is accepted; invariant is [0, 255]")
            cs = conds(alt)
            r.check(("not isinstance(value, int)", False) in cs or ("isinstance(value, int)", True) in cs, "RGBLed._validate_component/int-only", (m, st), "non-integer components must be rejected")
            r.check(norm(st.value) in ("int(value)", "value"), "RGBLed._validate_component/returns-the-value", (m, st), f"returns `{norm(st.value)}`")
    sc = m.func("RGBLed.set_color")
    sloc = Locals(sc)
    stores = [st for a, st in self_stores(sc) if a == "_color"]
    r.check(len(stores) == 1, "RGBLed.set_color/one-store", (m, sc), "set_color must store the colour exactly once")
    for st in stores:
        v = sloc.resolve(st.value)
        okv = isinstance(v, ast.Tuple) and len(v.elts) == 3 and all(isinstance(e, ast.Call) and norm(e.func) == "self._validate_component" and e.args and norm(e.args[0]) == p for e, p in zip(v.elts, ("red", "green", "blue")))
        r.check(okv, "RGBLed.set_color/stores-validated(red,green,blue)", (m, st), f"_color := `{norm(v)}`; expected the three validated components in red, green, blue order")
        # validation completes before the store: the tuple is built before the assignment statement
        r.check(isinstance(st.value, ast.Name), "RGBLed.set_color/validate-then-store", (m, st), "all three components must be validated before _color is assigned")
    us = m.func("RGBLed._update_state")
    ust = [st for a, st in self_stores(us) if a == "_state"]
    r.check(len(ust) == 1 and norm(ust[0].value) in ("any((component > 0 for component in color))", "any((c > 0 for c in color))", "any(color)"), "RGBLed._update_state/any-channel>0", (m, us), f"_state := `{norm(ust[0].value) if ust else '?'}`")
    ucalls = [c for c in calls_in(sc) if norm(c.func) == "self._update_state"]
    r.check(len(ucalls) == 1 and norm(sloc.resolve(ucalls[0].args[0])) == norm(sloc.resolve(stores[0].value)) if stores else False, "RGBLed.set_color/state-from-stored-colour", (m, sc), "_update_state must be called with the colour just stored")
    offc = [c for c in calls_in(m.func("RGBLed.off")) if norm(c.func) == "self.set_color"]
    r.check(len(offc) == 1 and [norm(a) for a in offc[0].args] == ["0", "0", "0"], "RGBLed.off/set_color(0,0,0)", (m, m.func("RGBLed.off")), "off() must be set_color(0, 0, 0)")
    onc = [c for c in calls_in(m.func("RGBLed.on")) if norm(c.func) == "self.set_color"]
    r.check(len(onc) == 1 and [norm(a) for a in onc[0].args] == ["red", "green", "blue"], "RGBLed.on/set_color(red,green,blue)", (m, m.func("RGBLed.on")), "on() must forward its three components in order")
    # Servo
    m = mods["Servo"]
    svc = m.cls("Servo")
    for meth, par, lo, hi, own, other, conv in (("write", "angle", "self._min_angle", "self._max_angle", "_current_angle", "_current_pulse", "_angle_to_pulse"),
                                                 ("write_us", "pulse", "self._min_pulse", "self._max_pulse", "_current_pulse", "_current_angle", "_pulse_to_angle")):
        f = m.func(f"Servo.{meth}")
        tr = CondTrace(lambda s: isinstance(s, ast.Assign) and norm(s.targets[0]) in (f"self.{own}", f"self.{other}"),
                       marks=lambda s: {"OWN"} if isinstance(s, ast.Assign) and norm(s.targets[0]) == f"self.{own}" else set())
        out = tr.run_function(f, frozenset({frozenset()}))
        guard_txt = f"{lo} <= {par} <= {hi}"
        seen_own = seen_other = False
        for st, state in tr.hits:
            for alt in state:
                cs = conds(alt)
                guarded = (guard_txt, True) in cs or (f"not {guard_txt}", False) in cs
                r.check(guarded, f"Servo.{meth}/store-under-bounds-guard", (m, st), f"`{stmt_key(st)}` is reachable without the check {guard_txt}")
                if norm(st.targets[0]) == f"self.{own}":
                    seen_own = True
                    r.check(norm(st.value) in (f"float({par})", par), f"Servo.{meth}/stores-the-argument", (m, st), f"{own} := `{norm(st.value)}`")
                else:
                    seen_other = True
                    r.check(norm(st.value) == f"self.{conv}(self.{own})" and "OWN" in alt or norm(st.value) == f"self.{conv}({par})" or norm(st.value) == f"self.{conv}(float({par}))", f"Servo.{meth}/other-field-through-map", (m, st), f"{other} := `{norm(st.value)}`; expected {conv} of the stored value")
        r.check(seen_own and seen_other, f"Servo.{meth}/updates-both-fields", (m, f), f"{meth} must update both the angle and the pulse")
        # every normal exit has stored the argument (round-trip write/read)
        exits = [s for _n, s in out.ret] + ([out.fall] if out.fall is not None else [])
        for s in exits:
            for alt in s:
                r.check("OWN" in alt, f"Servo.{meth}/every-normal-exit-stores", (m, f), f"a path returns from {meth}() without storing the commanded {par}: read() would not return what was written")
    servo_maps(r, m)
    init = m.func("Servo.__init__")
    gtxt = [norm(n.test) for n in walk_local(init) if isinstance(n, ast.If) and any(isinstance(x, ast.Raise) for x in n.body)]
    r.check("min_angle >= max_angle" in gtxt and "min_pulse_us >= max_pulse_us" in gtxt, "Servo.__init__/rejects-empty-spans", (m, init), f"constructor guards: {gtxt}")
    # DCMotor
    m = mods["DCMotor"]
    dc = m.cls("DCMotor")
    cl = m.func("DCMotor._clamp_speed")
    for v, want in ((-2.0, -1.0), (-1.0, -1.0), (-0.25, -0.25), (0.0, 0.0), (0.5, 0.5), (1.0, 1.0), (1.5, 1.0), (3, 1.0), (True, 1.0), ("x", "TypeError"), (None, "TypeError")):
        try:
            out = dl.Interp(m).call(cl, [v])
        except dl.Unsupported as e:
            raise AnalysisError(f"DCMotor._clamp_speed left the decision-list subset: {e}")
        ok = (out.kind == "raise" and out.value == want) if isinstance(want, str) else (out.kind == "return" and out.value == want and isinstance(out.value, float))
        r.check(ok, f"DCMotor._clamp_speed/region[{'>1' if isinstance(v, (int, float)) and not isinstance(v, bool) and v > 1 else '<-1' if isinstance(v, (int, float)) and v < -1 else 'in-range' if isinstance(v, (int, float)) else 'non-number'}]", (m, cl), f"_clamp_speed({v!r}) -> {out!r}, expected {want!r}")
    ap = m.func("DCMotor._apply_speed")
    aloc = Locals(ap)
    eff = aloc.defs.get("effective", [])
    r.check(len(eff) == 1 and norm(eff[0]) in ("-speed if self._inverted else speed", "speed if not self._inverted else -speed"), "DCMotor._apply_speed/effective=±speed", (m, ap), f"effective := `{norm(eff[0]) if eff else '?'}`")
    tr = CondTrace(lambda s: isinstance(s, ast.Assign) and norm(s.targets[0]) in ("self._mode", "self._applied_speed"))
    tr.run_function(ap, frozenset({frozenset()}))
    for st, state in tr.hits:
        for alt in state:
            cs = conds(alt)
            if norm(st.targets[0]) == "self._mode":
                zero = ("effective == 0.0", True) in cs or ("effective == 0", True) in cs or ("effective != 0.0", False) in cs
                nonzero = ("effective == 0.0", False) in cs or ("effective == 0", False) in cs or ("effective != 0.0", True) in cs
                val = try_const(st.value)
                r.check((val == "coast" and zero) or (val == "drive" and nonzero), "DCMotor._apply_speed/mode=drive-iff-nonzero", (m, st), f"_mode := {val!r} under {sorted(cs)}")
            else:
                r.check(norm(st.value) == "effective", "DCMotor._apply_speed/applied=effective", (m, st), f"_applied_speed := `{norm(st.value)}`")
    # every normal exit of _apply_speed has (re)computed both the mode and the applied speed: no early return that keeps the
    # mode an earlier stop()/run_for() left (brake) when the same speed is applied again
    from ..flow import MustFacts

    class Stored(MustFacts):
        def gen(self, stmt):
            return {"stored:" + norm(t) for t in (stmt.targets if isinstance(stmt, ast.Assign) else []) if norm(t) in ("self._mode", "self._applied_speed")}

    so = Stored().run_function(ap, frozenset())
    exits = [st_ for _n, st_ in so.ret] + ([so.fall] if so.fall is not None else [])
    r.check(bool(exits) and all({"stored:self._mode", "stored:self._applied_speed"} <= set(e) for e in exits), "DCMotor._apply_speed/every-exit-stores-mode-and-applied-speed", (m, ap), "a path returns from _apply_speed without recomputing _mode/_applied_speed: after stop() (brake) a set_speed(0) would leave the bridge braked while the command means coast")
    ss = m.func("DCMotor.set_speed")
    sl_ = Locals(ss)
    st_sp = [st for a, st in self_stores(ss) if a == "_speed"]
    okss = len(st_sp) == 1 and norm(sl_.resolve(st_sp[0].value)) == "self._clamp_speed(value)"
    r.check(okss, "DCMotor.set_speed/stores-clamped", (m, ss), "_speed must be _clamp_speed(value)")
    apc = [c for c in calls_in(ss) if norm(c.func) == "self._apply_speed"]
    r.check(len(apc) == 1 and norm(sl_.resolve(apc[0].args[0])) == "self._clamp_speed(value)", "DCMotor.set_speed/applies-clamped", (m, ss), "_apply_speed must receive the clamped speed")
    for meth, mode in (("stop", "brake"), ("coast", "coast")):
        f = m.func(f"DCMotor.{meth}")
        vals = {a: try_const(st.value) for a, st in self_stores(f)}
        r.check(vals == {"_speed": 0.0, "_applied_speed": 0.0, "_mode": mode}, f"DCMotor.{meth}/zero-and-{mode}", (m, f), f"{meth}() stores {vals}")
    iv_ = m.func("DCMotor.invert")
    ist = [st for a, st in self_stores(iv_) if a == "_inverted"]
    r.check(len(ist) == 1 and norm(ist[0].value) == "not self._inverted", "DCMotor.invert/toggles", (m, iv_), "invert() must negate _inverted")
    ic = [c for c in calls_in(iv_) if norm(c.func) == "self._apply_speed"]
    r.check(len(ic) == 1 and norm(ic[0].args[0]) == "self._speed" and ist and ic[0].lineno > ist[0].lineno, "DCMotor.invert/re-applies-speed", (m, iv_), "invert() must re-apply the stored speed after toggling")
    bw = m.func("DCMotor.backward")
    bc = [c for c in calls_in(bw) if norm(c.func) == "self.set_speed"]
    bl = Locals(bw)
    okb = len(bc) == 1 and isinstance(bc[0].args[0], ast.UnaryOp) and norm(bl.resolve(bc[0].args[0].operand)) == "abs(self._clamp_speed(speed))"
    r.check(okb, "DCMotor.backward/negative-magnitude", (m, bw), "backward(speed) must command -abs(clamped speed)")

    # ---- C19-ATOMIC --------------------------------------------------------------------------
    r = cx.rule("C19-ATOMIC", "in every public method no explicit argument check raises after the first state mutation, and every call that can raise on a bad argument after the first mutation has that argument proven in range (intervals from dominating guards/clamps)", floor=25)
    for cname, m in mods.items():
        c = m.cls(cname)
        meths = meths_by[cname]
        state_attrs = set(WRITERS[cname])
        mut = mutating_methods(meths, state_attrs)
        for name, f in meths.items():
            if name.startswith("_"):
                continue
            params = {p[0] for p in func_params(f)} - {"self"}

            def is_mut(s, _mut=mut, _sa=state_attrs):
                if isinstance(s, (ast.If, ast.For, ast.While, ast.Try, ast.With, ast.FunctionDef)):
                    return False
                for x in walk_local(s):
                    if isinstance(x, ast.Attribute) and isinstance(x.ctx, ast.Store) and norm(x.value) == "self" and x.attr in _sa:
                        return True
                    if isinstance(x, ast.Call) and isinstance(x.func, ast.Attribute) and norm(x.func.value) == "self" and x.func.attr in _mut:
                        return True
                return False

            def contract_calls(s):
                out = []
                if isinstance(s, (ast.If, ast.For, ast.While, ast.Try, ast.With, ast.FunctionDef)):
                    return out
                for x in walk_local(s):
                    if isinstance(x, ast.Call):
                        fn_txt = norm(x.func)
                        if fn_txt in CONTRACTS or fn_txt in ("self.set_color",):
                            out.append(x)
                return out

            tr = CondTrace(lambda s: isinstance(s, ast.Raise) or bool(contract_calls(s)), marks=lambda s: {"MUT"} if is_mut(s) else set())
            tr.run_function(f, frozenset({frozenset()}))
            for st, state in tr.hits:
                for alt in state:
                    if "MUT" not in alt:
                        r.ok(None)
                        continue
                    if isinstance(st, ast.Raise):
                        names = set()
                        for fct in alt:
                            if isinstance(fct, tuple) and fct[0] == "c":
                                names |= set(fct[3])
                        if names & params:
                            # element-wise validation of a sequence parameter is outside "scalar argument"
                            loopvars = {n.id for fl in walk_local(f) if isinstance(fl, ast.For) for n in ast.walk(fl.target) if isinstance(n, ast.Name)}
                            encl_conds = [a for a in m.ancestors(st) if isinstance(a, ast.If)]
                            near = {n.id for n in ast.walk(encl_conds[0].test) if isinstance(n, ast.Name)} if encl_conds else set()
                            if near and near <= loopvars | {"self"}:
                                r.ok(f"{cname}.{name}: per-element check of a sequence (scoped exclusion)")
                                continue
                        if names & params or not names:
                            r.fail(f"{cname}.{name}/raise-after-mutation", (m, st), f"`{stmt_key(st)}` can execute after the object was already modified: a rejected call would not leave the object as it was")
                        else:
                            loopvars = {n.id for fl in walk_local(f) if isinstance(fl, ast.For) for n in ast.walk(fl.target) if isinstance(n, ast.Name)}
                            r.check(names <= loopvars | {"self"}, f"{cname}.{name}/raise-after-mutation", (m, st), f"`{stmt_key(st)}` can execute after the object was already modified", sample=f"{cname}.{name}: per-element check")
                        continue
                    for call in contract_calls(st):
                        fn_txt = norm(call.func)
                        key_txt = norm(call)
                        if (f"{cname}.{name}", key_txt) in FROZEN:
                            r.ok(f"{cname}.{name}: {key_txt} (frozen: {FROZEN[(f'{cname}.{name}', key_txt)][:40]})")
                            continue
                        if fn_txt == "self.set_color":
                            argsv = [norm(a) for a in call.args]
                            okc = all(try_const(a) is not None and 0 <= try_const(a) <= 255 for a in call.args) if call.args and not any(isinstance(a, ast.Starred) for a in call.args) else False
                            r.check(okc, f"{cname}.{name}/set_color({', '.join(argsv)})-after-mutation", (m, call), f"`{key_txt}` runs after the object was modified and its components are not proven to be validated 0..255 integers")
                            continue
                        for (lo, hi), a in zip(CONTRACTS[fn_txt], call.args):
                            iv = interval_of_arg(a, f, alt, tr.tests, m, c)
                            r.check(iv.within(lo, hi), f"{cname}.{name}/{fn_txt}({norm(a)})-in-range-after-mutation", (m, call), f"`{key_txt}` runs after the object was modified; its argument has range {iv} but {fn_txt} raises outside [{lo}, {hi}]: the failing call would leave the object half-updated", sample=f"{cname}.{name}: {key_txt} in {iv}")

    # ---- C19-SLEEPS --------------------------------------------------------------------------
    r = cx.rule("C19-SLEEPS", "blink sleeps exactly twice per repetition with the given delay, run_for sleeps exactly once and ends with stop(), fade/ramp delay per step is duration/steps with at most one sleep per step, interpolation formulas end exactly on the target", floor=15)
    is_sleep = lambda c: isinstance(c, ast.Call) and norm(c.func) == "_sleep"

    def per_iteration(m, f, loop, arg_txt, n_expected):
        cc = CallCount(is_sleep)
        o = cc.block(loop.body, (0, 0))
        ends = [x for x in (o.fall, o.cont) if x is not None]
        r.check(bool(ends) and all(e == (n_expected, n_expected) for e in ends), f"{m.rel.split('/')[-1][:-3]}.{f.name}/sleeps-per-iteration={n_expected}", (m, loop), f"sleeps per loop iteration: {ends}, expected exactly {n_expected}")
        for c_ in [c_ for c_ in calls_in(loop) if is_sleep(c_)]:
            r.check(len(c_.args) == 1 and norm(c_.args[0]) == arg_txt, f"{m.rel.split('/')[-1][:-3]}.{f.name}/sleep-argument", (m, c_), f"_sleep({norm(c_.args[0]) if c_.args else ''}), expected _sleep({arg_txt})")
        outside = [c_ for c_ in calls_in(f) if is_sleep(c_) and not any(a is loop for a in m.ancestors(c_))]
        r.check(not outside, f"{m.rel.split('/')[-1][:-3]}.{f.name}/no-sleep-outside-loop", (m, f), "extra sleep outside the repetition loop")

    for cname, meth, arg_txt, rng in (("Led", "blink", "duration_ms", "range(times)"), ("RGBLed", "blink", "delay_ms", "range(times)")):
        m = mods[cname]
        f = m.func(f"{cname}.{meth}")
        loops = [n for n in walk_local(f) if isinstance(n, ast.For)]
        r.check(len(loops) == 1 and norm(loops[0].iter) == rng, f"{cname}.{meth}/loop=range(times)", (m, f), f"blink must repeat exactly `times` times, loop is over {norm(loops[0].iter) if loops else '?'}")
        if loops:
            per_iteration(m, f, loops[0], arg_txt, 2)
    m = mods["RGBLed"]
    bl = m.func("RGBLed.blink")
    bloc = Locals(bl)
    last = [s for s in bl.body if not isinstance(s, ast.Pass)][-1]
    okl = isinstance(last, ast.Expr) and norm(last.value) == "self.set_color(*original)" and norm(bloc.resolve(ast.Name(id="original", ctx=ast.Load()))) == "self._color"
    r.check(okl, "RGBLed.blink/restores-original-colour-last", (m, last), "blink must end by restoring the colour read before the first change")
    orig_def = [n for n in walk_local(bl) if isinstance(n, ast.Assign) and norm(n.targets[0]) == "original"]
    loops = [n for n in walk_local(bl) if isinstance(n, ast.For)]
    r.check(bool(orig_def) and bool(loops) and orig_def[0].lineno < loops[0].lineno, "RGBLed.blink/original-read-before-loop", (m, bl), "the original colour must be captured before blinking starts")
    # RGBLed.fade
    fd = m.func("RGBLed.fade")
    floc = Locals(fd)
    loops = [n for n in walk_local(fd) if isinstance(n, ast.For) and "steps" in norm(n.iter)]
    r.check(len(loops) == 1 and norm(loops[0].iter) in ("range(1, steps + 1)",), "RGBLed.fade/steps-iterations", (m, fd), f"fade must take exactly `steps` steps ending at index == steps; loop is {norm(loops[0].iter) if loops else '?'}")
    if loops:
        lp = loops[0]
        cc = CallCount(is_sleep)
        o = cc.block(lp.body, (0, 0))
        ends = [x for x in (o.fall, o.cont) if x is not None]
        r.check(bool(ends) and all(e[1] <= 1 for e in ends), "RGBLed.fade/at-most-one-sleep-per-step", (m, lp), f"sleeps per step: {ends}")
        subst = {k: v[0] for k, v in floc.defs.items() if len(v) == 1 and isinstance(v[0], ast.expr)}
        for c_ in [c_ for c_ in calls_in(fd) if is_sleep(c_)]:
            try:
                okd = rat_equal(c_.args[0], ast.parse("duration_ms / steps", mode="eval").body, subst, {})
            except ValueError:
                okd = False
            r.check(okd, "RGBLed.fade/step-delay=duration/steps", (m, c_), f"per-step delay `{norm(floc.resolve(c_.args[0]))}` is not duration_ms/steps: the fade could take longer than requested")
            under = any(isinstance(a, ast.If) and norm(a.test) in ("index != steps", "index < steps") for a in m.ancestors(c_))
            r.check(under, "RGBLed.fade/no-sleep-after-last-step", (m, c_), "the last step must not be followed by a sleep")
        from fractions import Fraction
        hv, _it = host_fade_kernel(m)
        bad = None
        for s_ in range(1, 17):
            for a_, b_ in ((0, 255), (255, 0), (100, 101), (3, 200), (200, 3), (0, 1), (1, 0), (10, 17)):
                prev = a_
                for i_ in range(1, s_ + 1):
                    v_ = hv(a_, b_, i_, s_)
                    exact = a_ + Fraction((b_ - a_) * i_, s_)
                    good = isinstance(v_, int) and abs(v_ - exact) <= Fraction(1, 2) and (i_ != s_ or v_ == b_) and min(a_, b_) <= v_ <= max(a_, b_) and ((v_ >= prev) if b_ >= a_ else (v_ <= prev))
                    prev = v_
                    if not good and bad is None:
                        bad = f"fade {a_}->{b_} over {s_} steps: step {i_} gives {v_!r} (exact {float(exact):.3f})"
        r.check(bad is None, "RGBLed.fade/interpolation-ends-on-target", (m, fd), f"every step must be a nearest integer of current + (goal-current)*index/steps, monotone, exactly the target at index == steps; {bad}")
    # DCMotor
    m = mods["DCMotor"]
    dc = m.cls("DCMotor")
    r.check(try_const(ast.Attribute(value=ast.Name(id="self", ctx=ast.Load()), attr="_RAMP_STEPS", ctx=ast.Load()), m, dc) == 20, "DCMotor._RAMP_STEPS=20", (m, dc), "ramp must take 20 steps")
    rp = m.func("DCMotor.ramp")
    rloc = Locals(rp)
    loops = [n for n in walk_local(rp) if isinstance(n, ast.For)]
    r.check(len(loops) == 1 and norm(loops[0].iter) == "range(1, self._RAMP_STEPS + 1)", "DCMotor.ramp/steps-iterations", (m, rp), f"ramp loop is {norm(loops[0].iter) if loops else '?'}")
    if loops:
        lp = loops[0]
        o = CallCount(is_sleep).block(lp.body, (0, 0))
        ends = [x for x in (o.fall, o.cont) if x is not None]
        r.check(bool(ends) and all(e[1] <= 1 for e in ends), "DCMotor.ramp/at-most-one-sleep-per-step", (m, lp), f"sleeps per step: {ends}")
        subst = {k: v[0] for k, v in rloc.defs.items() if len(v) == 1 and isinstance(v[0], ast.expr)}
        for c_ in [c_ for c_ in calls_in(rp) if is_sleep(c_)]:
            d = rloc.resolve(c_.args[0])
            core_ = d.body if isinstance(d, ast.IfExp) else d
            try:
                okd = rat_equal(core_, ast.parse("duration_ms / self._RAMP_STEPS", mode="eval").body, subst, {})
            except ValueError:
                okd = False
            r.check(okd, "DCMotor.ramp/step-delay=duration/steps", (m, c_), f"per-step delay `{norm(d)}` is not duration_ms/_RAMP_STEPS")
        sc_ = [c_ for c_ in calls_in(lp) if norm(c_.func) == "self.set_speed"]
        try:
            oks = len(sc_) == 1 and rat_equal(sc_[0].args[0], ast.parse("start + (target - start) * step / self._RAMP_STEPS", mode="eval").body, subst, subst)
        except ValueError:
            oks = False
        r.check(oks, "DCMotor.ramp/linear-to-target", (m, lp), "ramp value must be start + (target-start)*step/_RAMP_STEPS (the clamped target at the last step)")
        r.check(norm(rloc.resolve(ast.Name(id="target", ctx=ast.Load()))) == "self._clamp_speed(target_speed)" and norm(rloc.resolve(ast.Name(id="start", ctx=ast.Load()))) == "self._speed", "DCMotor.ramp/start=current,target=clamped", (m, rp), "ramp must start at the current speed and aim at the clamped target")
    rf = m.func("DCMotor.run_for")
    cc = CallCount(is_sleep).run_function(rf, (0, 0))
    ex = [s for _n, s in cc.ret] + ([cc.fall] if cc.fall is not None else [])
    r.check(bool(ex) and all(e == (1, 1) for e in ex), "DCMotor.run_for/sleeps-exactly-once", (m, rf), f"sleeps per path: {ex}")
    for c_ in [c_ for c_ in calls_in(rf) if is_sleep(c_)]:
        r.check(len(c_.args) == 1 and norm(c_.args[0]) == "duration_ms", "DCMotor.run_for/sleep(duration_ms)", (m, c_), f"_sleep({norm(c_.args[0]) if c_.args else ''})")
    last = rf.body[-1]
    r.check(isinstance(last, ast.Expr) and norm(last.value) == "self.stop()", "DCMotor.run_for/ends-braked", (m, last), "run_for must end with stop()")

    # ---- C19-MOTOR-LAW -----------------------------------------------------------------------
    rule_motor_law(cx)


def rule_motor_law(cx, rid="C19-MOTOR-LAW"):
    """the DCMotor clauses of the property evaluated on the host class itself (checker's interpreter, sleeps recorded): from
    every state of a grid and for every command with in-range, boundary and out-of-range arguments"""
    from . import c04
    m = mod(CLASSES["DCMotor"])
    r = cx.rule(rid, "DCMotor, from every state of {speed -1,-0.5,0,0.5,1} x inverted x mode and for every command/argument of a grid: |speed|<=1, applied = +-speed, mode = drive iff applied != 0 else brake after stop/run_for and coast otherwise, invert twice is the identity, ramp ends on the clamped target after exactly 20 monotone steps with 20 waits of duration/20 (never longer than the duration), run_for waits exactly once and ends braked, a raising call leaves the object unchanged", floor=400, exhaustive=True)
    cmds = [("set_speed", [v_]) for v_ in (-2, -1, -0.5, 0, 0.5, 1, 3, True)] + [("backward", [v_]) for v_ in (0, 0.5, 1, -0.5, 2)] + [("backward", [])] + \
           [("stop", []), ("coast", []), ("invert", [])] + [("ramp", [t_, d_]) for t_ in (-2, -0.5, 0, 0.5, 1) for d_ in (0, 100, 1000, -1)] + \
           [("run_for", [d_, v_]) for v_ in (-1, 0, 0.5) for d_ in (0, 250, -5)]
    attrs = ("_speed", "_applied_speed", "_mode", "_inverted")
    n_bad = 0

    def report(meth, args, st, why):
        nonlocal n_bad
        n_bad += 1
        if n_bad <= 4:
            r.fail(f"DCMotor.{meth}/law", (m, m.func(f"DCMotor.{meth}")), f"from (speed {st[0]}, inverted {st[1]}, mode {st[2]}): motor.{meth}({', '.join(map(str, args))}) {why}", detail={"method": meth, "args": [repr(a) for a in args], "state": list(st)})
        else:
            r.stat.obligations += 1
            r.stat.failed += 1

    for meth, args in cmds:
        fn = m.func(f"DCMotor.{meth}")
        for sp in (-1.0, -0.5, 0.0, 0.5, 1.0):
            for inv in (False, True):
                for mode0 in (("drive",) if sp != 0 else ("coast", "brake")):
                    o = c04.host_object(m, "DCMotor", 2, 4, 9)
                    o._speed, o._inverted, o._mode, o._applied_speed = sp, inv, mode0, (-sp if inv else sp)
                    before = tuple(getattr(o, a_) for a_ in attrs)
                    trace = []
                    try:
                        out = dl.Interp(m, opaque={"_sleep": lambda ms, _t=trace, _o=o: _t.append((ms, _o._speed))}).call(fn, [o] + list(args))
                    except dl.Unsupported as e:
                        raise AnalysisError(f"host DCMotor.{meth} left the evaluable subset: {e}")
                    st = (sp, inv, mode0)
                    after = tuple(getattr(o, a_) for a_ in attrs)
                    if out.kind == "raise":
                        bad_arg = (meth == "ramp" and args[1] < 0) or (meth == "run_for" and args[0] < 0)
                        if not bad_arg:
                            report(meth, args, st, f"raises {out.value} for a valid argument")
                        elif after != before or trace:
                            report(meth, args, st, f"raises {out.value} but leaves {after} (was {before}) after {len(trace)} waits")
                        else:
                            r.ok(None)
                        continue
                    why = None
                    if not abs(o._speed) <= 1:
                        why = f"leaves |speed| = {abs(o._speed)} > 1"
                    elif o._applied_speed != (-o._speed if o._inverted else o._speed):
                        why = f"leaves applied {o._applied_speed} with speed {o._speed}, inverted {o._inverted}"
                    else:
                        want_mode = "drive" if o._applied_speed != 0 else ("brake" if meth in ("stop", "run_for") else "coast")
                        if meth == "invert" and o._applied_speed == 0:
                            want_mode = None if False else "coast"
                        if o._mode != want_mode:
                            why = f"leaves mode {o._mode!r}; the law gives {want_mode!r} (applied {o._applied_speed})"
                    clamp = lambda v_: max(-1.0, min(1.0, float(v_)))
                    if why is None and meth == "ramp":
                        t_, d_ = args
                        if abs(o._speed - clamp(t_)) > 1e-9:
                            why = f"ends at {o._speed}, clamped target {clamp(t_)}"
                        elif d_ > 0 and (len(trace) != 20 or any(abs(w_ - d_ / 20) > 1e-9 for w_, _s in trace) or sum(w_ for w_, _s in trace) > d_ + 1e-9):
                            why = f"waits {len(trace)} time(s) ({sorted(set(w_ for w_, _s in trace))}); the law is 20 waits of {d_ / 20}"
                        elif d_ > 0:
                            seq = [sp] + [s_ for _w, s_ in trace]
                            up = clamp(t_) >= sp
                            if any((b_ < a_ - 1e-12) if up else (b_ > a_ + 1e-12) for a_, b_ in zip(seq, seq[1:])):
                                why = f"steps are not monotone: {seq}"
                        elif d_ == 0 and trace:
                            why = f"waits {len(trace)} time(s) although the duration is 0"
                    if why is None and meth == "run_for":
                        if [w_ for w_, _s in trace] != [args[0]]:
                            why = f"waits {[w_ for w_, _s in trace]}; the law is exactly one wait of {args[0]}"
                        elif o._mode != "brake" or o._speed != 0:
                            why = f"ends (speed {o._speed}, mode {o._mode}), not braked"
                    if why is None and meth == "invert":
                        out2 = dl.Interp(m).call(fn, [o])
                        back = tuple(getattr(o, a_) for a_ in attrs)
                        if out2.kind != "return" or (back[0], back[1], back[3]) != (before[0], before[1], before[3]):
                            why = f"twice gives {back}, started from {before}: not an involution"
                    if why is None and meth not in ("ramp", "run_for") and trace:
                        why = f"waits {len(trace)} time(s)"
                    if why:
                        report(meth, args, st, why)
                    else:
                        r.ok(None)
    return r

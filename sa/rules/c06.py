"""C06 - accepted scripts always yield well-formed, compilable Arduino C++."""
from __future__ import annotations

import ast
import itertools
import re

from .. import cxx, dl, l2, lit, pe
from ..core import AnalysisError
from ..src import Locals, call_name, mod, norm, stmt_key, walk_local

PARSER = "transpile/parser.py"
EMITTER = "transpile/emitter.py"
TEXT_FIELDS = {"text", "value", "label", "top", "bottom", "expr"}


def c_unescape(body: str):
    """decode the body of a C string literal; None if it is not a valid body"""
    out = []
    i = 0
    while i < len(body):
        ch = body[i]
        if ch == '"' or ch == "\n":
            return None
        if ch == "\\":
            if i + 1 >= len(body):
                return None
            nx = body[i + 1]
            simple = {"n": "\n", "t": "\t", "r": "\r", "\\": "\\", '"': '"', "'": "'", "a": "\a", "b": "\b", "f": "\f", "v": "\v", "?": "?"}
            mo = re.match(r"[0-7]{1,3}", body[i + 1:])
            if mo:
                # octal escape: at most three digits
                if int(mo.group(0), 8) > 0xFF:
                    return None
                out.append(chr(int(mo.group(0), 8)))
                i += 1 + len(mo.group(0))
                continue
            if nx in simple:
                out.append(simple[nx])
                i += 2
                continue
            if nx == "x":
                m = re.match(r"[0-9a-fA-F]+", body[i + 2:])
                if not m:
                    return None
                if int(m.group(0), 16) > 0xFF:
                    return None      # hex escapes are greedy: `\xb0C` is one out-of-range escape, an error for clang
                out.append(chr(int(m.group(0), 16)))
                i += 2 + len(m.group(0))
                continue
            return None
        out.append(ch)
        i += 1
    return "".join(out)


def programs_for_schema(tier):
    """(label, setup nodes, loop nodes, kwargs) covering every IR action class in every field-type variant"""
    cls, fields = pe.ir_classes()
    progs = []
    for cname in sorted(cls):
        dev = l2.device_of(cname)
        if cname in ("Program", "ConditionalBranch", "CatchClause", "FunctionDef", "IfStatement", "WhileLoop", "ForRangeLoop", "TryStatement") or cname.endswith("Decl") and cname != "VarDecl":
            continue
        if dev == "LCD":
            decls = [("parallel+backlight", l2.lcd_decl("parallel", True)), ("parallel", l2.lcd_decl("parallel", False)), ("i2c", l2.lcd_decl("i2c"))]
        elif dev:
            decls = [("", l2.decl_node(dev))]
        else:
            decls = [("", None)]
        for dlabel, d in decls:
            for kw, node in pe.variants(cname, limit=(16 if tier == 'quick' else 400)):
                pre = [d] if d is not None else []
                if cname == "ButtonPoll":
                    pre = [l2.decl_node("Button", on_click=None)]
                if cname == "LCDTick":
                    pre = [d, cls["LCDAnimate"](name="dev", animation="scroll", row=0, text="H_text_text", speed_ms=200, loop=False)]
                if cname == "ReturnStmt":
                    continue
                if cname == "VarDecl":
                    if kw.get("global_scope"):
                        continue
                    node = cls["VarDecl"](name="v", c_type="int", expr=kw["expr"], global_scope=False)
                if cname == "VarAssign":
                    pre = [cls["VarDecl"](name="v", c_type="int", expr="0", global_scope=False)]
                    node = cls["VarAssign"](name="v", expr=kw["expr"])
                if cname == "BreakStmt":
                    node = cls["WhileLoop"](condition="H_c", body=[node])
                label = f"{cname}[{dlabel}]{ {k: v for k, v in kw.items() if k != 'name'} }"
                progs.append((label, pre + [node], [], {}))
                if cname in ("LedOn", "RGBLedOn", "ServoWrite", "DCMotorSetSpeed", "BuzzerStop") and dev in ("Led", "RGBLed", "Servo", "DCMotor"):
                    # the documented alternative placement: device declared at the top of the main loop body
                    progs.append((label + "@loop", [], pre + [node], {}))
    # declarations alone, every variant, both placements for the hoisted kinds
    for dev, cname in l2.DECL_FOR.items():
        fixed = {}
        for kw, node in pe.variants(cname):
            if cname == "LCDDecl":
                i2c = kw.get("interface") == "i2c"
                if i2c and kw.get("i2c_addr") is None:
                    continue
                if not i2c and any(kw.get(p) is None for p in ("rs", "en", "d4", "d5", "d6", "d7")):
                    continue
            progs.append((f"{cname}{ {k: v for k, v in kw.items() if k != 'name'} }", [node], [], {}))
            if dev in ("Led", "RGBLed", "Servo", "DCMotor", "Button", "Potentiometer", "Ultrasonic"):
                progs.append((f"{cname}@loop", [], [node], {}))
    # control flow and functions
    S = cls["Sleep"]
    progs.append(("IfStatement", [cls["IfStatement"](branches=[cls["ConditionalBranch"](condition="H_a", body=[S(ms=1)]), cls["ConditionalBranch"](condition="H_b", body=[S(ms=2)])], else_body=[S(ms=3)])], [], {}))
    progs.append(("WhileLoop", [cls["WhileLoop"](condition="H_a", body=[S(ms=1), cls["BreakStmt"]()])], [], {}))
    progs.append(("ForRangeLoop", [cls["ForRangeLoop"](var_name="i", count="H_n", body=[cls["ExprStmt"](expr="i")])], [], {}))
    progs.append(("ForRangeLoop-literal", [cls["ForRangeLoop"](var_name="i", count=3, body=[S(ms="i")])], [], {}))
    fdef = cls["FunctionDef"](name="helper", params=[("a", "int"), ("b", "float")], body=[cls["VarDecl"](name="t", c_type="float", expr="(a + b)"), cls["ReturnStmt"](expr="t")], return_type="float")
    fvoid = cls["FunctionDef"](name="act", params=[], body=[S(ms=5), cls["ReturnStmt"](expr=None)], return_type="void")
    progs.append(("FunctionDef", [cls["ExprStmt"](expr="helper(1, 2.0)"), cls["ExprStmt"](expr="act()")], [], {"functions": [fdef, fvoid]}))
    # overloads of one def (specialised per call signature): each call site needs its own overload
    ftag_i = cls["FunctionDef"](name="tag", params=[("v", "int")], body=[cls["ReturnStmt"](expr="v")], return_type="int")
    ftag_s = cls["FunctionDef"](name="tag", params=[("v", "String")], body=[cls["ReturnStmt"](expr="v")], return_type="String")
    progs.append(("FunctionDef-overloads", [cls["VarAssign"](name="cnt", expr="tag(3)"), cls["VarAssign"](name="nm", expr='tag(String("sensor"))')], [],
                  {"functions": [ftag_i, ftag_s], "global_decls": [cls["VarDecl"](name="cnt", c_type="int", expr="0", global_scope=True), cls["VarDecl"](name="nm", c_type="String", expr='String("")', global_scope=True)]}))
    # a function that measures distance: the generated helper must be declared before it
    fnear = cls["FunctionDef"](name="near", params=[], body=[cls["ReturnStmt"](expr="(__redu_ultrasonic_measure_dev() < 10)")], return_type="bool")
    progs.append(("FunctionDef+ultrasonic", [l2.decl_node("Ultrasonic")], [cls["VarAssign"](name="flag", expr="near()")],
                  {"functions": [fnear], "ultrasonic": {"dev"}, "global_decls": [cls["VarDecl"](name="flag", c_type="bool", expr="false", global_scope=True)]}))
    # globals + list/len helpers
    gl = [cls["VarDecl"](name="xs", c_type="__redu_list<int>", expr="__redu_list<int>()", global_scope=True), cls["VarDecl"](name="n", c_type="int", expr="0", global_scope=True)]
    progs.append(("lists", [cls["ExprStmt"](expr="__redu_list_assign(xs, __redu_make_list<int>(1, 2, 3))"), cls["ExprStmt"](expr="__redu_list_append(xs, 4)"),
                            cls["VarAssign"](name="n", expr="static_cast<int>(__redu_len(xs))"), cls["VarAssign"](name="n", expr="__redu_list_get(xs, -1)"),
                            cls["ExprStmt"](expr="__redu_list_remove(xs, 2)"), cls["VarAssign"](name="xs", expr="__redu_list_from_range<int>(0, 5, 1, [&](int i) { return (i * 2); })")],
                  [], {"helpers": {"list", "len"}, "global_decls": gl}))
    # every combination of helper snippets with a use of each registered helper (len() of a String next to lists)
    gs = [cls["VarDecl"](name="txt", c_type="String", expr='String("abc")', global_scope=True), cls["VarDecl"](name="n", c_type="int", expr="0", global_scope=True)]
    progs.append(("len(String)", [cls["VarAssign"](name="n", expr="static_cast<int>(__redu_len(txt))")], [], {"helpers": {"len"}, "global_decls": gs}))
    progs.append(("lists+len(String)", [cls["VarAssign"](name="n", expr="static_cast<int>(__redu_len(txt))"), cls["VarAssign"](name="n", expr="static_cast<int>(__redu_len(xs))"), cls["ExprStmt"](expr="__redu_list_append(xs, n)")], [],
                  {"helpers": {"list", "len"}, "global_decls": gs + [gl[0]]}))
    progs.append(("lists-only", [cls["ExprStmt"](expr="__redu_list_append(xs, 4)")], [], {"helpers": {"list"}, "global_decls": [gl[0]]}))
    # several library-backed devices in one sketch, both declaration orders (each needs its own header and object)
    def _lcd(kind, nm):
        if kind == "i2c":
            return cls["LCDDecl"](name=nm, cols=16, rows=2, interface="i2c", i2c_addr=39)
        return cls["LCDDecl"](name=nm, cols=16, rows=2, interface="parallel", rs=12, en=11, d4=5, d5=4, d6=3, d7=2, backlight_pin=None)
    for order in (("parallel", "i2c"), ("i2c", "parallel")):
        decls = [_lcd(k_, f"lcd{i_}") for i_, k_ in enumerate(order)]
        progs.append((f"LCD {'+'.join(order)}+Servo", decls + [cls["ServoDecl"](name="sv", pin=9)] + [cls["LCDClear"](name="lcd0"), cls["LCDClear"](name="lcd1"), cls["ServoWrite"](name="sv", angle="H_angle")], [], {}))
    # button with a callback declared as function
    cb = cls["FunctionDef"](name="on_press", params=[], body=[S(ms=1)], return_type="void")
    progs.append(("Button+callback", [l2.decl_node("Button", on_click="on_press")], [cls["ButtonPoll"](name="dev")], {"functions": [cb]}))
    # animation started in setup, ticked in loop
    progs.append(("LCDAnimate+tick", [l2.lcd_decl("i2c"), cls["LCDAnimate"](name="dev", animation="bounce", row=0, text="H_text_text", speed_ms="H_s", loop="H_l")], [cls["LCDTick"](name="dev")], {}))
    return progs


def _worker(args):
    lo, hi, tier = args
    progs = programs_for_schema(tier)
    out = []
    for label, setup, loop, kw in progs[lo:hi]:
        try:
            res = pe.emit_program(setup=setup, loop=loop, **kw)
            out.append((res.text, sorted(res.cov), res.raised, None))
        except AnalysisError as e:
            out.append((None, [], None, str(e)))
    return out


def _emit_all(n, tier):
    """partial evaluation of all fabricated programs, spread over processes (each rebuilds the same list)"""
    import concurrent.futures as cf
    import os
    from sa.core import workers as _workers
    workers = _workers(12)
    step = (n + workers - 1) // workers
    chunks = [(i, min(n, i + step), tier) for i in range(0, n, step)]
    res = []
    try:
        with cf.ProcessPoolExecutor(max_workers=workers) as ex:
            parts = list(ex.map(_worker, chunks))
    except Exception:
        parts = [_worker(c) for c in chunks]
    for part in parts:
        for text, cov, raised, err in part:
            if err:
                raise AnalysisError(err)
            res.append(pe.EmitResult(text, text.splitlines() if text else None, set(map(tuple, cov)), raised))
    return res


def wrap_namespaces(texts, hole_type_of):
    """one translation unit: includes first, then each sketch in its own namespace"""
    includes = []
    bodies = []
    for i, t in enumerate(texts):
        body = []
        for line in t.split("\n"):
            if line.startswith("#include"):
                if line not in includes:
                    includes.append(line)
            else:
                body.append(line)
        bodies.append(body)
    out = list(includes)
    line_map = []
    for i, body in enumerate(bodies):
        out.append(f"namespace v{i} {{")
        for h in cxx.holes_in("\n".join(body)):
            out.append(f"extern {hole_type_of(h)} {h};")
        start = len(out)
        out.extend(body)
        line_map.append((start, len(out), i))
        out.append("}")
    return "\n".join(out) + "\n", line_map


def run(cx):
    pm, em = mod(PARSER), mod(EMITTER)
    cx.consulted(pm)
    cx.consulted(em)
    cx.explanation = (
        "the emitter is partially evaluated by the checker's own interpreter on fabricated IR (placeholders for user "
        "expressions) for every IR class in every field-type variant and both declaration placements; the extracted C++ "
        "(complete sketches: includes, helper templates, globals, functions, setup, loop) is type-checked with "
        "clang -fsyntax-only against a mock Arduino core; helper snippets are instantiated for int/float/String; the "
        "string escaper is evaluated over all printable ASCII; section order and helper pairing are checked on the extracted "
        "text.  Whether a particular user program's hoisted variables are in scope is not decided."
        ' Since round 10 every accepted script of the whole-sketch corpus (sa/e2e.py) must also yield a translation unit clang accepts.'
    )
    tier = cx.tier

    # ---- C06-E2E: accepted corpus scripts compile ------------------------------------------------
    from .. import e2e
    e2e.rule_compiles(cx, "C06-E2E", (pm, pm.func("parse")))

    # ---- C06-SNIPPETS ------------------------------------------------------------------------
    r = cx.rule("C06-SNIPPETS", "the list/len/LCD helper templates type-check when instantiated for int, float and String elements and both LCD classes", floor=4)
    lst = lit.table(em, "LIST_HELPER_SNIPPET")
    ln = lit.table(em, "LEN_HELPER_SNIPPET")
    lcd = lit.table(em, "LCD_HELPER_SNIPPET")
    drv = ["#include <Arduino.h>", "#include <LiquidCrystal.h>", "#include <LiquidCrystal_I2C.h>", lst, ln, lcd]
    for i, (T, vals) in enumerate((("int", "1, 2, 3"), ("float", "1.5f, 2, 3"), ("String", '"a", String("b")'))):
        drv.append(f"""void use_{i}() {{
  __redu_list<{T}> a = __redu_make_list<{T}>({vals});
  __redu_list<{T}> e = __redu_make_list<{T}>();
  {T} x = __redu_list_get(a, -1);
  const __redu_list<{T}> &c = a;
  {T} y = __redu_list_get(c, 0);
  __redu_list_append(a, x);
  __redu_list_remove(a, y);
  __redu_list_assign(e, a);
  int n = static_cast<int>(__redu_len(a));
  (void)n;
}}""")
    drv.append("""void use_range() { __redu_list<int> r = __redu_list_from_range<int>(0, 5, 2, [&](int i) { return (i * 2); }); int n = static_cast<int>(__redu_len(String("abc"))); (void)n; (void)r; }""")
    for j, (C, ctor) in enumerate((("LiquidCrystal", "(12, 11, 5, 4, 3, 2)"), ("LiquidCrystal_I2C", "(39, 16, 2)"))):
        drv.append(f"""{C} lcd_{j}{ctor};
__redu_lcd_animation_state st_{j};
void use_lcd_{j}() {{
  __redu_lcd_clear_row(lcd_{j}, 16, 0);
  __redu_lcd_write_aligned(lcd_{j}, 16, 0, 0, String("x"), true, __redu_lcd_align_center);
  __redu_lcd_progress(lcd_{j}, 16, 0, 1, 2, 3, '#', String(""));
  __redu_lcd_start_scroll(st_{j}, lcd_{j}, 16, 0, String("x"), 200UL, true); __redu_lcd_tick_scroll(st_{j}, lcd_{j}, 16);
  __redu_lcd_start_blink(st_{j}, lcd_{j}, 16, 0, String("x"), 200UL, true); __redu_lcd_tick_blink(st_{j}, lcd_{j}, 16);
  __redu_lcd_start_typewriter(st_{j}, lcd_{j}, 16, 0, String("x"), 200UL, true); __redu_lcd_tick_typewriter(st_{j}, lcd_{j}, 16);
  __redu_lcd_start_bounce(st_{j}, lcd_{j}, 16, 0, String("x"), 200UL, true); __redu_lcd_tick_bounce(st_{j}, lcd_{j}, 16);
}}""")
    errs = cxx.typecheck("\n".join(drv))
    r.check(not errs, "helper-snippets/type-check", (em.rel, em.const("LIST_HELPER_SNIPPET").lineno), "helper templates do not type-check: " + "; ".join(errs[:3]), sample="list<int|float|String>, len, LCD helpers x 2 LCD classes")
    for nm in ("LIST_HELPER_SNIPPET", "LEN_HELPER_SNIPPET", "LCD_HELPER_SNIPPET"):
        t = lit.table(em, nm)
        r.check(t.count("{") == t.count("}") and t.count("(") == t.count(")"), f"{nm}/balanced", (em.rel, em.const(nm).lineno), f"{nm} has unbalanced braces/parentheses")

    # ---- C06-SCHEMA --------------------------------------------------------------------------
    r = cx.rule("C06-SCHEMA", "every IR class in every field-type variant (literal / run-time expression / optional absent), device declared before the loop or at the top of it, yields a complete sketch that type-checks: every identifier declared before use with a consistent type, exactly one setup() and one loop()", floor=150)
    progs = programs_for_schema(tier)
    texts, labels = [], []
    cov = set()
    results = _emit_all(len(progs), tier)
    for (label, setup, loop, kw), res in zip(progs, results):
        cov |= res.cov
        if res.raised:
            r.fail(f"emit-raises[{label.split('[')[0].split('{')[0]}]", (em, em.func("emit")), f"emit() raises {res.raised} for {label}")
            continue
        t = res.text
        ok_shape = len(re.findall(r"^void setup\(\) \{", t, re.M)) == 1 and len(re.findall(r"^void loop\(\) \{", t, re.M)) == 1 and t.count("{") == t.count("}")
        r.check(ok_shape, f"sketch-shape[{label.split('[')[0].split('{')[0]}]", (em, em.func("emit")), f"sketch for {label} does not have exactly one setup()/loop() with balanced braces", sample=None)
        # the batch below shares one include block between sketches, so the include closure is decided per sketch here:
        # every library class a sketch names is declared by a header that very sketch includes
        body_txt = "\n".join(l_ for l_ in t.split("\n") if not l_.startswith("#include"))
        need = {h for h, pat in (("Servo.h", r"\bServo\b"), ("LiquidCrystal_I2C.h", r"\bLiquidCrystal_I2C\b"), ("LiquidCrystal.h", r"\bLiquidCrystal\b(?!_)"), ("Wire.h", r"\bWire\.")) if re.search(pat, body_txt)}
        have = set(re.findall(r"^#include <([\w.]+)>", t, re.M))
        r.check(need <= have and "Arduino.h" in have, f"includes[{label.split('[')[0].split('{')[0]}]/library-header-for-every-class-used", (em, em.func("emit")), f"sketch for {label} uses classes from {sorted(need)} but includes only {sorted(have)}", sample=None)
        texts.append(t)
        labels.append(label)
    hole_types = ["int"] if tier == "quick" else ["int", "float", "String"]
    for ht in hole_types:
        def hole_type_of(h, ht=ht):
            if ht == "String":
                return "String" if h.startswith("H_text") else "int"
            return ht
        bad = {}
        uniq = {}
        for i, t in enumerate(texts):
            uniq.setdefault(t, []).append(i)
        utexts = list(uniq)
        nchunks = max(1, min(12, len(utexts) // 20))
        chunk_sz = (len(utexts) + nchunks - 1) // nchunks
        jobs = []
        for c0 in range(0, len(utexts), chunk_sz):
            part = utexts[c0:c0 + chunk_sz]
            tu, line_map = wrap_namespaces(part, hole_type_of)
            jobs.append((tu, line_map, c0))
        import concurrent.futures as cf
        with cf.ThreadPoolExecutor(max_workers=__import__('sa.core', fromlist=['workers']).workers(12)) as ex:
            outs = list(ex.map(lambda j: cxx.typecheck(j[0]), jobs))
        for (tu, line_map, c0), errs in zip(jobs, outs):
            for e in errs:
                m = re.match(r"line (\d+): (.*)", e)
                ln_ = int(m.group(1)) if m else 0
                idx = next((i for (a, b, i) in line_map if a < ln_ <= b + 1), None)
                if idx is not None:
                    for orig in uniq[utexts[c0 + idx]]:
                        bad.setdefault(orig, []).append(m.group(2))
                elif not m:
                    raise AnalysisError("clang failed on the extracted translation unit: " + e[:200])
        for i, label in enumerate(labels):
            if i in bad:
                first = bad[i][0]
                key = f"typecheck[{label.split('[')[0].split('{')[0].split('@')[0]}]"
                # `a ** b` style operator errors are the parser's, reported by C06-OPS-CXX
                r.fail(key, (em, em.func("_emit_block")), f"the sketch extracted for {label} (holes as {ht}) does not compile: {first[:200]}", detail={"errors": bad[i][:5]})
            else:
                r.ok(f"{label[:70]} [{ht}]")
    # branch coverage of the emitter by the fabricated programs
    eb, ef = em.func("_emit_block"), em.func("emit")
    sites = pe.if_sites(eb, eb.lineno, eb.end_lineno) | pe.if_sites(ef, ef.lineno, ef.end_lineno)
    covered = {(l, c) for (l, c, t) in cov}
    both = {(l, c) for (l, c) in sites if (l, c, True) in cov and (l, c, False) in cov}
    cx.extra["emitter_branch_sites"] = len(sites)
    cx.extra["emitter_branch_sites_reached"] = len(sites & covered)
    cx.extra["emitter_branch_sites_both_ways"] = len(both)
    unreached = sorted(sites - covered)
    cx.extra["emitter_branches_not_reached"] = [f"emitter.py:{l}" for l, _c in unreached][:40]
    if len(sites & covered) < 0.85 * len(sites):
        raise AnalysisError(f"fabricated programs reach only {len(sites & covered)}/{len(sites)} branch sites of the emitter")

    # ---- C06-STITCH --------------------------------------------------------------------------
    r = cx.rule("C06-STITCH", "sections are stitched in dependency order: includes, helper templates, globals, generated ultrasonic helpers, user functions, setup(), loop()", floor=5)
    cls, _ = pe.ir_classes()
    fnear = cls["FunctionDef"](name="near", params=[], body=[cls["ReturnStmt"](expr="(__redu_ultrasonic_measure_dev() < xs_len)")], return_type="bool")
    res = pe.emit_program(setup=[l2.decl_node("Ultrasonic"), l2.decl_node("Servo"), l2.lcd_decl("i2c")], loop=[cls["ExprStmt"](expr="near()")], functions=[fnear], ultrasonic={"dev"}, helpers={"list", "len"},
                          global_decls=[cls["VarDecl"](name="xs_len", c_type="int", expr="0", global_scope=True)])
    if res.raised:
        raise AnalysisError("emit() raises on the section-order program")
    t = res.text
    pos = {
        "includes": max(t.rfind("#include <"), 0),
        "lcd-helper": t.find("enum __redu_lcd_align"),
        "list-helper": t.find("struct __redu_list"),
        "globals": t.find("int xs_len"),
        "ultrasonic-helper": t.find("float __redu_ultrasonic_measure_dev()"),
        "functions": t.find("bool near()"),
        "setup": t.find("void setup()"),
        "loop": t.find("void loop()"),
    }
    order = ["includes", "lcd-helper", "list-helper", "globals", "ultrasonic-helper", "functions", "setup", "loop"]
    for a, b in zip(order, order[1:]):
        okp = pos[a] >= 0 and pos[b] >= 0 and pos[a] < pos[b]
        if a == "includes":
            okp = pos[b] > t.find("#include <LiquidCrystal_I2C.h>") >= 0
        r.check(okp, f"stitch/{a}-before-{b}", (em, em.func("emit")), f"section `{a}` must precede `{b}` (a later section may use identifiers of an earlier one); positions {pos}")

    # ---- C06-ESCAPE --------------------------------------------------------------------------
    r = cx.rule("C06-ESCAPE", "string literals are escaped into valid C literals that decode to the original text (all printable ASCII characters, pairs with backslash/quote, control characters, Latin-1 characters followed by hex digits)", floor=100, exhaustive=True)
    esc = pm.func("_escape_string_literal")
    chars = [chr(c) for c in range(32, 127)]
    samples = chars + [a + b for a in ("\\", '"', "x") for b in ("\\", '"', "n", "x")] + ['C:\\data\\', 'say "hi"', '\\"', 'tab\\there', "%d{}"] + \
        ["a\nb", "tab\there", "cr\rlf\n", "bell\x07!", "esc\x1b[0m", "nul\x000", "del\x7f1", "25\u00b0C", "d\u00e9cor", "\u00e91", "\u00fca", "caf\u00e9", "\u00b5F"]
    nbad = 0
    for s in samples:
        try:
            out = dl.Interp(pm, opaque={"re.sub": re.sub}).call(esc, [s])
        except dl.Unsupported as e:
            raise AnalysisError(f"_escape_string_literal left the evaluable subset: {e}")
        ok = out.kind == "return" and isinstance(out.value, str) and c_unescape(out.value) == s
        if ok:
            r.ok(None)
        else:
            nbad += 1
            if nbad <= 3:
                r.fail("_escape_string_literal/roundtrip", (pm, esc), f"{s!r} is escaped as {out.value!r} which {'is not a valid C literal body' if out.kind == 'return' and c_unescape(out.value or '') is None else 'decodes to something else'}")
    tce = pm.func("_to_c_expr")
    for s in ['a\\b', 'q"q', 'C:\\dir\\', "plain", "50%"]:
        for src in (repr(s), "f" + repr(s + "{v}")):
            try:
                out = dl.Interp(pm, opaque={"ast.parse": ast.parse, "re.fullmatch": re.fullmatch, "re.sub": re.sub}).call(tce, [src, {}, {}])
            except dl.Unsupported as e:
                raise AnalysisError(f"_to_c_expr left the evaluable subset: {e}")
            lits = re.findall(r'"((?:[^"\\]|\\.)*)"', out.value) if out.kind == "return" else None
            ok = bool(lits) and c_unescape(lits[0]) == s
            r.check(ok, "_to_c_expr/string-literal-escaped", (pm, tce), f"the Python literal {src} is translated to {out!r}")

    # ---- C06-DEFAULTS ------------------------------------------------------------------------
    # a compile witness: for every type label of the lattice (scalars, lists, lists of lists) the declaration the parser would
    # hoist - `<_cpp_type(label)> v = <_default_value_for_type(that type)>;` - is handed to clang together with the list helpers
    r = cx.rule("C06-DEFAULTS", "for every type label (bool/int/float/String, lists and lists of lists of them) the hoisted declaration `T v = <default for T>;` built from _cpp_type and _default_value_for_type type-checks (clang, with the list helper snippet)", floor=12, exhaustive=True)
    cppf, dvf = pm.func("_cpp_type"), pm.func("_default_value_for_type")
    labels_ = ["bool", "int", "float", "String"]
    labels_ += [f"list[{x}]" for x in labels_] + [f"list[list[{x}]]" for x in ("int", "float", "String", "bool")]
    decls_ = []
    for lab_ in labels_:
        try:
            ct_ = dl.Interp(pm).call(cppf, [lab_])
            dv_ = dl.Interp(pm, opaque={"re.fullmatch": re.fullmatch, "re.match": re.match}).call(dvf, [ct_.value]) if ct_.kind == "return" else None
        except dl.Unsupported as e:
            raise AnalysisError(f"_cpp_type/_default_value_for_type left the evaluable subset: {e}")
        if ct_.kind != "return" or dv_ is None or dv_.kind != "return":
            r.fail(f"default[{lab_}]/computed", (pm, dvf), f"label {lab_}: _cpp_type -> {ct_!r}, default -> {dv_!r}")
            continue
        decls_.append((lab_, ct_.value, dv_.value))
    tu_ = "#include <Arduino.h>\n" + lit.table(em, "LIST_HELPER_SNIPPET") + "\n" + "".join(f"{ct} v_{i} = {dv};\n" for i, (_l, ct, dv) in enumerate(decls_))
    errs_ = cxx.typecheck(tu_)
    for i_, (lab_, ct_, dv_) in enumerate(decls_):
        mine = [e_ for e_ in errs_ if f" v_{i_} =" in e_]
        r.check(not mine, f"default[{lab_}]/declaration-compiles", (pm, dvf), f"`{ct_} v = {dv_};` (label {lab_}) does not compile: {mine[0].split('   [')[0] if mine else ''}", sample=f"{ct_} v = {dv_}")
    stray_ = [e_ for e_ in errs_ if not any(f" v_{i_} =" in e_ for i_ in range(len(decls_)))]
    if stray_:
        raise AnalysisError("default-declaration witness does not compile for another reason: " + stray_[0])

    # ---- C06-HELPER-PAIR ---------------------------------------------------------------------
    r = cx.rule("C06-HELPER-PAIR", "every expression translation that mentions a list/len helper registers it, and the emitter includes a helper snippet iff it is registered", floor=8)
    for src, want in (("[1, 2]", "list"), ("xs[0]", "list"), ("xs.append(1)", "list"), ("xs.remove(1)", "list"), ("[i * 2 for i in range(3)]", "list"), ("len(xs)", "len"), ("len(s)", "len"), ("len('abc')", None)):
        helpers = set()
        ctx = {"var_types": {"xs": "list[int]", "s": "String"}}
        out = dl.Interp(pm, opaque={"ast.parse": ast.parse, "re.fullmatch": re.fullmatch, "re.sub": re.sub}).call(tce, [src, {"_helpers": helpers}, ctx])
        txt = out.value if out.kind == "return" else ""
        uses_list = "__redu_list" in txt or "__redu_make_list" in txt
        uses_len = "__redu_len" in txt
        ok = (not uses_list or "list" in helpers) and (not uses_len or "len" in helpers)
        r.check(ok and out.kind == "return", f"_to_c_expr/marks-helper[{want}]", (pm, tce), f"`{src}` -> `{txt}` registers {sorted(helpers)}")
    for hs, needle in (({"list"}, "struct __redu_list"), ({"len"}, "__redu_len(const char")):
        with_ = pe.emit_program(setup=[], loop=[], helpers=hs).text or ""
        without = pe.emit_program(setup=[], loop=[], helpers=set()).text or ""
        r.check(needle in with_ and needle not in without, f"emit/helper-snippet-iff-registered[{sorted(hs)[0]}]", (em, em.func("emit")), f"helper snippet `{needle}` present={needle in with_} when registered, present={needle in without} when not")
    ha = pm.func("_handle_assignment_ast")
    r.check("helpers.add('list')" in norm(ha), "_handle_assignment_ast/list-typed-registers-helper", (pm, ha), "list-typed assignments must register the list helper")

    # ---- C06-OPS-CXX -------------------------------------------------------------------------
    r = cx.rule("C06-OPS-CXX", "every operator token the expression translator can emit is a C++ operator", floor=12)
    funcs = []
    table = lit.table(pm, "_BIN")
    toks = {}
    for k, tok in table.items():
        out = dl.Interp(pm, opaque={"ast.parse": ast.parse}).call(tce, [f"a {PY_OPS[k.name]} b", {}, {}])
        toks[k.name] = out.value if out.kind == "return" else None
        funcs.append((k.name, f"int f_{k.name}(int a, int b) {{ return {out.value}; }}"))
    tu = "#include <Arduino.h>\n" + "\n".join(f for _n, f in funcs)
    errs = cxx.typecheck(tu)
    badlines = {int(re.match(r"line (\d+)", e).group(1)) for e in errs if re.match(r"line (\d+)", e)}
    for i, (name, f) in enumerate(funcs):
        r.check((i + 2) not in badlines, f"_to_c_expr/binop[{name}]-not-c++", (pm.rel, pm.const("_BIN").lineno), f"Python `a {PY_OPS[name]} b` is translated to `{toks[name]}` which is not valid C++")

    # ---- C06-PROMOTE -------------------------------------------------------------------------
    # decided by evaluation: scripts in which a name is first assigned inside a branch / handler / loop body - in all of the
    # branches or only in some - and used after the statement are parsed, and the IR is placed in the emitter's block
    # structure (sa/irscope.py): every use must find its declaration in an enclosing C++ scope, nothing is declared twice
    r = cx.rule("C06-PROMOTE", "every name first assigned inside a branch, handler or loop body (in every branch or only in some) is hoisted to the enclosing scope: for a corpus of scripts every read and assignment in the IR refers to a variable declared in an enclosing C++ block and no block declares a name twice, so the sketch compiles", floor=12, exhaustive=True)
    from .. import irscope
    pf_ = pm.func("parse")
    scripts = {
        "if-only": "x = 0\nwhile True:\n    if x > 1:\n        y = 5\n    z = y\n    x = x + 1\n",
        "elif-only": "x = 0\nwhile True:\n    if x > 5:\n        x = 0\n    elif x > 1:\n        y = 5\n        w = 'a'\n    z = y\n    v = w\n    x = x + 1\n",
        "else-only": "x = 0\nwhile True:\n    if x > 1:\n        x = 0\n    else:\n        y = 2.5\n    z = y\n",
        "different-names-per-branch": "x = 0\nwhile True:\n    if x > 1:\n        a = 1\n    elif x > 0:\n        b = 2\n    else:\n        c = 3\n    s = a + b + c\n",
        "handler-only": "x = 0\nwhile True:\n    try:\n        x = x + 1\n    except Exception:\n        err = 1\n    z = err\n",
        "try-only": "x = 0\nwhile True:\n    try:\n        got = x + 1\n    except Exception:\n        x = 0\n    z = got\n",
        "while-body": "x = 0\nwhile True:\n    while x < 3:\n        inner = x\n        x = x + 1\n    z = inner\n",
        "for-body": "while True:\n    for i in range(3):\n        last = i\n        name = 'n'\n    z = last\n    t = name\n",
        "nested-only-inner": "x = 0\nwhile True:\n    if x > 0:\n        if x > 5:\n            deep = 1\n        mid = deep\n    z = mid\n",
        "setup-blocks": "x = 0\nif x > 1:\n    a = 1\nfor i in range(2):\n    b = i\ntry:\n    c = 1\nexcept Exception:\n    d = 2\nwhile True:\n    s = a + b + c + d\n",
        "function-branches": "def f(v):\n    if v > 1:\n        r = 1\n    elif v > 0:\n        q = 2\n    return r + q\nwhile True:\n    z = f(3)\n",
        "function-loop-and-handler": "def g(n):\n    for i in range(n):\n        acc = i\n    try:\n        ok = 1\n    except Exception:\n        bad = 2\n    return acc + ok + bad\nwhile True:\n    z = g(2)\n",
        "tuple-in-branch": "x = 0\nwhile True:\n    if x > 1:\n        p, q = 1, 2\n    z = p + q\n",
    }
    for label, src in scripts.items():
        try:
            _it, out = pe.parse_source(src)
        except dl.Unsupported as e:
            raise AnalysisError(f"parse() left the evaluable subset on hoisting script `{label}`: {e}")
        if out.kind != "return":
            r.check(out.value == "ValueError", f"promote[{label}]/accepted-or-refused", (pm, pf_), f"script `{label}`: parse() raises {out.value}")
            continue
        viol = irscope.check(out.value, src)
        r.check(not viol, f"promote[{label}]/every-use-in-scope", (pm, pf_), f"script `{label}`: {'; '.join(viol[:2])}", sample=f"{label}: in scope")
    # ... and the hoisted declaration has the type of what the block assigns (`int msg = 0; msg = "tick";` does not compile):
    # the typing corpus shared with C02-FLOW
    from . import c02 as _c02
    _c02.rule_flow_scripts(r, pm)


PY_OPS = {"Add": "+", "Sub": "-", "Mult": "*", "Div": "/", "FloorDiv": "//", "Mod": "%", "Pow": "**", "BitAnd": "&", "BitOr": "|", "BitXor": "^", "LShift": "<<", "RShift": ">>"}

"""C15 - inputs: button edges, pot reads and ultrasonic ranging behave as documented (clause level)."""
from __future__ import annotations

import ast
import re

from .. import cxx, dl, l2, lit, pe
from ..core import AnalysisError
from ..cxx import show, sub_exprs, all_stmts, all_calls, stmt_exprs
from ..cabs import lname
from ..src import Locals, call_name, mod, norm, walk_local

PARSER = "transpile/parser.py"
EMITTER = "transpile/emitter.py"


def run(cx):
    em, pm = mod(EMITTER), mod(PARSER)
    cx.consulted(em)
    cx.consulted(pm)
    cx.explanation = (
        "the button poll, the button initialisation and the ultrasonic helper are extracted by partial evaluation and their typed "
        "AST is checked: one digitalRead per poll, edge test (next && !prev) with the callback inside it before prev is updated, "
        "cached sample assigned; is_pressed()/read() translations are evaluated and may not / must read the pin; who may emit "
        "digitalRead is inventoried; the ultrasonic helper's retry bound, back-off guard, conversion factor and fallback chain "
        "are checked; the host Button is checked by C20's rules (shared); timing behaviour and click counts are not decided"
        " Since round 10 whole scripts are also taken through parse() and emit() (partial evaluation), the emitted translation unit is parsed by clang and interpreted by the checker's C evaluator on a scripted board (never compiled to code or run); for the button scripts the pin must be read exactly once in setup() and once per loop() pass and every is_pressed() of a pass must answer from that sample (C15-CACHED; the former who-may-emit-digitalRead rule was a spelling rule and is gone)."
    )
    cls, fields = pe.ir_classes()

    # ---- C15-POLL ----------------------------------------------------------------------------
    r = cx.rule("C15-POLL", "each button is sampled by exactly one digitalRead per loop() pass; on_click runs under (sample && !previous) before previous is updated; the cached value is that sample; start-up initialises previous from the pin so that no click fires at boot; one poll per button is injected at the head of loop()", floor=12)
    for cb in ("on_press", None):
        fns = [cls["FunctionDef"](name="on_press", params=[], body=[cls["Sleep"](ms=1)], return_type="void")] if cb else []
        res = pe.emit_program(setup=[l2.decl_node("Button", on_click=cb)], loop=[cls["ButtonPoll"](name="dev")], functions=fns)
        if res.raised:
            raise AnalysisError("emit() raises for the button program")
        f = l2.functions_of(res.text, ["setup", "loop"])
        loop, setup = f["loop"][0]["body"], f["setup"][0]["body"]
        tag = "callback" if cb else "no-callback"
        reads = [c for c in all_calls(loop, "digitalRead")]
        r.check(len(reads) == 1 and show(reads[0]) == "digitalRead(7)", f"poll[{tag}]/one-digitalRead-of-declared-pin", (em, em.func("_emit_block")), f"a poll performs {[show(c) for c in reads]}")
        decl = [s for s in loop if s["k"] == "decl" and s["name"] == "__redu_button_next_dev"]
        r.check(len(decl) == 1 and show(decl[0]["init"]) == "(digitalRead(7) == 1)", f"poll[{tag}]/sample=(digitalRead==HIGH)", (em, em.func("_emit_block")), f"sample is `{show(decl[0]['init']) if decl else '?'}`")
        kinds = []
        for i, s in enumerate(loop):
            if s["k"] == "if":
                kinds.append(("if", show(s["cond"]), [show(c) for c in all_calls(s["then"])], s["else"]))
            elif s["k"] == "expr" and s["e"][0] == "assign":
                kinds.append(("assign", show(s["e"])))
            elif s["k"] == "decl":
                kinds.append(("decl", s["name"]))
        assigns = [k[1] for k in kinds if k[0] == "assign"]
        r.check("__redu_button_prev_dev = __redu_button_next_dev" in assigns and "__redu_button_value_dev = __redu_button_next_dev" in assigns, f"poll[{tag}]/prev-and-value-updated-from-sample", (em, em.func("_emit_block")), f"assignments in a poll: {assigns}")
        ifs = [k for k in kinds if k[0] == "if"]
        if cb:
            okc = len(ifs) == 1 and ifs[0][1] == "(__redu_button_next_dev && !__redu_button_prev_dev)" and ifs[0][2] == ["on_press()"] and not ifs[0][3]
            r.check(okc, "poll/click-on-rising-edge-only", (em, em.func("_emit_block")), f"callback dispatch: {ifs}")
            order = [k for k in kinds if k[0] == "if" or (k[0] == "assign" and k[1].startswith("__redu_button_prev_dev"))]
            r.check([k[0] for k in order] == ["if", "assign"], "poll/edge-test-before-update", (em, em.func("_emit_block")), "previous sample is updated before the edge test")
        else:
            r.check(not ifs and not [c for c in all_calls(loop) if c[0] == "call" and c[1] not in ("digitalRead",)], "poll[no-callback]/no-dispatch", (em, em.func("_emit_block")), "a button without on_click must not call anything")
        # start-up
        init = [show(s["e"]) for s in setup if s["k"] == "expr" and s["e"][0] == "assign"]
        r.check("__redu_button_prev_dev = (digitalRead(7) == 1)" in init and "__redu_button_value_dev = __redu_button_prev_dev" in init, f"setup[{tag}]/previous-initialised-from-pin", (em, em.func("emit")), f"setup assigns {init}")
        pm_calls = [show(c) for c in all_calls(setup, "pinMode")]
        r.check(pm_calls == ["pinMode(7, 2)"], f"setup[{tag}]/INPUT_PULLUP", (em, em.func("emit")), f"pin configuration: {pm_calls}")
        g = l2.global_decls(res.text)
        r.check(g.get("__redu_button_prev_dev", ("", ""))[0] == "bool" and g.get("__redu_button_value_dev", ("", ""))[0] == "bool", f"globals[{tag}]/prev,value", (em, em.func("emit")), "button shadow globals missing")
    # injection, decided on scripts through parse() (partial evaluation): every declared button - with or without a handler,
    # declared before the loop or at the top of it - is polled exactly once at the head of the loop body, in sorted order,
    # before any tick or user statement; a script without buttons gets no poll
    pf = pm.func("parse")
    psl = pm.func("_parse_simple_lines")
    head = "from Reduino.Actuators import Led\nfrom Reduino.Sensors import Button\nfrom Reduino.Displays import LCD\nfrom Reduino.Utils import sleep\nled = Led(13)\ndef on_x():\n    led.toggle()\n"
    scripts = {
        "two-buttons-and-an-animation": (head + "zeta = Button(7, on_click=on_x)\nalpha = Button(6)\nlcd = LCD(i2c_addr=0x27)\nlcd.animate('scroll', 0, 'hi', speed_ms=0)\nwhile True:\n    if alpha.is_pressed():\n        led.on()\n    sleep(5)\n", ["alpha", "zeta"]),
        "button-used-only-in-loop": (head + "btn = Button(7)\nwhile True:\n    if btn.is_pressed():\n        led.on()\n", ["btn"]),
        "button-with-handler-never-read": (head + "btn = Button(7, on_click=on_x)\nwhile True:\n    sleep(5)\n", ["btn"]),
        "no-button": (head + "while True:\n    sleep(5)\n", []),
        "three-buttons": (head + "c = Button(4, on_click=on_x)\na = Button(2, on_click=on_x)\nb = Button(3, on_click=on_x)\nwhile True:\n    sleep(1)\n", ["a", "b", "c"]),
    }
    for label, (src_, want_) in scripts.items():
        try:
            _it, out_ = pe.parse_source(src_)
        except dl.Unsupported as e:
            raise AnalysisError(f"parse() left the evaluable subset on script `{label}`: {e}")
        if out_.kind != "return":
            r.fail(f"parse/script[{label}]-accepted", (pm, pf), f"script `{label}` is rejected with {out_.value}")
            continue
        kinds_ = [(type(n_).__name__, getattr(n_, "name", None)) for n_ in list(out_.value.loop_body)]
        lead = []
        for k_ in kinds_:
            if k_[0] != "ButtonPoll":
                break
            lead.append(k_[1])
        later = [k_[1] for k_ in kinds_[len(lead):] if k_[0] == "ButtonPoll"]
        in_setup = [getattr(n_, "name", None) for n_ in list(out_.value.setup_body) if type(n_).__name__ == "ButtonPoll"]
        r.check(lead == want_ and not later and not in_setup, f"parse/script[{label}]-one-poll-per-button-first-sorted", (pm, pf), f"script `{label}`: loop_body begins with polls {lead} (later polls {later}, polls in setup {in_setup}); expected exactly {want_} at the head")

    # ---- C15-CACHED --------------------------------------------------------------------------
    # decided on whole sketches: scripts that use is_pressed() in assignments, conditions of if / nested while, helper functions,
    # boolean and arithmetic expressions, twice in a pass; the emitted sketch is evaluated on a scripted board
    from .. import e2e
    e2e.rule_traces(cx, "C15-CACHED", "c15", (pm, pm.func("parse")), "scripts using is_pressed() in assignments, if / nested-while conditions, helper functions, boolean and arithmetic expressions and twice in one pass: the emitted sketch, evaluated on a scripted board, reads the button pin exactly once in setup() and once per loop() pass, and every is_pressed() of a pass answers from that sample (trace equal to CPython's on a stand-in that samples once per pass)", floor=6)

    tce = pm.func("_to_c_expr")
    # ---- C15-POT -----------------------------------------------------------------------------
    r = cx.rule("C15-POT", "Potentiometer.read() is translated to a fresh analogRead of the declared pin on every call", floor=3)
    # scripts through parse(): every read() of a declared potentiometer becomes an analogRead of *its* pin, once per call
    src_ = ("from Reduino.Sensors import Potentiometer\npot = Potentiometer('A3')\nknob = Potentiometer(pin='A1')\nv = 0\nw = 0\n"
            "while True:\n    v = pot.read()\n    w = knob.read() + pot.read()\n    if knob.read() > 5:\n        v = pot.read() * 2\n")
    try:
        _it, outp = pe.parse_source(src_)
    except dl.Unsupported as e:
        raise AnalysisError(f"parse() left the evaluable subset on the potentiometer script: {e}")
    if outp.kind != "return":
        r.fail("pot.read/script-accepted", (pm, pm.func("parse")), f"the potentiometer script is rejected with {outp.value}")
    else:
        texts = []

        def _collect(nodes):
            for n_ in nodes:
                for k_, v_ in vars(n_).items():
                    if isinstance(v_, str) and k_ not in ("name", "c_type"):
                        texts.append(v_)
                for f_ in ("body", "else_body", "branches"):
                    sub = getattr(n_, f_, None)
                    if isinstance(sub, list):
                        _collect(sub)
        _collect(list(outp.value.loop_body))
        reads = re.findall(r"analogRead\(\s*(\w+)\s*\)", " ; ".join(texts))
        r.check(sorted(reads) == ["A1", "A1", "A3", "A3", "A3"], "pot.read/analogRead(declared-pin)", (pm, tce), f"the loop reads {reads}; the script reads pot (A3) three times and knob (A1) twice, each read() must be one analogRead of the declared pin")
        decls = {n_.name: str(n_.pin) for n_ in outp.value.setup_body if type(n_).__name__ == "PotentiometerDecl"}
        r.check(decls == {"pot": "A3", "knob": "A1"}, "pot.decl/pin-recorded", (pm, psl), f"declared potentiometers: {decls}")
    res = pe.emit_program(setup=[l2.decl_node("Potentiometer")], loop=[])
    r.check(re.search(r"pinMode\(\s*A0\s*,\s*INPUT\s*\)\s*;", res.text or "") is not None, "pot.decl/pinMode-INPUT", (em, em.func("emit")), "a potentiometer pin must be configured as INPUT")

    # a sensor read written twice is performed twice: tuple assignment keeps one evaluation per right-hand side
    from . import c01
    c01.tuple_rhs_once(r, pm)

    # ---- C15-CLICKS --------------------------------------------------------------------------
    import itertools
    from .. import ckern
    from . import c04
    r = cx.rule("C15-CLICKS", "for every sampled signal of up to 7 polls the firmware's poll (evaluated with C semantics, one digitalRead per pass) calls the handler exactly once per released-to-pressed transition, never at start-up, and caches that sample; for signals that start released the host Button (driven through a state provider) counts the same clicks and returns the same samples", floor=200, exhaustive=True)
    hb = mod("Sensors/Button.py")
    cbf = cls["FunctionDef"](name="on_press", params=[], body=[], return_type="void")
    resb = pe.emit_program(setup=[l2.decl_node("Button", on_click="on_press")], loop=[cls["ButtonPoll"](name="dev")], functions=[cbf])
    if resb.raised:
        raise AnalysisError("emit() raises for a polled button with a handler")
    fb = l2.functions_of(resb.text, ["setup", "loop"])
    n_bad = 0
    for L in range(1, 8):
        for sig in itertools.product((0, 1), repeat=L):
            # firmware: the first sample is taken in setup(), then one per loop() pass
            feed = list(sig)
            reads = []

            def dr(args, _feed=feed, _reads=reads):
                _reads.append(1)
                return _feed[min(len(_reads) - 1, len(_feed) - 1)]

            k = ckern.Kern(env={"__redu_button_prev_dev": 0, "__redu_button_value_dev": 0, "HIGH": 1, "LOW": 0, "INPUT_PULLUP": 2}, types={"__redu_button_prev_dev": "bool", "__redu_button_value_dev": "bool"})
            k.call_hooks["digitalRead"] = dr
            try:
                k.block(fb["setup"][0]["body"])
                per_pass, cached = [], []
                for _i in range(1, L):
                    before = len(reads)
                    k.block(fb["loop"][0]["body"])
                    per_pass.append(len(reads) - before)
                    cached.append(int(bool(k.env["__redu_button_value_dev"])))
            except ckern.KernUnsupported as e:
                raise AnalysisError(f"button poll kernel left the evaluable subset: {e}")
            clicks_fw = sum(1 for ev in k.events if ev[0] == "on_press")
            rising = sum(1 for a_, b_ in zip(sig, sig[1:]) if not a_ and b_)
            good = clicks_fw == rising and all(p_ == 1 for p_ in per_pass) and cached == list(sig[1:])
            if good and sig[0] == 0:
                # host: one is_pressed() per sample, provider-driven
                hreads = []
                clicks = []

                def prov(_s=sig, _r=hreads):
                    _r.append(1)
                    return bool(_s[min(len(_r) - 1, len(_s) - 1)])
                prov._dl_lambda = True
                cb_ = lambda _c=clicks: _c.append(1)
                cb_._dl_lambda = True
                o = c04.host_object(hb, "Button", 7, on_click=cb_, state_provider=prov)
                vals = []
                for _ in sig:
                    out = dl.Interp(hb).call(hb.func("Button.is_pressed"), [o])
                    if out.kind != "return":
                        raise AnalysisError(f"host Button.is_pressed raises {out.value}")
                    vals.append(out.value)
                good = len(clicks) == rising and vals == list(sig) and len(hreads) == len(sig)
                if not good:
                    n_bad += 1
                    if n_bad <= 3:
                        r.fail("Button/host-clicks=firmware-clicks", (hb, hb.func("Button.is_pressed")), f"signal {sig}: host counts {len(clicks)} click(s) and returns {vals}, sampling the line {len(hreads)} time(s) in {len(sig)} polls; the firmware samples once per pass and sees {rising} rising edge(s)", detail={"signal": sig})
                    else:
                        r.stat.obligations += 1
                        r.stat.failed += 1
                    continue
            if good:
                r.ok(None)
            else:
                n_bad += 1
                if n_bad <= 3:
                    r.fail("ButtonPoll/one-click-per-rising-edge", (em, em.func("_emit_block")), f"signal {sig} (first sample in setup()): firmware calls the handler {clicks_fw} time(s) for {rising} rising edge(s), reads per pass {per_pass}, cached samples {cached}", detail={"signal": sig})
                else:
                    r.stat.obligations += 1
                    r.stat.failed += 1

    # ---- C15-ULTRA ---------------------------------------------------------------------------
    r = cx.rule("C15-ULTRA", "the generated ultrasonic helper evaluated (C semantics) against a scripted clock and echo line over call sequences: every reading is echo*0.0343/2 cm; once the millisecond clock is running two trigger pulses are never less than 60 ms apart; at most three triggers per call; after three time-outs the last good reading is returned, 400 if there never was one; the trigger pin and the echo pin are the declared ones", floor=40, exhaustive=True)
    res = pe.emit_program(setup=[l2.decl_node("Ultrasonic")], loop=[cls["ExprStmt"](expr="__redu_ultrasonic_measure_dev()")], ultrasonic={"dev"})
    if res.raised or "__redu_ultrasonic_measure_dev" not in (res.text or ""):
        raise AnalysisError("ultrasonic helper not emitted")
    fn = l2.functions_of(res.text, ["__redu_ultrasonic_measure_dev"])["__redu_ultrasonic_measure_dev"][0]
    from .. import ckern
    import itertools
    TRIG, ECHO = 10, 11       # pins of l2.decl_node("Ultrasonic")
    n_bad = 0
    # a call sequence: per call the gap (ms of other work before it) and the echo durations the sensor answers with (0 = time-out)
    echo_sets = ([1000], [0, 1000], [0, 0, 2500], [0, 0, 0], [29999], [58])
    gaps = (0, 5, 59, 60, 200)
    seqs = [list(zip(g_, e_)) for n_ in (1, 2, 3) for g_ in itertools.product(gaps, repeat=n_) for e_ in itertools.product(echo_sets, repeat=n_) if n_ < 3 or (g_[0] == 5 and g_[1] in (0, 60))]
    seqs = seqs[:: max(1, len(seqs) // 260)]
    for start_clock in (1000, 7, 2 ** 32 - 100, 2 ** 32 - 45):      # the last two: the 32-bit millisecond counter rolls over during the sequence
        for seq in seqs:
            clock = [start_clock]
            triggers, pins_ok = [], [True]
            k = ckern.Kern(env={"HIGH": 1, "LOW": 0})
            answers = []

            def h_millis(a_):
                return clock[0] % (2 ** 32)

            def h_delay(a_):
                clock[0] += int(a_[0])
                return 0

            def h_dw(a_):
                if a_[0] != TRIG:
                    pins_ok[0] = False
                if a_[1] == 1:
                    triggers.append(clock[0])
                return 0

            def h_pulse(a_):
                if a_[0] != ECHO:
                    pins_ok[0] = False
                d_ = answers.pop(0) if answers else 0
                clock[0] += 30 if d_ == 0 else max(1, d_ // 1000)       # a time-out costs 30 ms, an echo its own length
                return d_
            k.call_hooks.update({"millis": h_millis, "delay": h_delay, "digitalWrite": h_dw, "pulseIn": h_pulse, "delayMicroseconds": lambda a_: 0})
            last_good, why = None, None
            for gap, echoes in seq:
                clock[0] += gap
                answers[:] = list(echoes)
                n0 = len(triggers)
                try:
                    try:
                        k.block(fn["body"])
                        got = None
                    except ckern._Return as r_:
                        got = r_.v
                except ckern.KernUnsupported as e:
                    raise AnalysisError(f"ultrasonic helper left the evaluable subset: {e}")
                used = [e_ for e_ in echoes[:3]]
                good = next((e_ for e_ in used if e_ > 0), None)
                n_trig = len(triggers) - n0
                want_trig = (used.index(good) + 1) if good is not None else 3
                if good is not None:
                    want = ckern.f32(ckern.f32(ckern.f32(float(good)) * ckern.f32(0.0343)) / 2.0)
                    last_good = want
                else:
                    want = last_good if last_good is not None else 400.0
                if got is None or abs(float(got) - want) > 1e-3 * max(1.0, want):
                    why = f"a call answered with echoes {list(echoes)} returns {got!r}; the law gives {want:.3f}"
                elif n_trig != want_trig:
                    why = f"a call answered with echoes {list(echoes)} triggers the sensor {n_trig} time(s); the law is {want_trig} (retry only after a time-out, at most three)"
                if why:
                    break
            if why is None and not pins_ok[0]:
                why = "a pin other than the declared trigger/echo pin is driven or read"
            if why is None:
                close = [(a_, b_) for a_, b_ in zip(triggers, triggers[1:]) if b_ - a_ < 60]
                if close:
                    why = f"trigger pulses at {close[0][0]} ms and {close[0][1]} ms are only {close[0][1] - close[0][0]} ms apart (the sensor needs 60 ms)"
            if why is None:
                r.ok(None)
            else:
                n_bad += 1
                if n_bad <= 3:
                    tag = "min-interval" if "apart" in why else "attempts" if "triggers the sensor" in why else "reading" if "returns" in why else "pins"
                    r.fail(f"ultra/{tag}", (em, em.func("emit")), f"clock starting at {start_clock} ms, calls (gap ms, echoes us) {seq}: {why}", detail={"sequence": [[g_, list(e_)] for g_, e_ in seq], "start": start_clock})
                else:
                    r.stat.obligations += 1
                    r.stat.failed += 1
    out = dl.Interp(pm, opaque={"ast.parse": ast.parse}).call(tce, ["dev.measure_distance()", {}, {"ultrasonic_names": {"dev"}}])
    r.check(out.kind == "return" and out.value == "__redu_ultrasonic_measure_dev()", "measure_distance/calls-helper", (pm, tce), f"dev.measure_distance() -> {out!r}")

    # ---- host side and binding (shared rules) -------------------------------------------------
    from . import c08, c20
    c20.rule_sensors(cx, "C15-HOST")
    c08.bind_rule(cx, "C15-BIND", "C15-MAP", only=("Button", "Potentiometer", "Ultrasonic"), floor=5)

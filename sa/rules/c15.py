"""C15 - inputs: button edges, pot reads and ultrasonic ranging behave as documented (clause level)."""
from __future__ import annotations

import ast
import re

from .. import cxx, dl, l2, lit, pe
from ..core import AnalysisError
from ..cxx import show, sub_exprs, all_stmts, all_calls, stmt_exprs
from ..cabs import lname
from ..src import Locals, call_name, mod, norm, walk_local

PARSER = "transpile/parser.py"
EMITTER = "transpile/emitter.py"


def run(cx):
    em, pm = mod(EMITTER), mod(PARSER)
    cx.consulted(em)
    cx.consulted(pm)
    cx.explanation = (
        "the button poll, the button initialisation and the ultrasonic helper are extracted by partial evaluation and their typed "
        "AST is checked: one digitalRead per poll, edge test (next && !prev) with the callback inside it before prev is updated, "
        "cached sample assigned; is_pressed()/read() translations are evaluated and may not / must read the pin; who may emit "
        "digitalRead is inventoried; the ultrasonic helper's retry bound, back-off guard, conversion factor and fallback chain "
        "are checked; the host Button is checked by C20's rules (shared); timing behaviour and click counts are not decided"
    )
    cls, fields = pe.ir_classes()

    # ---- C15-POLL ----------------------------------------------------------------------------
    r = cx.rule("C15-POLL", "each button is sampled by exactly one digitalRead per loop() pass; on_click runs under (sample && !previous) before previous is updated; the cached value is that sample; start-up initialises previous from the pin so that no click fires at boot; one poll per button is injected at the head of loop()", floor=12)
    for cb in ("on_press", None):
        fns = [cls["FunctionDef"](name="on_press", params=[], body=[cls["Sleep"](ms=1)], return_type="void")] if cb else []
        res = pe.emit_program(setup=[l2.decl_node("Button", on_click=cb)], loop=[cls["ButtonPoll"](name="dev")], functions=fns)
        if res.raised:
            raise AnalysisError("emit() raises for the button program")
        f = l2.functions_of(res.text, ["setup", "loop"])
        loop, setup = f["loop"][0]["body"], f["setup"][0]["body"]
        tag = "callback" if cb else "no-callback"
        reads = [c for c in all_calls(loop, "digitalRead")]
        r.check(len(reads) == 1 and show(reads[0]) == "digitalRead(7)", f"poll[{tag}]/one-digitalRead-of-declared-pin", (em, em.func("_emit_block")), f"a poll performs {[show(c) for c in reads]}")
        decl = [s for s in loop if s["k"] == "decl" and s["name"] == "__redu_button_next_dev"]
        r.check(len(decl) == 1 and show(decl[0]["init"]) == "(digitalRead(7) == 1)", f"poll[{tag}]/sample=(digitalRead==HIGH)", (em, em.func("_emit_block")), f"sample is `{show(decl[0]['init']) if decl else '?'}`")
        kinds = []
        for i, s in enumerate(loop):
            if s["k"] == "if":
                kinds.append(("if", show(s["cond"]), [show(c) for c in all_calls(s["then"])], s["else"]))
            elif s["k"] == "expr" and s["e"][0] == "assign":
                kinds.append(("assign", show(s["e"])))
            elif s["k"] == "decl":
                kinds.append(("decl", s["name"]))
        assigns = [k[1] for k in kinds if k[0] == "assign"]
        r.check("__redu_button_prev_dev = __redu_button_next_dev" in assigns and "__redu_button_value_dev = __redu_button_next_dev" in assigns, f"poll[{tag}]/prev-and-value-updated-from-sample", (em, em.func("_emit_block")), f"assignments in a poll: {assigns}")
        ifs = [k for k in kinds if k[0] == "if"]
        if cb:
            okc = len(ifs) == 1 and ifs[0][1] == "(__redu_button_next_dev && !__redu_button_prev_dev)" and ifs[0][2] == ["on_press()"] and not ifs[0][3]
            r.check(okc, "poll/click-on-rising-edge-only", (em, em.func("_emit_block")), f"callback dispatch: {ifs}")
            order = [k for k in kinds if k[0] == "if" or (k[0] == "assign" and k[1].startswith("__redu_button_prev_dev"))]
            r.check([k[0] for k in order] == ["if", "assign"], "poll/edge-test-before-update", (em, em.func("_emit_block")), "previous sample is updated before the edge test")
        else:
            r.check(not ifs and not [c for c in all_calls(loop) if c[0] == "call" and c[1] not in ("digitalRead",)], "poll[no-callback]/no-dispatch", (em, em.func("_emit_block")), "a button without on_click must not call anything")
        # start-up
        init = [show(s["e"]) for s in setup if s["k"] == "expr" and s["e"][0] == "assign"]
        r.check("__redu_button_prev_dev = (digitalRead(7) == 1)" in init and "__redu_button_value_dev = __redu_button_prev_dev" in init, f"setup[{tag}]/previous-initialised-from-pin", (em, em.func("emit")), f"setup assigns {init}")
        pm_calls = [show(c) for c in all_calls(setup, "pinMode")]
        r.check(pm_calls == ["pinMode(7, 2)"], f"setup[{tag}]/INPUT_PULLUP", (em, em.func("emit")), f"pin configuration: {pm_calls}")
        g = l2.global_decls(res.text)
        r.check(g.get("__redu_button_prev_dev", ("", ""))[0] == "bool" and g.get("__redu_button_value_dev", ("", ""))[0] == "bool", f"globals[{tag}]/prev,value", (em, em.func("emit")), "button shadow globals missing")
    # injection, decided on scripts through parse() (partial evaluation): every declared button - with or without a handler,
    # declared before the loop or at the top of it - is polled exactly once at the head of the loop body, in sorted order,
    # before any tick or user statement; a script without buttons gets no poll
    pf = pm.func("parse")
    psl = pm.func("_parse_simple_lines")
    head = "from Reduino.Actuators import Led\nfrom Reduino.Sensors import Button\nfrom Reduino.Displays import LCD\nfrom Reduino.Utils import sleep\nled = Led(13)\ndef on_x():\n    led.toggle()\n"
    scripts = {
        "two-buttons-and-an-animation": (head + "zeta = Button(7, on_click=on_x)\nalpha = Button(6)\nlcd = LCD(i2c_addr=0x27)\nlcd.animate('scroll', 0, 'hi', speed_ms=0)\nwhile True:\n    if alpha.is_pressed():\n        led.on()\n    sleep(5)\n", ["alpha", "zeta"]),
        "button-used-only-in-loop": (head + "btn = Button(7)\nwhile True:\n    if btn.is_pressed():\n        led.on()\n", ["btn"]),
        "button-with-handler-never-read": (head + "btn = Button(7, on_click=on_x)\nwhile True:\n    sleep(5)\n", ["btn"]),
        "no-button": (head + "while True:\n    sleep(5)\n", []),
        "three-buttons": (head + "c = Button(4, on_click=on_x)\na = Button(2, on_click=on_x)\nb = Button(3, on_click=on_x)\nwhile True:\n    sleep(1)\n", ["a", "b", "c"]),
    }
    for label, (src_, want_) in scripts.items():
        try:
            _it, out_ = pe.parse_source(src_)
        except dl.Unsupported as e:
            raise AnalysisError(f"parse() left the evaluable subset on script `{label}`: {e}")
        if out_.kind != "return":
            r.fail(f"parse/script[{label}]-accepted", (pm, pf), f"script `{label}` is rejected with {out_.value}")
            continue
        kinds_ = [(type(n_).__name__, getattr(n_, "name", None)) for n_ in list(out_.value.loop_body)]
        lead = []
        for k_ in kinds_:
            if k_[0] != "ButtonPoll":
                break
            lead.append(k_[1])
        later = [k_[1] for k_ in kinds_[len(lead):] if k_[0] == "ButtonPoll"]
        in_setup = [getattr(n_, "name", None) for n_ in list(out_.value.setup_body) if type(n_).__name__ == "ButtonPoll"]
        r.check(lead == want_ and not later and not in_setup, f"parse/script[{label}]-one-poll-per-button-first-sorted", (pm, pf), f"script `{label}`: loop_body begins with polls {lead} (later polls {later}, polls in setup {in_setup}); expected exactly {want_} at the head")

    # ---- C15-CACHED --------------------------------------------------------------------------
    r = cx.rule("C15-CACHED", "is_pressed() is translated to the cached sample (never a pin read) and registers the poll; no parser template other than the Core digital_read helper can produce digitalRead", floor=5)
    tce = pm.func("_to_c_expr")
    ctx = {"button_names": {"dev"}}
    out = dl.Interp(pm, opaque={"ast.parse": ast.parse}).call(tce, ["dev.is_pressed()", {}, ctx])
    got = out.value if out.kind == "return" else None
    r.check(got == "(__redu_button_value_dev ? 1 : 0)", "is_pressed/cached-sample", (pm, tce), f"dev.is_pressed() -> `{got}`")
    r.check("dev" in ctx.get("button_poll_names", set()), "is_pressed/registers-poll", (pm, tce), "is_pressed() must register the button for polling")
    for q, fn in pm.funcs.items():
        for n in walk_local(fn, include_self=False):
            if isinstance(n, ast.Constant) and isinstance(n.value, str) and "digitalRead" in n.value:
                encl = [a for a in pm.ancestors(n) if isinstance(a, ast.If)]
                in_core = any("fname == 'digital_read'" in norm(a.test) for a in encl)
                r.check(in_core, f"{q}/emits-digitalRead", (pm, n), f"the parser template `{n.value[:50]}` reads a pin outside the Core digital_read helper: button state must come from the per-pass sample", sample=f"{q}: digitalRead in the digital_read helper")
    for q, fn in em.funcs.items():
        for n in walk_local(fn, include_self=False):
            if isinstance(n, ast.Constant) and isinstance(n.value, str) and "digitalRead(" in n.value:
                encl = [a for a in em.ancestors(n) if isinstance(a, ast.If)]
                ok = any("ButtonPoll" in norm(a.test) or "ButtonDecl" in norm(a.test) for a in encl)
                r.check(ok, f"{q}/emits-digitalRead", (em, n), f"the emitter template `{n.value[:50]}` reads a pin outside the button poll/initialisation", sample=f"{q}: digitalRead in button poll/init")

    # ---- C15-POT -----------------------------------------------------------------------------
    r = cx.rule("C15-POT", "Potentiometer.read() is translated to a fresh analogRead of the declared pin on every call", floor=3)
    ctx = {"potentiometer_names": {"dev"}, "potentiometer_pins": {"dev": "A3"}}
    out = dl.Interp(pm, opaque={"ast.parse": ast.parse}).call(tce, ["dev.read()", {}, ctx])
    r.check(out.kind == "return" and out.value == "analogRead(A3)", "pot.read/analogRead(declared-pin)", (pm, tce), f"dev.read() -> {out!r}")
    st_pins = [n for n in walk_local(psl) if isinstance(n, ast.Assign) and "potentiometer_pins" in norm(n.targets[0]) and norm(n.value) == "pin_value"]
    r.check(len(st_pins) == 1, "pot.decl/pin-recorded", (pm, psl), "the declared analogue pin must be recorded for read()")
    res = pe.emit_program(setup=[l2.decl_node("Potentiometer")], loop=[])
    r.check("pinMode(A0, INPUT);" in (res.text or ""), "pot.decl/pinMode-INPUT", (em, em.func("emit")), "a potentiometer pin must be configured as INPUT")

    # a sensor read written twice is performed twice: tuple assignment keeps one evaluation per right-hand side
    from . import c01
    c01.tuple_rhs_once(r, pm)

    # ---- C15-CLICKS --------------------------------------------------------------------------
    import itertools
    from .. import ckern
    from . import c04
    r = cx.rule("C15-CLICKS", "for every sampled signal of up to 7 polls the firmware's poll (evaluated with C semantics, one digitalRead per pass) calls the handler exactly once per released-to-pressed transition, never at start-up, and caches that sample; for signals that start released the host Button (driven through a state provider) counts the same clicks and returns the same samples", floor=200, exhaustive=True)
    hb = mod("Sensors/Button.py")
    cbf = cls["FunctionDef"](name="on_press", params=[], body=[], return_type="void")
    resb = pe.emit_program(setup=[l2.decl_node("Button", on_click="on_press")], loop=[cls["ButtonPoll"](name="dev")], functions=[cbf])
    if resb.raised:
        raise AnalysisError("emit() raises for a polled button with a handler")
    fb = l2.functions_of(resb.text, ["setup", "loop"])
    n_bad = 0
    for L in range(1, 8):
        for sig in itertools.product((0, 1), repeat=L):
            # firmware: the first sample is taken in setup(), then one per loop() pass
            feed = list(sig)
            reads = []

            def dr(args, _feed=feed, _reads=reads):
                _reads.append(1)
                return _feed[min(len(_reads) - 1, len(_feed) - 1)]

            k = ckern.Kern(env={"__redu_button_prev_dev": 0, "__redu_button_value_dev": 0, "HIGH": 1, "LOW": 0, "INPUT_PULLUP": 2}, types={"__redu_button_prev_dev": "bool", "__redu_button_value_dev": "bool"})
            k.call_hooks["digitalRead"] = dr
            try:
                k.block(fb["setup"][0]["body"])
                per_pass, cached = [], []
                for _i in range(1, L):
                    before = len(reads)
                    k.block(fb["loop"][0]["body"])
                    per_pass.append(len(reads) - before)
                    cached.append(int(bool(k.env["__redu_button_value_dev"])))
            except ckern.KernUnsupported as e:
                raise AnalysisError(f"button poll kernel left the evaluable subset: {e}")
            clicks_fw = sum(1 for ev in k.events if ev[0] == "on_press")
            rising = sum(1 for a_, b_ in zip(sig, sig[1:]) if not a_ and b_)
            good = clicks_fw == rising and all(p_ == 1 for p_ in per_pass) and cached == list(sig[1:])
            if good and sig[0] == 0:
                # host: one is_pressed() per sample, provider-driven
                hreads = []
                clicks = []

                def prov(_s=sig, _r=hreads):
                    _r.append(1)
                    return bool(_s[min(len(_r) - 1, len(_s) - 1)])
                prov._dl_lambda = True
                cb_ = lambda _c=clicks: _c.append(1)
                cb_._dl_lambda = True
                o = c04.host_object(hb, "Button", 7, on_click=cb_, state_provider=prov)
                vals = []
                for _ in sig:
                    out = dl.Interp(hb).call(hb.func("Button.is_pressed"), [o])
                    if out.kind != "return":
                        raise AnalysisError(f"host Button.is_pressed raises {out.value}")
                    vals.append(out.value)
                good = len(clicks) == rising and vals == list(sig) and len(hreads) == len(sig)
                if not good:
                    n_bad += 1
                    if n_bad <= 3:
                        r.fail("Button/host-clicks=firmware-clicks", (hb, hb.func("Button.is_pressed")), f"signal {sig}: host counts {len(clicks)} click(s) and returns {vals}, sampling the line {len(hreads)} time(s) in {len(sig)} polls; the firmware samples once per pass and sees {rising} rising edge(s)", detail={"signal": sig})
                    else:
                        r.stat.obligations += 1
                        r.stat.failed += 1
                    continue
            if good:
                r.ok(None)
            else:
                n_bad += 1
                if n_bad <= 3:
                    r.fail("ButtonPoll/one-click-per-rising-edge", (em, em.func("_emit_block")), f"signal {sig} (first sample in setup()): firmware calls the handler {clicks_fw} time(s) for {rising} rising edge(s), reads per pass {per_pass}, cached samples {cached}", detail={"signal": sig})
                else:
                    r.stat.obligations += 1
                    r.stat.failed += 1

    # ---- C15-ULTRA ---------------------------------------------------------------------------
    r = cx.rule("C15-ULTRA", "the ultrasonic helper retries at most 3 times, waits out the 60 ms minimum interval (only once the clock is running) before triggering, stamps the trigger time after the echo, converts with 0.0343/2 and falls back to the last good reading, else 400", floor=12)
    res = pe.emit_program(setup=[l2.decl_node("Ultrasonic")], loop=[cls["ExprStmt"](expr="__redu_ultrasonic_measure_dev()")], ultrasonic={"dev"})
    if res.raised or "__redu_ultrasonic_measure_dev" not in (res.text or ""):
        raise AnalysisError("ultrasonic helper not emitted")
    fn = l2.functions_of(res.text, ["__redu_ultrasonic_measure_dev"])["__redu_ultrasonic_measure_dev"][0]
    b = fn["body"]
    decls = {s["name"]: s for s in all_stmts(b) if s["k"] == "decl"}
    def init_of(n_):
        return decls[n_]["init"] if n_ in decls else None
    r.check(init_of("__redu_max_attempts_dev") == ("lit", 3), "ultra/max-attempts=3", (em, em.func("emit")), f"retry bound is {show(init_of('__redu_max_attempts_dev'))}")
    r.check(init_of("__redu_min_interval_ms_dev") == ("lit", 60), "ultra/min-interval=60ms", (em, em.func("emit")), f"minimum interval is {show(init_of('__redu_min_interval_ms_dev'))}")
    for nm in ("__redu_last_trigger_ms_dev", "__redu_last_distance_dev", "__redu_has_distance_dev"):
        r.check(nm in decls and decls[nm]["static"], f"ultra/static[{nm}]", (em, em.func("emit")), f"{nm} must be a function static (state kept between calls)")
    r.check(init_of("__redu_last_trigger_ms_dev") == ("lit", 0) and init_of("__redu_has_distance_dev") == ("lit", False), "ultra/initial-state", (em, em.func("emit")), "initial back-off state changed")
    loops = [s for s in b if s["k"] == "for"]
    r.check(len(loops) == 1 and show(loops[0]["cond"]) == "(__redu_attempt_dev < __redu_max_attempts_dev)" and loops[0]["init"][0]["init"] == ("lit", 0) and show(loops[0]["inc"]) == "++__redu_attempt_dev", "ultra/loop=attempts", (em, em.func("emit")), "retry loop header changed")
    if loops:
        lb = loops[0]["body"]
        # order of events inside one attempt
        ev = []
        for s in lb:
            if s["k"] == "if":
                ev.append(("if", show(s["cond"]), s))
            elif s["k"] == "expr":
                ev.append(("x", show(s["e"]), s))
            elif s["k"] == "decl":
                ev.append(("d", s["name"], s))
        guard = [e for e in ev if e[0] == "if" and any(True for _ in all_calls(e[2]["then"], "delay"))]
        okg = len(guard) == 1 and guard[0][1] == "(__redu_last_trigger_ms_dev != 0)"
        r.check(okg, "ultra/back-off-guarded-by-clock-running", (em, em.func("emit")), f"the 60 ms wait is guarded by `{guard[0][1] if guard else '?'}`; it must apply whenever a previous trigger time exists (last_trigger != 0)")
        if guard:
            inner = [s for s in guard[0][2]["then"] if s["k"] == "if"]
            oki = len(inner) == 1 and show(inner[0]["cond"]) == "(__redu_elapsed_ms_dev < __redu_min_interval_ms_dev)" and [show(c) for c in all_calls(inner[0]["then"], "delay")] == ["delay((__redu_min_interval_ms_dev - __redu_elapsed_ms_dev))"]
            r.check(oki, "ultra/waits-remaining-interval", (em, em.func("emit")), "the wait must be delay(min_interval - elapsed) when elapsed < min_interval")
            el = [s for s in guard[0][2]["then"] if s["k"] == "decl" and s["name"] == "__redu_elapsed_ms_dev"]
            r.check(bool(el) and show(el[0]["init"]) == "(__redu_now_ms_dev - __redu_last_trigger_ms_dev)", "ultra/elapsed=now-last", (em, em.func("emit")), "elapsed time formula changed")
        names = [e[1] for e in ev]
        def idx(pred):
            for i, e in enumerate(ev):
                if pred(e):
                    return i
            return -1
        i_guard = idx(lambda e: e[0] == "if" and "last_trigger" in e[1])
        i_trig = idx(lambda e: e[0] == "x" and e[1] == "digitalWrite(10, 1)")
        i_pulse = idx(lambda e: e[0] == "d" and e[1] == "__redu_duration_dev")
        i_stamp = idx(lambda e: e[0] == "x" and e[1] == "__redu_last_trigger_ms_dev = millis()")
        r.check(0 <= i_guard < i_trig < i_pulse < i_stamp, "ultra/order:wait<trigger<echo<stamp", (em, em.func("emit")), f"event order in an attempt: guard@{i_guard} trigger@{i_trig} pulseIn@{i_pulse} stamp@{i_stamp}")
        r.check(show(init_of("__redu_duration_dev")) == "pulseIn(11, 1, 30000)", "ultra/pulseIn(echo,HIGH,30ms)", (em, em.func("emit")), f"echo measurement is `{show(init_of('__redu_duration_dev'))}`")
        ok_ = [e for e in ev if e[0] == "if" and e[1] == "(__redu_duration_dev > 0)"]
        r.check(len(ok_) == 1, "ultra/success-iff-duration>0", (em, em.func("emit")), "a reading counts only when the echo duration is positive")
        if ok_:
            th = ok_[0][2]["then"]
            d = [s for s in th if s["k"] == "decl" and s["name"] == "__redu_distance_dev"]
            okd = False
            if d:
                e_ = d[0]["init"]
                okd = (e_[0] == "bin" and e_[1] == "/" and e_[3][0] == "lit" and e_[3][1] == 2.0 and e_[2][0] == "bin" and e_[2][1] == "*"
                       and lname(e_[2][2]) == "__redu_duration_dev" and e_[2][3][0] == "lit" and abs(e_[2][3][1] - 0.0343) < 1e-6)
            r.check(okd, "ultra/distance=duration*0.0343/2", (em, em.func("emit")), f"conversion is `{show(d[0]['init']) if d else '?'}`")
            txt = [show(s["e"]) for s in th if s["k"] == "expr"]
            r.check("__redu_last_distance_dev = __redu_distance_dev" in txt and "__redu_has_distance_dev = true" in txt, "ultra/remembers-last-good", (em, em.func("emit")), f"on success: {txt}")
            rets = [show(s["e"]) for s in th if s["k"] == "return"]
            r.check(rets == ["__redu_distance_dev"], "ultra/returns-measured", (em, em.func("emit")), f"on success returns {rets}")
    tail = [s for s in b if s["k"] in ("if", "return")]
    okt = len(tail) >= 2 and tail[-2]["k"] == "if" and show(tail[-2]["cond"]) == "__redu_has_distance_dev" and [show(s["e"]) for s in tail[-2]["then"] if s["k"] == "return"] == ["__redu_last_distance_dev"] and tail[-1]["k"] == "return" and tail[-1]["e"] == ("lit", 400.0)
    r.check(okt, "ultra/fallback=last-good-else-400", (em, em.func("emit")), "after three failed attempts the helper must return the last good reading, 400 if there is none")
    out = dl.Interp(pm, opaque={"ast.parse": ast.parse}).call(tce, ["dev.measure_distance()", {}, {"ultrasonic_names": {"dev"}}])
    r.check(out.kind == "return" and out.value == "__redu_ultrasonic_measure_dev()", "measure_distance/calls-helper", (pm, tce), f"dev.measure_distance() -> {out!r}")

    # ---- host side and binding (shared rules) -------------------------------------------------
    from . import c08, c20
    c20.rule_sensors(cx, "C15-HOST")
    c08.bind_rule(cx, "C15-BIND", "C15-MAP", only=("Button", "Potentiometer", "Ultrasonic"), floor=5)

"""C16 - buzzer: every sound is bounded, silent when it should be, follows the score (clause level)."""
from __future__ import annotations

import ast
import re

from .. import cxx, dl, l2, lit, pe
from ..cabs import Exec, State, lname
from ..core import AnalysisError
from ..cxx import show, sub_exprs
from ..num import INF, Iv
from ..src import call_name, kwarg, mod, norm, walk_local
from .c04 import strip_num

PARSER = "transpile/parser.py"
EMITTER = "transpile/emitter.py"
PIN = "7"
# shape of each documented tune (Actuators/Buzzer.py module docstring): (number of notes, predicate name)
DOC_SHAPES = {
    "success": (3, "rising"), "error": (2, "falling"), "startup": (4, "rising"), "notify": (3, "ping-rest-ping"),
    "alarm": (8, "alternating"), "scale_c": (8, "rising"), "siren": (None, "alternating"),
}


class BuzzRun:
    def __init__(self, label, has_duration):
        self.label = label
        self.has_duration = has_duration
        self.viol = []
        self.oblig = 0
        self.tone_src = {}   # tone variable -> frequency variable it was rounded from
        self.tones = 0

    def fail(self, key, msg):
        if (key, msg) not in self.viol:
            self.viol.append((key, msg))

    def on_stmt(self, s, st):
        if s["k"] == "decl" and s["init"] is not None and s["name"].startswith("__redu_tone"):
            base = strip_num(s["init"])
            n = lname(base)
            if n:
                self.tone_src[s["name"]] = n

    def on_call(self, e, st, ex):
        if e[0] != "call":
            return
        if e[1] == "tone":
            self.oblig += 1
            self.tones += 1
            arg = e[2][1] if len(e[2]) > 1 else None
            n = lname(strip_num(arg)) if arg is not None else None
            src = self.tone_src.get(n, n)
            iv = st.v.get(src) if src else None
            pos = iv is not None and (iv.lo > 0 or (iv.lo == 0 and iv.lo_s))
            if not pos:
                self.fail("tone-only-for-positive-frequency", f"`{show(e)}` is reachable with frequency {src} in {iv}: a frequency <= 0 must never start a tone")
            st.flags["@sounding"] = True
            st.flags["@freqvar"] = src
        elif e[1] == "noTone":
            st.flags["@sounding"] = False
        elif e[1] == "delay":
            self.consistent(st, "at delay()")

    def consistent(self, st, where):
        snd = st.flags.get("@sounding", None)
        if snd is None:
            return
        self.oblig += 1
        fl = st.flags.get("__buzzer_state_dev", "?")
        cur = st.v.get("__buzzer_current_dev")
        if snd is True:
            if fl is not True:
                self.fail("get_state-true-while-sounding", f"{where}: a tone is sounding but __buzzer_state_dev is {fl}")
            src = st.flags.get("@freqvar")
            for var, what in (("__buzzer_current_dev", "get_frequency"), ("__buzzer_last_dev", "get_last_frequency")):
                same = src and ((src in st.lo.get(var, ()) and src in st.hi.get(var, ())) or (var in st.lo.get(src, ()) and var in st.hi.get(src, ())))
                if not same:
                    self.fail(f"{what}-reports-sounding-tone", f"{where}: {var} is not the frequency just passed to tone() ({src})")
        elif snd is False:
            if fl is not False:
                self.fail("get_state-false-while-silent", f"{where}: the pin is silent but __buzzer_state_dev is {fl}")
            if cur is None or not (cur.lo == cur.hi == 0):
                self.fail("get_frequency-zero-while-silent", f"{where}: the pin is silent but __buzzer_current_dev is {cur}")

    def at_end(self, st):
        snd = st.flags.get("@sounding", None)
        self.consistent(st, "at end")
        if self.has_duration:
            self.oblig += 1
            if snd is True or snd == "?":
                self.fail("silent-when-call-returns", "a call that has a duration can return with the tone still sounding")


def run(cx):
    em, pm = mod(EMITTER), mod(PARSER)
    hm = mod("Actuators/Buzzer.py")
    for m in (em, pm, hm):
        cx.consulted(m)
    cx.explanation = (
        "the C++ of every buzzer command variant is extracted and abstractly interpreted with a sounding/silent typestate, path "
        "splitting on the frequency variables: tone() is only reachable with a positive frequency, every command that has a "
        "duration returns silent with state false and frequency 0, state/current/last accompany every tone at each delay; loop "
        "headers and delay placement of beep/sweep/melody are checked on the typed AST; melody tables of parser, emitter and "
        "documentation agree and are emitted in order; audible timing is not decided"
    )
    cls, fields = pe.ir_classes()
    r_tone = cx.rule("C16-TONE", "tone() is reachable only with a frequency > 0; commands with a duration (play_tone+duration, beep, sweep, melody) return with the pin silent, get_state() false and get_frequency() 0; while a tone sounds state/current/last report it", floor=30)
    n = 0
    for cname in ("BuzzerPlayTone", "BuzzerStop", "BuzzerBeep", "BuzzerSweep", "BuzzerMelody"):
        for kw, node in pe.variants(cname, limit=40):
            res = pe.emit_program(setup=[l2.decl_node("Buzzer"), node], loop=[])
            if res.raised:
                raise AnalysisError(f"emit() raises for {cname}")
            body = l2.functions_of(res.text, ["setup"])["setup"][0]["body"]
            has_dur = cname in ("BuzzerBeep", "BuzzerSweep", "BuzzerMelody", "BuzzerStop") or (cname == "BuzzerPlayTone" and kw.get("duration_ms") is not None)
            label = f"{cname}{ {k: v for k, v in kw.items() if k != 'name'} }"
            run_ = BuzzRun(label, has_dur)
            ex = Exec(partition={"__redu_freq", "__redu_freq_target", "__redu_times", "__redu_steps"}, on_stmt=run_.on_stmt, invariants={"__buzzer_last_dev": Iv(-INF, INF)})
            ex.on_call = lambda e, st, _ex=ex, _r=run_: _r.on_call(e, st, _ex)
            s0 = State()
            outs = ex.run(body, [s0])
            for st in outs["fall"] + outs["ret"]:
                run_.at_end(st)
            n += 1
            # the frequency the call supplies is the frequency the command uses: a given value (0 included) is never
            # replaced by the remembered last frequency, an omitted one always is
            if "frequency" in kw and cname in ("BuzzerBeep", "BuzzerPlayTone"):
                fdecl = [st for st in cxx.all_stmts(body) if st["k"] == "decl" and st["name"] in ("__redu_freq_target", "__redu_freq") and st["init"] is not None]
                if not fdecl:
                    raise AnalysisError(f"{cname}: the frequency variable of the command was not found")
                init = fdecl[0]["init"]
                uses_last = any(s_[0] == "var" and str(s_[1]).startswith("__buzzer_last_") for s_ in sub_exprs(init))
                core = init
                while core[0] in ("cast", "ctor") and (core[0] == "cast" or len(core[2]) == 1):
                    core = core[2] if core[0] == "cast" else core[2][0]
                given = kw["frequency"]
                if given is None:
                    okf = uses_last
                elif isinstance(given, str):
                    okf = not uses_last and core == ("var", given)
                else:
                    okf = not uses_last and core[0] == "lit" and float(core[1]) == float(given)
                if not okf:
                    run_.viol.append(("frequency-argument-reaches-the-command", f"frequency={given!r} but the command's frequency is initialised with `{show(init)}`" + (" (a given 0 must stay 0: a frequency <= 0 never starts a tone)" if given == 0 else "")))
            for k, msg in run_.viol:
                r_tone.fail(f"{cname}/{k}", (em, em.func("_emit_block")), f"{label}: {msg}")
            if not run_.viol:
                r_tone.ok(f"{label[:70]}", n=max(1, run_.oblig))
    cx.extra["programs"] = n

    # ---- C16-COUNT ---------------------------------------------------------------------------
    r = cx.rule("C16-COUNT", "beep sounds `times` times with the on-delay inside and the off-delay only between repetitions; sweep plays `steps` tones at start + (end-start)*i/(steps-1) without altering the interpolated frequency except clamping at 0, total delay steps*(total/steps); melody runs over the whole score with beat*60000/tempo", floor=12)
    def body_of(cname, **kw):
        res = pe.emit_program(setup=[l2.decl_node("Buzzer"), cls[cname](name="dev", **kw)], loop=[])
        return l2.functions_of(res.text, ["setup"])["setup"][0]["body"], res.text
    b, _t = body_of("BuzzerBeep", frequency="H_f", on_ms="H_on", off_ms="H_off", times="H_n")
    loops = [s for s in cxx.all_stmts(b) if s["k"] == "for"]
    r.check(len(loops) == 1 and show(loops[0]["cond"]) == "(__redu_i < __redu_times)" and loops[0]["init"][0]["init"] == ("lit", 0), "beep/loop-times", (em, em.func("_emit_block")), "beep must repeat for i in 0..times-1")
    if loops:
        lb = loops[0]["body"]
        clamp = [s for s in cxx.all_stmts(b) if s["k"] == "if" and show(s["cond"]) == "(__redu_times < 0)"]
        r.check(bool(clamp), "beep/times-clamped-at-0", (em, em.func("_emit_block")), "negative repetition counts must be clamped")
        dl_ = [(s, [show(c) for c in cxx.all_calls(s["then"], "delay")]) for s in cxx.all_stmts(lb) if s["k"] == "if" and any(True for _ in cxx.all_calls(s["then"], "delay"))]
        on = [x for x in dl_ if x[1] == ["delay(__redu_on_ms)"]]
        off = [x for x in dl_ if x[1] == ["delay(__redu_off_ms)"]]
        r.check(len(on) == 1 and len(off) == 1 and len(list(cxx.all_calls(lb, "delay"))) == 2, "beep/one-on-delay-one-off-delay", (em, em.func("_emit_block")), "each repetition has exactly one on-delay and one off-delay")
        if off:
            r.check("((__redu_i + 1) < __redu_times)" in show(off[0][0]["cond"]), "beep/off-delay-only-between-repetitions", (em, em.func("_emit_block")), f"off-delay guard is `{show(off[0][0]['cond'])}`; the gap must not follow the last beep")
        # the on-delay comes after the tone and before noTone
        seq = [c[1] for st_ in lb for c in ([x for e in cxx.stmt_exprs(st_) for x in sub_exprs(e) if x[0] == "call"] if st_["k"] == "expr" else []) ]
        flat = [c[1] for c in cxx.all_calls(lb) if c[0] == "call" and c[1] in ("tone", "noTone", "delay")]
        r.check(flat[:1] == ["tone"] and "noTone" in flat[flat.index("delay"):] if "delay" in flat and flat else False, "beep/tone-delay-noTone-order", (em, em.func("_emit_block")), f"call order in a repetition: {flat}")
    b, _t = body_of("BuzzerSweep", start_hz="H_a", end_hz="H_b", duration_ms="H_d", steps="H_n")
    loops = [s for s in cxx.all_stmts(b) if s["k"] == "for"]
    r.check(len(loops) == 1 and show(loops[0]["cond"]) == "(__redu_i < __redu_steps)", "sweep/loop-steps", (em, em.func("_emit_block")), "sweep must play exactly `steps` tones")
    if loops:
        lb = loops[0]["body"]
        fd = [s for s in cxx.all_stmts(lb) if s["k"] == "decl" and s["name"] == "__redu_freq"]
        pg = [s for s in cxx.all_stmts(lb) if s["k"] == "decl" and s["name"] == "__redu_progress"]
        r.check(len(fd) == 1 and show(fd[0]["init"]) == "(__redu_start + ((__redu_end - __redu_start) * __redu_progress))", "sweep/linear-interpolation", (em, em.func("_emit_block")), f"frequency is `{show(fd[0]['init']) if fd else '?'}`")
        r.check(len(pg) == 1 and show(pg[0]["init"]) == "((__redu_steps == 1) ? 1.0 : ((float)__redu_i / ((float)__redu_steps - 1.0)))", "sweep/progress=i/(steps-1)", (em, em.func("_emit_block")), f"progress is `{show(pg[0]['init']) if pg else '?'}`")
        # the interpolated frequency may only be clamped at zero
        for s in cxx.all_stmts(lb):
            for e in cxx.stmt_exprs(s):
                for x in sub_exprs(e):
                    if x[0] == "assign" and lname(x[2]) == "__redu_freq":
                        okz = x[1] == "=" and x[3] in (("lit", 0.0), ("lit", 0))
                        r.check(okz, "sweep/frequency-only-clamped-at-zero", (em, em.func("_emit_block")), f"`{show(x)}` alters the interpolated sweep frequency: the sweep would no longer move monotonically from start to end")
        sd = [s for s in cxx.all_stmts(b) if s["k"] == "decl" and s["name"] == "__redu_step_delay"]
        r.check(len(sd) == 1 and "((float)__redu_total / (float)__redu_steps)" in show(sd[0]["init"]), "sweep/step-delay=total/steps", (em, em.func("_emit_block")), f"step delay is `{show(sd[0]['init']) if sd else '?'}`")
        r.check([show(c) for c in cxx.all_calls(lb, "delay")] == ["delay((unsigned long)__redu_step_delay)"], "sweep/one-delay-per-step", (em, em.func("_emit_block")), "exactly one delay of step_delay per tone")
    # melodies: what the firmware plays is read off the kernel's tone/delay events (C semantics) - independent of how the score
    # table and the template are written
    from .. import ckern as _ck

    def melody_names():
        v_ = dl.Interp(em).expr(ast.Name(id="_BUZZER_MELODIES", ctx=ast.Load()), dl.Env(None))
        return sorted(v_)

    def melody_notes(name, tempo):
        """[(frequency or 0 for a rest, milliseconds)] played by melody(name, tempo=...); tempo None = omitted"""
        cls_ = pe.ir_classes()[0]
        base_ = l2.functions_of(pe.emit_program(setup=[l2.decl_node("Buzzer")], loop=[]).text, ["setup"])["setup"][0]["body"]
        res_ = pe.emit_program(setup=[l2.decl_node("Buzzer"), cls_["BuzzerMelody"](name="dev", melody=name, tempo=(None if tempo is None else "H_t"))], loop=[])
        if res_.raised:
            raise AnalysisError(f"emit() raises for melody {name}")
        body_ = l2.functions_of(res_.text, ["setup"])["setup"][0]["body"][len(base_):]
        k_ = _ck.Kern(env={"__buzzer_state_dev": 0, "__buzzer_current_dev": 0.0, "__buzzer_last_dev": 440.0, "H_t": (0 if tempo is None else tempo)}, types={"__buzzer_state_dev": "bool", "__buzzer_current_dev": "float", "__buzzer_last_dev": "float"})
        try:
            k_.block(body_)
        except _ck.KernUnsupported as e:
            raise AnalysisError(f"melody kernel left the evaluable subset: {e}")
        notes, pending = [], None
        for nm_, a_ in k_.events:
            if nm_ == "tone":
                pending = a_[1]
            elif nm_ == "delay":
                notes.append((pending if pending is not None else 0, a_[0]))
                pending = None
        silent = bool(k_.events) and k_.events[-1][0] == "noTone" and not k_.env.get("__buzzer_state_dev")
        return notes, silent

    names_all = melody_names()
    for name in names_all:
        n120, silent = melody_notes(name, 120)
        n60, _s = melody_notes(name, 60)
        n240, _s = melody_notes(name, 240)
        r.check(bool(n120) and [f for f, _d in n120] == [f for f, _d in n60] == [f for f, _d in n240], f"melody[{name}]/loop-over-score", (em, em.func("_emit_block")), f"melody {name} plays {[f for f, _d in n120][:8]} at tempo 120 and {[f for f, _d in n60][:8]} at tempo 60: the whole score must be played in order at every tempo")
        okd = len(n120) == len(n60) == len(n240) and all(abs(d60 - 2 * d120) <= 2 and abs(d120 - 2 * d240) <= 2 for (_f, d120), (_g, d60), (_h, d240) in zip(n120, n60, n240))
        r.check(okd, f"melody[{name}]/duration=beat*60000/tempo", (em, em.func("_emit_block")), f"note durations at tempo 240/120/60: {[d for _f, d in n240][:6]} / {[d for _f, d in n120][:6]} / {[d for _f, d in n60][:6]}: a note lasts beat * 60000 / tempo ms (halving the tempo doubles every note)")
        r.check(silent, f"melody[{name}]/ends-silent", (em, em.func("_emit_block")), "the melody must end with noTone and the sounding flag cleared")

    # ---- C16-KERNEL --------------------------------------------------------------------------
    # the sweep and beep commands evaluated with C semantics over a grid of arguments: the clauses of the property read off
    # the recorded tone/noTone/delay events
    from .. import ckern
    r = cx.rule("C16-KERNEL", "sweep(start, end, duration, steps) sounds exactly `steps` tones (positive frequencies), monotone from start to end, first = start when steps > 1, last = end, total delay <= duration, silent with get_state false afterwards; beep(f, on, off, times) sounds exactly `times` tones of f with on-delays inside and off-delays only between (grid of arguments, firmware kernel evaluated with C semantics)", floor=60, exhaustive=True)
    b0 = l2.functions_of(pe.emit_program(setup=[l2.decl_node("Buzzer")], loop=[]).text, ["setup"])["setup"][0]["body"]
    genv = lambda: {"__buzzer_state_dev": 0, "__buzzer_current_dev": 0.0, "__buzzer_last_dev": 440.0}
    gty = {"__buzzer_state_dev": "bool", "__buzzer_current_dev": "float", "__buzzer_last_dev": "float"}
    res = pe.emit_program(setup=[l2.decl_node("Buzzer"), pe.ir_classes()[0]["BuzzerSweep"](name="dev", start_hz="H_a", end_hz="H_b", duration_ms="H_d", steps="H_s")], loop=[])
    sbody = l2.functions_of(res.text, ["setup"])["setup"][0]["body"][len(b0):]
    n_bad = 0
    for a_, b_ in ((200, 400), (400, 200), (300, 300), (100, 1000), (880, 440)):
        for d_, s_ in ((300, 3), (100, 8), (250, 4), (50, 30), (1000, 7), (10, 4), (5, 10), (0, 5), (120, 1), (77, 2)):
            env = genv()
            env.update({"H_a": a_, "H_b": b_, "H_d": d_, "H_s": s_})
            k = ckern.Kern(env=env, types=dict(gty))
            try:
                k.block(sbody)
            except ckern.KernUnsupported as e:
                raise AnalysisError(f"sweep kernel left the evaluable subset: {e}")
            tones = [ev[1][1] for ev in k.events if ev[0] == "tone"]
            total = sum(ev[1][0] for ev in k.events if ev[0] == "delay")
            mono = all((x <= y) for x, y in zip(tones, tones[1:])) if b_ >= a_ else all((x >= y) for x, y in zip(tones, tones[1:]))
            last_is_notone = bool(k.events) and k.events[-1][0] == "noTone"
            good = len(tones) == s_ and mono and tones[-1] == b_ and (s_ == 1 or tones[0] == a_) and total <= d_ and last_is_notone and not k.env["__buzzer_state_dev"] and k.env["__buzzer_current_dev"] == 0
            if good:
                r.ok(None)
            else:
                n_bad += 1
                if n_bad <= 3:
                    r.fail("sweep/kernel-law", (em, em.func("_emit_block")), f"sweep({a_}, {b_}, duration_ms={d_}, steps={s_}): tones {tones[:6]}{'...' if len(tones) > 6 else ''} ({len(tones)}), total delay {total} ms, ends silent={last_is_notone and not k.env['__buzzer_state_dev']}", detail={"start": a_, "end": b_, "duration": d_, "steps": s_})
                else:
                    r.stat.obligations += 1
                    r.stat.failed += 1
    res = pe.emit_program(setup=[l2.decl_node("Buzzer"), pe.ir_classes()[0]["BuzzerBeep"](name="dev", frequency="H_f", on_ms="H_on", off_ms="H_off", times="H_t")], loop=[])
    bbody = l2.functions_of(res.text, ["setup"])["setup"][0]["body"][len(b0):]
    for f_ in (440, 1000, 0, -5):
        for on_, off_, t_ in ((100, 50, 3), (10, 0, 1), (0, 5, 2), (20, 20, 0), (30, 10, 5)):
            env = genv()
            env.update({"H_f": f_, "H_on": on_, "H_off": off_, "H_t": t_})
            k = ckern.Kern(env=env, types=dict(gty))
            try:
                k.block(bbody)
            except ckern.KernUnsupported as e:
                raise AnalysisError(f"beep kernel left the evaluable subset: {e}")
            names = [ev[0] for ev in k.events]
            tones = [ev[1][1] for ev in k.events if ev[0] == "tone"]
            delays = [ev[1][0] for ev in k.events if ev[0] == "delay"]
            want_tones = [f_] * t_ if f_ > 0 else []
            want_delay = (on_ * t_ + off_ * max(0, t_ - 1)) if f_ > 0 else None
            good = tones == want_tones and not k.env["__buzzer_state_dev"] and (want_delay is None or sum(delays) == want_delay) and ("tone" not in names or names[len(names) - 1 - names[::-1].index("tone"):].count("noTone") >= 1)
            if good:
                r.ok(None)
            else:
                n_bad += 1
                if n_bad <= 6:
                    r.fail("beep/kernel-law", (em, em.func("_emit_block")), f"beep({f_}, on_ms={on_}, off_ms={off_}, times={t_}): tones {tones}, delays {delays}, state afterwards {bool(k.env['__buzzer_state_dev'])}; expected {len(want_tones)} tone(s){'' if want_delay is None else f' and {want_delay} ms of delay'}", detail={"frequency": f_, "on": on_, "off": off_, "times": t_})
                else:
                    r.stat.obligations += 1
                    r.stat.failed += 1

    # ---- C16-MELODY --------------------------------------------------------------------------
    r = cx.rule("C16-MELODY", "the melody names accepted by the parser, the emitter's score table and the documented tunes agree; every score has a positive tempo, non-empty notes with frequency >= 0 and beat > 0, and the documented shape", floor=20)
    tbl = names_all
    try:
        pnames = sorted(dl.Interp(pm).expr(ast.Name(id="_BUZZER_MELODIES", ctx=ast.Load()), dl.Env(None)))
    except dl.Unsupported as e:
        raise AnalysisError(f"the parser's melody vocabulary is not evaluable: {e}")
    doc = ast.get_docstring(hm.tree) or ""
    doc_names = set(re.findall(r"``\"([a-z_]+)\"``", doc))
    r.check(set(pnames) == set(tbl), "melody-names/parser=emitter", (pm.rel, pm.const("_BUZZER_MELODIES").lineno), f"parser accepts {sorted(pnames)}, emitter knows {sorted(tbl)}")
    r.check(doc_names == set(tbl), "melody-names/documented=emitter", (hm.rel, 1), f"documented {sorted(doc_names)}, emitter knows {sorted(tbl)}")
    for name in tbl:
        # the tune's own tempo as the firmware plays it: omitted tempo, tempo 0 and a negative tempo all play the same positive
        # durations; the implied tempo (from the 1/tempo law) is positive
        own, _s = melody_notes(name, None)
        zero, _s = melody_notes(name, 0)
        neg, _s = melody_notes(name, -5)
        n120, _s = melody_notes(name, 120)
        tot_own, tot120 = sum(d for _f, d in own), sum(d for _f, d in n120)
        r.check(bool(own) and own == zero == neg and tot_own > 0 and tot120 > 0, f"score[{name}]/own-tempo>0-and-consistent", (em.rel, em.const("_BUZZER_MELODIES").lineno), f"total duration with the tempo omitted {tot_own} ms, with tempo 0 {sum(d for _f, d in zero)} ms, with tempo -5 {sum(d for _f, d in neg)} ms: an omitted or non-positive tempo must fall back to the tune's own positive tempo")
        r.check(bool(n120) and all(isinstance(f, (int, float)) and f >= 0 and d > 0 for f, d in n120), f"score[{name}]/notes-well-formed", (em.rel, em.const("_BUZZER_MELODIES").lineno), f"notes played at tempo 120: {n120[:6]}: every note needs frequency >= 0 and a positive duration")
        seq = n120
        if name in DOC_SHAPES and seq:
            cnt, shape = DOC_SHAPES[name]
            fs = [f for f, _b in seq]
            if shape == "rising":
                oks = all(a < b_ for a, b_ in zip(fs, fs[1:]))
            elif shape == "falling":
                oks = all(a > b_ for a, b_ in zip(fs, fs[1:]))
            elif shape == "alternating":
                oks = len(set(fs)) == 2 and all(fs[i] == fs[i % 2] for i in range(len(fs))) and len(fs) % 2 == 0
            else:
                oks = len(fs) == 3 and fs[0] == fs[2] and fs[1] == 0
            r.check(oks and (cnt is None or len(fs) == cnt), f"score[{name}]/documented-shape", (em.rel, em.const("_BUZZER_MELODIES").lineno), f"documented as {shape}{'' if cnt is None else f' with {cnt} notes'}; the firmware plays {len(fs)} notes {fs[:6]}")
    # the parser stores a name the emitter knows: scripts with every spelling of a melody name (exact, other case, padded,
    # unknown) are parsed; each is either refused with ValueError or stored as a name for which the emitter plays the score
    # (a name that passes validation and then finds no score would make the call vanish)
    from .. import pe as _pe
    names_tbl = list(names_all)
    cls_, _f = _pe.ir_classes()
    spellings = []
    for nm_ in names_tbl:
        spellings += [nm_, nm_.upper(), nm_.capitalize(), f" {nm_} ", nm_ + "x"]
    spellings += ["nope", "", "none"]
    for sp in spellings:
        src = f"from Reduino.Actuators import Buzzer\nbuz = Buzzer(8)\nbuz.melody({sp!r})\nwhile True:\n    z0 = 0\n"
        try:
            _it, out = _pe.parse_source(src)
        except dl.Unsupported as e:
            raise AnalysisError(f"parse() left the evaluable subset on melody({sp!r}): {e}")
        if out.kind != "return":
            r.check(out.value == "ValueError", f"parser/melody[{sp}]-refused-with-ValueError", (pm, pm.func("parse")), f"melody({sp!r}): parse() raises {out.value}")
            continue
        nodes = [n_ for n_ in out.value.setup_body if type(n_).__name__ == "BuzzerMelody"]
        if len(nodes) != 1:
            r.fail(f"parser/melody[{sp}]-kept", (pm, pm.func("parse")), f"melody({sp!r}) is accepted but {len(nodes)} BuzzerMelody nodes are built")
            continue
        with_ = _pe.emit_program(setup=[l2.decl_node("Buzzer"), cls_["BuzzerMelody"](name="dev", melody=nodes[0].melody, tempo=None)], loop=[])
        without = _pe.emit_program(setup=[l2.decl_node("Buzzer")], loop=[])
        plays = not with_.raised and with_.text != without.text and "tone(" in with_.text
        r.check(plays, "parser/stored-melody=validated-melody", (pm, pm.func("parse")), f"melody({sp!r}) passes the parser, which stores {nodes[0].melody!r}; the emitter plays nothing for that name: the call vanishes from the firmware", sample=f"melody({sp!r}) -> {nodes[0].melody!r}")

    # ---- C16-BIND (shared with C08) --------------------------------------------------------------
    from . import c08
    c08.bind_rule(cx, "C16-BIND", "C16-MAP", only=("Buzzer",), floor=30)
    c08.rule_field_flow(cx, "C16-FIELDS", devices=("Buzzer",))

    # ---- C16-GETTERS -------------------------------------------------------------------------
    r = cx.rule("C16-GETTERS", "get_state/get_frequency/get_last_frequency name the shadow variables the buzzer commands maintain", floor=3)
    tce = pm.func("_to_c_expr")
    sk = pe.emit_program(setup=[l2.decl_node("Buzzer")], loop=[]).text
    g = l2.global_decls(sk)
    for meth, want, ctype in (("get_state", "__buzzer_state_dev", "bool"), ("get_frequency", "__buzzer_current_dev", "float"), ("get_last_frequency", "__buzzer_last_dev", "float")):
        out = dl.Interp(pm, opaque={"ast.parse": ast.parse}).call(tce, [f"dev.{meth}()", {}, {"buzzer_names": {"dev"}}])
        got = out.value if out.kind == "return" else None
        r.check(got == want and want in g and g[want][0] == ctype, f"Buzzer.{meth}", (pm, tce), f"dev.{meth}() -> `{got}`; expected `{want}` declared as {ctype} (declared: {g.get(want)})")
    r.check(g.get("__buzzer_last_dev", ("", ""))[1].startswith("static_cast<float>(440"), "Buzzer/last-starts-at-default-frequency", (em, em.func("emit")), f"initial last frequency: {g.get('__buzzer_last_dev')}")

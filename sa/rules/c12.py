"""C12 - target(): validate first, transpile faithfully, upload only on request."""
from __future__ import annotations

import ast

from .. import lit
from ..core import AnalysisError
from ..flow import PathFacts, CallCount, split_and
from ..src import Locals, call_name, calls_in, dotted, kwarg, mod, norm, walk_local
from . import c13, c14

INIT = "__init__.py"
PIO = "toolchain/pio.py"

EFFECT_CALLS = {
    "open", "exec", "eval", "compile", "__import__", "os.system", "os.remove", "os.unlink", "os.rename",
    "os.makedirs", "os.mkdir", "os.rmdir", "os.replace", "shutil.rmtree", "shutil.copy", "shutil.move",
    "subprocess.run", "subprocess.call", "subprocess.check_call", "subprocess.check_output", "subprocess.Popen",
    "os.popen", "os.execv", "os.spawnl",
}
EFFECT_ATTRS = {"write_text", "write_bytes", "mkdir", "unlink", "rmdir", "rename", "touch", "symlink_to", "chmod"}

# equivalent spellings of "upload is true" on the documented bool domain
UPLOAD_TRUE = {"upload", "bool(upload)", "upload is True", "upload == True", "upload is not False", "upload != False"}
UPLOAD_FALSE = {"upload is False", "upload == False", "upload is not True", "upload != True"}


def _stmt_calls(stmt):
    """calls evaluated by a simple statement or by the *test/header* of a compound one"""
    if isinstance(stmt, (ast.If, ast.While)):
        roots = [stmt.test]
    elif isinstance(stmt, ast.For):
        roots = [stmt.iter]
    elif isinstance(stmt, (ast.With,)):
        roots = [i.context_expr for i in stmt.items]
    elif isinstance(stmt, (ast.Try, ast.FunctionDef, ast.ClassDef)):
        roots = []
    else:
        roots = [stmt]
    out = []
    for r_ in roots:
        for n in walk_local(r_):
            if isinstance(n, ast.Call):
                out.append(n)
    out.sort(key=lambda c: (c.end_lineno, c.end_col_offset))  # inner calls finish first
    return out


class Order(PathFacts):
    def __init__(self, on_call):
        self.on_call = on_call

    def fact_names(self, fact):
        return {"upload"} if fact in ("upload", "!upload") else set()

    def contradicts(self, alt):
        return "upload" in alt and "!upload" in alt

    def cond_facts(self, test, truth):
        out = set()
        for atom, t in split_and(test, truth):
            s = norm(atom)
            if s in UPLOAD_TRUE:
                out.add("upload" if t else "!upload")
            elif s in UPLOAD_FALSE:
                out.add("!upload" if t else "upload")
        return out

    def visit(self, stmt, state):
        seen = set()
        for c in _stmt_calls(stmt):
            self.on_call(c, state, frozenset(seen))
            n = call_name(c) or (c.func.attr if isinstance(c.func, ast.Attribute) else None)
            if n:
                seen.add("called:" + n.split(".")[-1])

    def gen(self, stmt, alt):
        return {"called:" + (call_name(c) or getattr(c.func, "attr", "?")).split(".")[-1] for c in _stmt_calls(stmt)}

    def assume(self, test, state, truth):
        # calls in the test have happened on both branches
        g = frozenset("called:" + (call_name(c) or getattr(c.func, "attr", "?")).split(".")[-1] for c in walk_local(test) if isinstance(c, ast.Call))
        st = frozenset(alt | g for alt in state) if g else state
        return super().assume(test, st, truth)


def rule_params_unchanged(cx, rid, mi):
    """target(): the caller's port/platform/board are what is validated and written - none of them is re-bound"""
    tgt = mi.func("target")
    r = cx.rule(rid, "target() never re-binds port, platform or board: the pair that is validated and the values written to platformio.ini are the caller's own (no inference of one from the other, no normalisation)", floor=3)
    for p_ in ("port", "platform", "board"):
        stores = [n for n in walk_local(tgt) if isinstance(n, ast.Name) and n.id == p_ and isinstance(n.ctx, (ast.Store, ast.Del))]
        r.check(not stores, f"target/parameter[{p_}]-rebound", (mi, stores[0] if stores else tgt), f"target() assigns to its parameter `{p_}`: a platform/board pair the caller gave can then pass validation (or be written) as a different pair", sample=f"target: {p_} not re-bound")
    return r


def run(cx):
    mi, mp = mod(INIT), mod(PIO)
    cx.consulted(mi)
    cx.consulted(mp)
    cx.explanation = (
        "path-sensitive must-analysis of target() (every path, facts = calls already made + branch on upload), "
        "def-use resolution of the values passed between its steps, shape of compile_upload/ensure_pio, and the "
        "project-file rules shared with C13; decides ordering/flow clauses, not what PlatformIO does"
    )
    tgt = mi.func("target")
    loc = Locals(tgt)
    params = [a.arg for a in tgt.args.args + tgt.args.kwonlyargs]
    for need in ("port", "upload", "platform", "board"):
        if need not in params:
            raise AnalysisError(f"target() lost parameter {need}")

    rule_params_unchanged(cx, "C12-PARAMS", mi)

    # ---- C12-ORDER ---------------------------------------------------------------------------
    r = cx.rule("C12-ORDER", "validate_platform_board(platform, board) precedes every other call; ensure_pio and compile_upload happen iff upload; ensure_pio precedes reading/writing anything", floor=8)
    for p in ("port", "upload", "platform", "board"):
        r.check(not loc.rebound(p), f"target/param-not-rebound[{p}]", (mi, tgt), f"parameter {p} is reassigned inside target()")

    effectful_before_pio = {"mkdtemp", "write_project", "compile_upload", "read_text", "parse", "emit", "mkdir", "write_text"}

    def on_call(c, state, seen_in_stmt):
        name = (call_name(c) or getattr(c.func, "attr", "?"))
        short = name.split(".")[-1]
        if short == "validate_platform_board":
            ok = [norm(a) for a in c.args] == ["platform", "board"] and not c.keywords or (
                not c.args and norm(kwarg(c, "platform") or ast.Constant(0)) == "platform" and norm(kwarg(c, "board") or ast.Constant(0)) == "board")
            r.check(ok, "target/validate-args", (mi, c), "validate_platform_board must receive (platform, board) unchanged")
            return
        for alt in state:
            have = alt | seen_in_stmt
            if "called:validate_platform_board" not in have:
                r.fail(f"target/call[{short}]-before-validation", (mi, c), f"{name}() can run before validate_platform_board(platform, board)")
                break
        else:
            r.ok(f"{short} after validation")
        if short == "ensure_pio":
            for alt in state:
                if "upload" not in alt:
                    r.fail("target/ensure_pio-without-upload", (mi, c), "ensure_pio() is reachable when upload is not requested (transpile-only use must work without PlatformIO)")
                    break
            else:
                r.ok("ensure_pio only under upload")
        if short == "compile_upload":
            for alt in state:
                if "upload" not in alt:
                    r.fail("target/compile_upload-without-upload", (mi, c), "compile_upload() is reachable when upload is false")
                    break
            else:
                r.ok("compile_upload only under upload")
        if short in effectful_before_pio:
            for alt in state:
                have = alt | seen_in_stmt
                if "!upload" in alt:
                    continue
                if "called:ensure_pio" not in have:
                    r.fail(f"target/call[{short}]-before-ensure_pio", (mi, c), f"{name}() can run with upload requested before ensure_pio() has checked for PlatformIO")
                    break
            else:
                r.ok(f"{short} after ensure_pio when uploading")

    an = Order(on_call)
    out = an.run_function(tgt, frozenset({frozenset()}))
    exits = [(n, s) for n, s in out.ret]
    if out.fall is not None:
        exits.append((tgt, out.fall))
    if not exits:
        raise AnalysisError("target() has no normal exit")
    for n, s in exits:
        for alt in s:
            if "!upload" in alt:
                r.check("called:compile_upload" not in alt, "target/exit[no-upload]-did-not-upload", (mi, n), "a path with upload false reaches the end having called compile_upload")
            else:
                r.check("called:compile_upload" in alt and "called:ensure_pio" in alt, "target/exit[upload]-uploaded", (mi, n), "a path with upload true returns without ensure_pio()+compile_upload()")
            r.check("called:write_project" in alt and "called:emit" in alt and "called:parse" in alt, "target/exit-wrote-project", (mi, n), "a normal exit of target() skips parse/emit/write_project")
    # write_project precedes compile_upload: checked as order fact at the compile_upload call
    for c in calls_in(tgt):
        if (call_name(c) or "").endswith("compile_upload"):
            pass
    # calls inside try blocks that swallow
    for n in walk_local(tgt):
        if isinstance(n, ast.Try):
            r.fail("target/try-block", (mi, n), "target() wraps steps in try/except: tool failures must propagate")

    # ---- C12-FLOW ----------------------------------------------------------------------------
    r = cx.rule("C12-FLOW", "the source read from __main__'s file is what is parsed; the emitted text is both written (main.cpp) and returned; port/platform/board/libraries flow unchanged into write_project", floor=8)

    def res(n):
        return loc.resolve(n)

    rets = [n for n in walk_local(tgt) if isinstance(n, ast.Return)]
    r.check(len(rets) >= 1 and all(x.value is not None for x in rets), "target/returns-value", (mi, tgt), "target() must return the firmware source")
    emit_calls = [c for c in calls_in(tgt) if call_name(c) == "emit"]
    parse_calls = [c for c in calls_in(tgt) if call_name(c) == "parse"]
    wp_calls = [c for c in calls_in(tgt) if call_name(c) == "write_project"]
    cu_calls = [c for c in calls_in(tgt) if call_name(c) == "compile_upload"]
    r.check(len(emit_calls) == 1, "target/one-emit", (mi, tgt), f"expected exactly one emit() call, found {len(emit_calls)}")
    r.check(len(parse_calls) == 1, "target/one-parse", (mi, tgt), f"expected exactly one parse() call, found {len(parse_calls)}")
    r.check(len(wp_calls) == 1, "target/one-write_project", (mi, tgt), f"expected exactly one write_project() call, found {len(wp_calls)}")
    if emit_calls and parse_calls and wp_calls:
        e, p, w = emit_calls[0], parse_calls[0], wp_calls[0]
        for x in rets:
            r.check(x.value is not None and res(x.value) is e, "target/return=emit(program)", (mi, x), "the returned value is not the emit() result itself")
        r.check(len(e.args) == 1 and res(e.args[0]) is p, "target/emit(parse(src))", (mi, e), "emit() must receive the Program returned by parse()")
        src = res(p.args[0]) if p.args else None
        ok = isinstance(src, ast.Call) and isinstance(src.func, ast.Attribute) and src.func.attr == "read_text"
        r.check(ok, "target/parse(read_text)", (mi, p), "parse() must receive the text read from the script file")
        if ok:
            enc = kwarg(src, "encoding")
            r.check(enc is not None and str(lit.try_ev(enc)).lower().replace("-", "") == "utf8", "target/read-utf8", (mi, src), "the script must be read as utf-8")
            fobj = res(src.func.value)
            txt = norm(fobj)
            r.check("sys.modules['__main__'].__file__" in txt or "__main__.__file__" in txt, "target/reads-__main__-file", (mi, src), f"script path is {txt}, expected the __main__ module's __file__")
        # write_project arguments
        a0 = res(w.args[0]) if w.args else res(kwarg(w, "project_dir") or ast.Constant(None))
        r.check("mkdtemp" in norm(a0), "target/project-dir=fresh-mkdtemp", (mi, w), "project directory must be a fresh tempfile.mkdtemp() directory")
        a1 = w.args[1] if len(w.args) > 1 else kwarg(w, "cpp_code")
        r.check(a1 is not None and res(a1) is e, "target/write_project(cpp)=emit-result", (mi, w), "write_project must receive the emit() result that is also returned")
        for k in ("port", "platform", "board"):
            a = kwarg(w, k)
            if a is None and k == "port" and len(w.args) > 2:
                a = w.args[2]
            r.check(a is not None and isinstance(a, ast.Name) and a.id == k, f"target/write_project[{k}]", (mi, w), f"write_project's {k} must be target()'s {k} parameter unchanged")
        a = kwarg(w, "lib_deps")
        la = res(a) if a is not None else None
        okl = isinstance(la, ast.Call) and call_name(la) == "_collect_required_libraries" and len(la.args) == 1 and res(la.args[0]) is p
        r.check(okl, "target/write_project[lib_deps]", (mi, w), "lib_deps must be _collect_required_libraries(<the parsed program>)")
        # the list must not be mutated between collection and use
        if a is not None and isinstance(a, ast.Name):
            muts = [c for c in calls_in(tgt) if isinstance(c.func, ast.Attribute) and isinstance(c.func.value, ast.Name) and c.func.value.id == a.id and c.func.attr in ("append", "extend", "remove", "pop", "clear", "insert", "sort", "reverse")]
            r.check(not muts, "target/lib_deps-not-mutated", (mi, tgt), "required library list is mutated in target()")
        for c in cu_calls:
            ca = res(c.args[0]) if c.args else None
            r.check(ca is not None and ca is a0, "target/compile_upload(project-dir)", (mi, c), "compile_upload must receive the directory the project was written to")
            r.check((w.end_lineno, w.end_col_offset) <= (c.lineno, c.col_offset) , "target/write-before-upload", (mi, c), "compile_upload must follow write_project")

    # ---- C12-NOEXTRA -------------------------------------------------------------------------
    r = cx.rule("C12-NOEXTRA", "target() performs no file/process effect itself besides mkdtemp, write_project, compile_upload and reading the script", floor=5)
    for c in calls_in(tgt):
        n = call_name(c) or ""
        attr = c.func.attr if isinstance(c.func, ast.Attribute) else None
        if n in EFFECT_CALLS or (attr in EFFECT_ATTRS):
            r.fail(f"target/extra-effect[{n or attr}]", (mi, c), f"unexpected effectful call {n or attr} in target()")
        else:
            r.ok(n or attr)

    # ---- C12-TOOLS ---------------------------------------------------------------------------
    r = cx.rule("C12-TOOLS", "compile_upload, evaluated against a scripted tool over success / failure / death-by-signal statuses of either step: runs `pio run` then `pio run -t upload` in the project dir, exactly once each; a failed build raises and never reaches the upload, a failed upload raises; ensure_pio converts any failure into RuntimeError", floor=8)
    cu = mp.func("compile_upload")
    is_run = lambda c: call_name(c) in ("subprocess.run", "subprocess.check_call")
    # compile_upload evaluated by the checker's interpreter against a scripted tool: every process start goes to a recorder
    # that answers with a chosen exit status (check=True / check_call semantics modelled: non-zero raises CalledProcessError),
    # so helpers, wrappers and explicit return-code tests are all followed.  Statuses cover success, ordinary failures and
    # death by signal (negative).
    from .. import dl
    other_tools = [c for q_, f_ in mp.funcs.items() if q_ == "compile_upload" or q_.startswith("_") for c in calls_in(f_) if (call_name(c) or "") in EFFECT_CALLS and not is_run(c) and q_ not in ("ensure_pio",)]
    other_tools = [c for c in other_tools if mp.enclosing_func(c) is cu or any(isinstance(x, ast.Call) and call_name(x) == mp.enclosing_func(c).name for x in ast.walk(cu))]
    r.check(not other_tools, "compile_upload/no-other-process", (mp, cu), "compile_upload starts a process other than its two pio runs")
    want = [["pio", "run"], ["pio", "run", "-t", "upload"]]

    class _Done(dl.Synth):
        __dl_native__ = True      # a recorder object of the checker: CompletedProcess with its one behavioural method

        def check_returncode(self):
            if self.returncode != 0:
                raise dl.Raised("CalledProcessError", f"exit {self.returncode}")

    class _SysStub(dl.Synth):
        stderr = None
        stdout = None

    def scripted(statuses):
        log = []

        def run(cmd, *a_, **kw_):
            i_ = len(log)
            rc = statuses[i_] if i_ < len(statuses) else statuses[-1]      # a failing step keeps failing however often it is retried
            log.append((list(cmd) if isinstance(cmd, (list, tuple)) else cmd, kw_.get("cwd"), rc))
            if kw_.get("check") and rc != 0:
                raise dl.Raised("CalledProcessError", f"exit {rc}")
            d_ = _Done()
            d_.returncode, d_.stdout, d_.stderr, d_.args = rc, "", "", cmd
            return d_

        def check_call(cmd, *a_, **kw_):
            kw_["check"] = True
            run(cmd, *a_, **kw_)
            return 0
        return log, {"subprocess.run": run, "subprocess.check_call": check_call, "subprocess.call": lambda cmd, *a_, **kw_: run(cmd, *a_, **kw_).returncode,
                     "subprocess.CalledProcessError": lambda *a_, **k_: dl.Raised("CalledProcessError", ""), "Path": lambda p_: p_, "print": lambda *a_, **k_: None, "str": str}

    fails = (1, 2, 255, -9, -2)
    scen = [(0, 0)] + [(f_,) for f_ in fails] + [(0, f_) for f_ in fails]
    for st in scen:
        log, opq = scripted(st)
        try:
            out = dl.Interp(mp, opaque=opq, extra_env={"sys": _SysStub()}).call(cu, ["/proj/dir"])
        except dl.Unsupported as e:
            raise AnalysisError(f"compile_upload left the evaluable subset: {e}")
        tag = "ok" if st == (0, 0) else f"{'build' if len(st) == 1 else 'upload'}-exit[{st[-1]}]"
        argvs = [l_[0] for l_ in log]
        if st == (0, 0):
            r.check(out.kind == "return" and argvs == want, "compile_upload/exactly-two-runs-per-path", (mp, cu), f"with both steps succeeding compile_upload -> {out!r} after running {argvs}; expected exactly {want}")
            for i_, l_ in enumerate(log[:2]):
                r.check(l_[0] == want[i_], f"compile_upload/argv[{i_}]", (mp, cu), f"tool invocation #{i_ + 1} is {l_[0]!r}, expected {want[i_]!r}")
                r.check(l_[1] == "/proj/dir", f"compile_upload/cwd[{i_}]", (mp, cu), f"pio step #{i_ + 1} runs with cwd={l_[1]!r}: it must run in the project directory")
        elif len(st) == 1:
            r.check(out.kind == "raise" and len(log) == 1, f"compile_upload/failed-build-stops[{st[0]}]", (mp, cu), f"the build step ends with status {st[0]}: compile_upload -> {out!r} after running {argvs}; a failed build must raise and never reach the upload step")
        else:
            r.check(out.kind == "raise" and argvs[:2] == want and all(a_ == want[1] for a_ in argvs[2:]), f"compile_upload/failed-upload-raises[{st[1]}]", (mp, cu), f"the upload step ends with status {st[1]}: compile_upload -> {out!r}; a tool failure must propagate")
    ep = mp.func("ensure_pio")
    # every call of ensure_pio probes: no normal exit without having invoked pio (a remembered "already checked" flag would
    # turn a failed probe into a pass on the next call)
    pc = CallCount(is_run).run_function(ep, (0, 0))
    pexits = [s_ for _n, s_ in pc.ret] + ([pc.fall] if pc.fall is not None else [])
    r.check(bool(pexits) and all(s_[0] >= 1 for s_ in pexits), "ensure_pio/probes-on-every-call", (mp, ep), f"probe invocations on the normal exits of ensure_pio: {pexits}; some path returns without running `pio --version`")
    tries = [n for n in walk_local(ep) if isinstance(n, ast.Try)]
    runs_e = [c for c in calls_in(ep) if is_run(c)]
    r.check(len(runs_e) >= 1, "ensure_pio/probes-pio", (mp, ep), "ensure_pio no longer invokes pio")
    for c in runs_e:
        argv = lit.try_ev(c.args[0]) if c.args else None
        r.check(isinstance(argv, list) and argv[:1] == ["pio"], "ensure_pio/argv", (mp, c), f"probe command is {argv!r}")
        chk = kwarg(c, "check")
        r.check(chk is not None and lit.try_ev(chk) is True, "ensure_pio/check=True", (mp, c), "a non-zero exit of the probe must count as failure")
        inside = [t for t in tries if any(x is c for b in t.body for x in ast.walk(b))]
        okh = False
        for t in inside:
            for h in t.handlers:
                broad = h.type is None or dotted(h.type) in ("Exception", "BaseException")
                raises = [x for x in walk_local(h) if isinstance(x, ast.Raise)]
                all_rt = bool(raises) and all(x.exc is not None and dotted(x.exc.func if isinstance(x.exc, ast.Call) else x.exc) == "RuntimeError" for x in raises)
                # the handler body must end in a raise on every path
                last = h.body[-1]
                if broad and all_rt and isinstance(last, ast.Raise):
                    okh = True
        r.check(okh, "ensure_pio/failure->RuntimeError", (mp, c), "a failing/missing pio must surface as RuntimeError (broad handler that always raises RuntimeError)")

    # ---- project configuration (shared with C13) --------------------------------------------
    plats = lit.table(mp, "SUPPORTED_PLATFORMS")
    all_boards = sorted(set().union(*plats.values()))
    c13.rule_validate(cx, mp, "C12-VALIDATE")
    c14.rule_agree(cx, "C12-LIBS", libs_only=True)
    c13.rule_write(cx, mp, "C12-PROJECT")
    c13.rule_project_eval(cx, mp, "C12-PROJECT-EVAL")
    c13.rule_libs(cx, mp, "C12-INI-LIBS")
    c13.rule_ini(cx, mp, "C12-INI", all_boards)

"""C12 - target(): validate first, transpile faithfully, upload only on request."""
from __future__ import annotations

import ast

from .. import lit
from ..core import AnalysisError
from ..flow import PathFacts, CallCount, split_and
from ..src import Locals, call_name, calls_in, dotted, kwarg, mod, norm, walk_local
from . import c13, c14

INIT = "__init__.py"
PIO = "toolchain/pio.py"

EFFECT_CALLS = {
    "open", "exec", "eval", "compile", "__import__", "os.system", "os.remove", "os.unlink", "os.rename",
    "os.makedirs", "os.mkdir", "os.rmdir", "os.replace", "shutil.rmtree", "shutil.copy", "shutil.move",
    "subprocess.run", "subprocess.call", "subprocess.check_call", "subprocess.check_output", "subprocess.Popen",
    "os.popen", "os.execv", "os.spawnl",
}
EFFECT_ATTRS = {"write_text", "write_bytes", "mkdir", "unlink", "rmdir", "rename", "touch", "symlink_to", "chmod"}

# equivalent spellings of "upload is true" on the documented bool domain
UPLOAD_TRUE = {"upload", "bool(upload)", "upload is True", "upload == True", "upload is not False", "upload != False"}
UPLOAD_FALSE = {"upload is False", "upload == False", "upload is not True", "upload != True"}


def _stmt_calls(stmt):
    """calls evaluated by a simple statement or by the *test/header* of a compound one"""
    if isinstance(stmt, (ast.If, ast.While)):
        roots = [stmt.test]
    elif isinstance(stmt, ast.For):
        roots = [stmt.iter]
    elif isinstance(stmt, (ast.With,)):
        roots = [i.context_expr for i in stmt.items]
    elif isinstance(stmt, (ast.Try, ast.FunctionDef, ast.ClassDef)):
        roots = []
    else:
        roots = [stmt]
    out = []
    for r_ in roots:
        for n in walk_local(r_):
            if isinstance(n, ast.Call):
                out.append(n)
    out.sort(key=lambda c: (c.end_lineno, c.end_col_offset))  # inner calls finish first
    return out


class Order(PathFacts):
    def __init__(self, on_call):
        self.on_call = on_call

    def fact_names(self, fact):
        return {"upload"} if fact in ("upload", "!upload") else set()

    def contradicts(self, alt):
        return "upload" in alt and "!upload" in alt

    def cond_facts(self, test, truth):
        out = set()
        for atom, t in split_and(test, truth):
            s = norm(atom)
            if s in UPLOAD_TRUE:
                out.add("upload" if t else "!upload")
            elif s in UPLOAD_FALSE:
                out.add("!upload" if t else "upload")
        return out

    def visit(self, stmt, state):
        seen = set()
        for c in _stmt_calls(stmt):
            self.on_call(c, state, frozenset(seen))
            n = call_name(c) or (c.func.attr if isinstance(c.func, ast.Attribute) else None)
            if n:
                seen.add("called:" + n.split(".")[-1])

    def gen(self, stmt, alt):
        return {"called:" + (call_name(c) or getattr(c.func, "attr", "?")).split(".")[-1] for c in _stmt_calls(stmt)}

    def assume(self, test, state, truth):
        # calls in the test have happened on both branches
        g = frozenset("called:" + (call_name(c) or getattr(c.func, "attr", "?")).split(".")[-1] for c in walk_local(test) if isinstance(c, ast.Call))
        st = frozenset(alt | g for alt in state) if g else state
        return super().assume(test, st, truth)


def rule_params_unchanged(cx, rid, mi):
    """target(): the caller's port/platform/board are what is validated and written - none of them is re-bound"""
    tgt = mi.func("target")
    r = cx.rule(rid, "target() never re-binds port, platform or board: the pair that is validated and the values written to platformio.ini are the caller's own (no inference of one from the other, no normalisation)", floor=3)
    for p_ in ("port", "platform", "board"):
        stores = [n for n in walk_local(tgt) if isinstance(n, ast.Name) and n.id == p_ and isinstance(n.ctx, (ast.Store, ast.Del))]
        r.check(not stores, f"target/parameter[{p_}]-rebound", (mi, stores[0] if stores else tgt), f"target() assigns to its parameter `{p_}`: a platform/board pair the caller gave can then pass validation (or be written) as a different pair", sample=f"target: {p_} not re-bound")
    return r


def run(cx):
    mi, mp = mod(INIT), mod(PIO)
    cx.consulted(mi)
    cx.consulted(mp)
    cx.explanation = (
        "path-sensitive must-analysis of target() (every path, facts = calls already made + branch on upload), "
        "def-use resolution of the values passed between its steps, shape of compile_upload/ensure_pio, and the "
        "project-file rules shared with C13; decides ordering/flow clauses, not what PlatformIO does"
    )
    tgt = mi.func("target")
    loc = Locals(tgt)
    params = [a.arg for a in tgt.args.args + tgt.args.kwonlyargs]
    for need in ("port", "upload", "platform", "board"):
        if need not in params:
            raise AnalysisError(f"target() lost parameter {need}")

    rule_target_eval(cx, mi)

    # ---- C12-TOOLS ---------------------------------------------------------------------------
    r = cx.rule("C12-TOOLS", "compile_upload, evaluated against a scripted tool over success / failure / death-by-signal statuses of either step: runs `pio run` then `pio run -t upload` in the project dir, exactly once each; a failed build raises and never reaches the upload, a failed upload raises; ensure_pio converts any failure into RuntimeError", floor=8)
    cu = mp.func("compile_upload")
    is_run = lambda c: call_name(c) in ("subprocess.run", "subprocess.check_call")
    # compile_upload evaluated by the checker's interpreter against a scripted tool: every process start goes to a recorder
    # that answers with a chosen exit status (check=True / check_call semantics modelled: non-zero raises CalledProcessError),
    # so helpers, wrappers and explicit return-code tests are all followed.  Statuses cover success, ordinary failures and
    # death by signal (negative).
    from .. import dl
    other_tools = [c for q_, f_ in mp.funcs.items() if q_ == "compile_upload" or q_.startswith("_") for c in calls_in(f_) if (call_name(c) or "") in EFFECT_CALLS and not is_run(c) and q_ not in ("ensure_pio",)]
    other_tools = [c for c in other_tools if mp.enclosing_func(c) is cu or any(isinstance(x, ast.Call) and call_name(x) == mp.enclosing_func(c).name for x in ast.walk(cu))]
    r.check(not other_tools, "compile_upload/no-other-process", (mp, cu), "compile_upload starts a process other than its two pio runs")
    want = [["pio", "run"], ["pio", "run", "-t", "upload"]]

    class _Done(dl.Synth):
        __dl_native__ = True      # a recorder object of the checker: CompletedProcess with its one behavioural method

        def check_returncode(self):
            if self.returncode != 0:
                raise dl.Raised("CalledProcessError", f"exit {self.returncode}", attrs={"returncode": self.returncode, "cmd": getattr(self, "args", None), "output": None, "stdout": None, "stderr": None})

    class _SysStub(dl.Synth):
        stderr = None
        stdout = None

    def scripted(statuses):
        log = []

        def run(cmd, *a_, **kw_):
            i_ = len(log)
            rc = statuses[i_] if i_ < len(statuses) else statuses[-1]      # a failing step keeps failing however often it is retried
            log.append((list(cmd) if isinstance(cmd, (list, tuple)) else cmd, kw_.get("cwd"), rc))
            if kw_.get("check") and rc != 0:
                raise dl.Raised("CalledProcessError", f"exit {rc}", attrs={"returncode": rc, "cmd": cmd, "output": None, "stdout": None, "stderr": None})
            d_ = _Done()
            d_.returncode, d_.stdout, d_.stderr, d_.args = rc, "", "", cmd
            return d_

        def check_call(cmd, *a_, **kw_):
            kw_["check"] = True
            run(cmd, *a_, **kw_)
            return 0
        return log, {"subprocess.run": run, "subprocess.check_call": check_call, "subprocess.call": lambda cmd, *a_, **kw_: run(cmd, *a_, **kw_).returncode,
                     "subprocess.CalledProcessError": lambda *a_, **k_: dl.Raised("CalledProcessError", ""), "Path": lambda p_: p_, "print": lambda *a_, **k_: None, "str": str}

    class _Sub(dl.Synth):
        DEVNULL, PIPE, STDOUT = -3, -1, -2

    def _sub_for(opq_):
        """the subprocess module as a value: `run = subprocess.run` must reach the same scripted tool as a direct call"""
        sub_ = _Sub()
        for k_, v_ in opq_.items():
            if k_.startswith("subprocess."):
                setattr(sub_, k_.split(".", 1)[1], v_)
        return sub_

    fails = (1, 2, 255, -9, -2)
    scen = [(0, 0)] + [(f_,) for f_ in fails] + [(0, f_) for f_ in fails] + [(f_, 0, 0) for f_ in fails]
    for st in scen:
        log, opq = scripted(st)
        try:
            out = dl.Interp(mp, opaque=opq, extra_env={"sys": _SysStub(), "subprocess": _sub_for(opq)}).call(cu, ["/proj/dir"])
        except dl.Unsupported as e:
            raise AnalysisError(f"compile_upload left the evaluable subset: {e}")
        tag = "ok" if st == (0, 0) else f"{'build' if len(st) in (1, 3) else 'upload'}-exit[{st[-1] if len(st) != 3 else st[0]}]"
        argvs = [l_[0] for l_ in log]
        if st == (0, 0):
            r.check(out.kind == "return" and argvs == want, "compile_upload/exactly-two-runs-per-path", (mp, cu), f"with both steps succeeding compile_upload -> {out!r} after running {argvs}; expected exactly {want}")
            for i_, l_ in enumerate(log[:2]):
                r.check(l_[0] == want[i_], f"compile_upload/argv[{i_}]", (mp, cu), f"tool invocation #{i_ + 1} is {l_[0]!r}, expected {want[i_]!r}")
                r.check(l_[1] == "/proj/dir", f"compile_upload/cwd[{i_}]", (mp, cu), f"pio step #{i_ + 1} runs with cwd={l_[1]!r}: it must run in the project directory")
        elif len(st) == 3:
            r.check(out.kind == "raise" and len(log) == 1, f"compile_upload/failed-build-stops-although-upload-would-succeed[{st[0]}]", (mp, cu), f"the build step ends with status {st[0]} and every later step would succeed: compile_upload -> {out!r} after running {argvs}; a failed build must raise and never reach the upload step")
        elif len(st) == 1:
            r.check(out.kind == "raise" and len(log) == 1, f"compile_upload/failed-build-stops[{st[0]}]", (mp, cu), f"the build step ends with status {st[0]}: compile_upload -> {out!r} after running {argvs}; a failed build must raise and never reach the upload step")
        else:
            r.check(out.kind == "raise" and argvs[:2] == want and all(a_ == want[1] for a_ in argvs[2:]), f"compile_upload/failed-upload-raises[{st[1]}]", (mp, cu), f"the upload step ends with status {st[1]}: compile_upload -> {out!r}; a tool failure must propagate")
    ep = mp.func("ensure_pio")
    # ensure_pio against the same scripted tool: it probes on every call, a probe that exits 0 lets it return, every other
    # outcome - non-zero exit, death by signal, the executable missing or not executable - surfaces as RuntimeError

    for label, statuses, exc in (("present", (0,), None), ("exit-1", (1,), None), ("exit-127", (127,), None), ("killed", (-9,), None), ("missing", (0,), "FileNotFoundError"), ("not-executable", (0,), "PermissionError")):
        for ncalls in (1, 2):
            log, opq = scripted(statuses)
            if exc:
                def boom(cmd, *a_, _log=log, _exc=exc, **kw_):
                    _log.append((list(cmd) if isinstance(cmd, (list, tuple)) else cmd, kw_.get("cwd"), None))
                    raise dl.Raised(_exc, "pio")
                opq["subprocess.run"] = boom
                opq["subprocess.check_call"] = boom
                opq["subprocess.call"] = boom
            outs = []
            mstate = {}      # what the module keeps between the calls of this history
            try:
                for _i in range(ncalls):
                    outs.append(dl.Interp(mp, opaque=opq, extra_env={"sys": _SysStub(), "subprocess": _sub_for(opq)}, module_state=mstate).call(ep, []))
            except dl.Unsupported as e:
                raise AnalysisError(f"ensure_pio left the evaluable subset: {e}")
            healthy = exc is None and statuses == (0,)
            ok = len(log) == ncalls and all((l_[0] or [None])[0] == "pio" for l_ in log) and all((o_.kind == "return") if healthy else (o_.kind == "raise" and o_.value == "RuntimeError") for o_ in outs)
            r.check(ok, f"ensure_pio/{'probes-on-every-call' if healthy else 'failure->RuntimeError'}[{label}]", (mp, ep), f"PlatformIO {label}, ensure_pio() called {ncalls} time(s): outcomes {[repr(o_) for o_ in outs]}, tool invocations {[l_[0] for l_ in log]}; expected {'a normal return' if healthy else 'RuntimeError'} each time after one `pio ...` probe per call")

    # ---- project configuration (shared with C13) --------------------------------------------
    plats = lit.table(mp, "SUPPORTED_PLATFORMS")
    all_boards = sorted(set().union(*plats.values()))
    c13.rule_validate(cx, mp, "C12-VALIDATE")
    c14.rule_agree(cx, "C12-LIBS", libs_only=True)
    c13.rule_write(cx, mp, "C12-PROJECT")
    c13.rule_project_eval(cx, mp, "C12-PROJECT-EVAL")
    c13.rule_libs(cx, mp, "C12-INI-LIBS")
    c13.rule_ini(cx, mp, "C12-INI", all_boards)



def rule_target_eval(cx, mi):
    """target() evaluated (checker's interpreter) against scripted collaborators: the validator, the PlatformIO probe, the
    script file, parse/emit, mkdtemp, write_project and compile_upload are recorders that can be told to fail; every
    combination of upload x valid/invalid pair x probe ok/missing x script ok/rejected x project ok/failing x build ok/failing
    is run and the log of calls, the return value and the exception are compared with what the property states.  Helpers
    that target() is split into are followed like any other code."""
    import itertools
    from .. import dl, pe
    cls, _f = pe.ir_classes()
    r = cx.rule("C12-ORDER", "target() against scripted collaborators, all fault combinations: an unsupported pair is refused (ValueError) before anything else is called; the PlatformIO probe runs iff upload, before the script is read; a missing PlatformIO (RuntimeError) stops before anything is read or written; compile_upload runs iff upload, after the project was written; every collaborator failure propagates", floor=40, exhaustive=True)
    rf = cx.rule("C12-FLOW", "on every successful run: the text read from __main__'s file is what is parsed, the parsed program is what is emitted and searched for libraries, the emitted text is written and returned, write_project receives the temp directory, the caller's port/platform/board and exactly the required libraries, compile_upload receives the same directory; nothing else touches the file system or starts a process", floor=8)
    tgt = mi.func("target")

    class _Sys(dl.Synth):
        stderr = None
        stdout = None

    class _Main(dl.Synth):
        pass

    class _Path(dl.Synth):
        __dl_native__ = True

        def __init__(self, log, path, text=None, fail=False):
            self._log, self.path, self._text, self._fail = log, path, text, fail

        def read_text(self, *a_, **k_):
            self._log.append(("read_text", (self.path,), (("encoding", k_.get("encoding", a_[0] if a_ else None)),)))
            if self._fail:
                raise dl.Raised("FileNotFoundError", self.path)
            return self._text

        def __truediv__(self, other):
            return _Path(self._log, f"{self.path}/{other}")

    PROG = cls["Program"](setup_body=[cls["ServoDecl"](name="sv", pin=9), cls["LCDDecl"](name="l0", cols=16, rows=2, interface="i2c", i2c_addr=39)], loop_body=[], target_port="PORT_AS_SPELLED_IN_THE_SOURCE", global_decls=[], helpers=set(), functions=[], ultrasonic_measurements=set())
    # (the parser records how the script spells its target() argument - a variable name, an escaped literal; the run-time value
    # the caller passed is the port)
    SRC, CPP = "led = Led(13)  # the script text", "// emitted firmware text"
    n_bad = 0
    for upload, bad_pair, pio_missing, parse_fails, write_fails, build_fails in itertools.product((True, False), repeat=6):
        log = []

        def rec(name, fail=None, ret=None):
            def f_(*a_, **k_):
                log.append((name, a_, tuple(sorted(k_.items()))))
                if fail:
                    raise dl.Raised(fail, name)
                return ret
            return f_

        main = _Main()
        main.__file__ = "/work/sketch.py"
        sysm = _Sys()
        sysm.modules = {"__main__": main}
        opq = {
            "validate_platform_board": rec("validate", "ValueError" if bad_pair else None),
            "ensure_pio": rec("ensure_pio", "RuntimeError" if pio_missing else None),
            "pathlib.Path": lambda p_: p_ if isinstance(p_, _Path) else _Path(log, str(p_), SRC),
            "Path": lambda p_: p_ if isinstance(p_, _Path) else _Path(log, str(p_), SRC),
            "parse": rec("parse", "ValueError" if parse_fails else None, PROG),
            "emit": rec("emit", None, CPP),
            "tempfile.mkdtemp": rec("mkdtemp", None, "/tmp/reduino-pio-XYZ"),
            "write_project": rec("write_project", "OSError" if write_fails else None),
            "compile_upload": rec("compile_upload", "CalledProcessError" if build_fails else None),
            "print": lambda *a_, **k_: None,
        }
        try:
            out = dl.Interp(mi, opaque=opq, extra_env={**pe.ir_env(), "sys": sysm}).call(tgt, ["/dev/ttyUSB7"], {"upload": upload, "platform": "atmelmegaavr", "board": "nano_every"})
        except dl.Unsupported as e:
            raise AnalysisError(f"target() left the evaluable subset: {e}")
        names = [e_[0] for e_ in log]
        scen = f"upload={upload}, pair {'unsupported' if bad_pair else 'valid'}, PlatformIO {'missing' if pio_missing else 'present'}, script {'rejected' if parse_fails else 'ok'}, write_project {'fails' if write_fails else 'ok'}, build {'fails' if build_fails else 'ok'}"
        # expected
        if bad_pair:
            want_names, want_exc = ["validate"], "ValueError"
        elif upload and pio_missing:
            want_names, want_exc = ["validate", "ensure_pio"], "RuntimeError"
        else:
            want_names = ["validate"] + (["ensure_pio"] if upload else []) + ["read_text", "parse"]
            want_exc = None
            if parse_fails:
                want_exc = "ValueError"
            else:
                want_names += ["emit", "mkdtemp", "write_project"]
                if write_fails:
                    want_exc = "OSError"
                else:
                    if upload:
                        want_names.append("compile_upload")
                        if build_fails:
                            want_exc = "CalledProcessError"
        # emit and the library search may come in either order; mkdtemp may precede emit: compare as constrained order
        def ordered(seq, a_, b_):
            return a_ not in seq or b_ not in seq or seq.index(a_) < seq.index(b_)
        same_calls = sorted(names) == sorted(want_names)
        order_ok = names[:1] == ["validate"] and all(ordered(names, a_, b_) for a_, b_ in (("validate", "ensure_pio"), ("ensure_pio", "read_text"), ("read_text", "parse"), ("parse", "emit"), ("emit", "write_project"), ("mkdtemp", "write_project"), ("write_project", "compile_upload")))
        exc_ok = (out.kind == "raise" and out.value == want_exc) if want_exc else out.kind == "return"
        if same_calls and order_ok and exc_ok:
            r.ok(None)
        else:
            n_bad += 1
            if n_bad <= 4:
                tag = "pair-refused-first" if bad_pair else "probe-iff-upload-before-anything" if (upload and pio_missing) or ("ensure_pio" in names) != upload else "upload-iff-requested" if ("compile_upload" in names) != ("compile_upload" in want_names) else "failure-propagates" if not exc_ok else "call-order"
                r.fail(f"target/{tag}", (mi, tgt), f"{scen}: target() -> {out.kind}{':' + str(out.value) if out.kind == 'raise' else ''} after calling {names}; expected {want_names} and {'exception ' + want_exc if want_exc else 'a normal return'}", detail={"scenario": scen})
            else:
                r.stat.obligations += 1
                r.stat.failed += 1
        if not want_exc and out.kind == "return" and same_calls:
            ev = {e_[0]: e_ for e_ in log}
            kw = dict(ev["write_project"][2])
            wargs = list(ev["write_project"][1])
            tmpdir = wargs[0] if wargs else kw.get("project_dir")
            cppw = wargs[1] if len(wargs) > 1 else kw.get("cpp_code")
            portw = wargs[2] if len(wargs) > 2 else kw.get("port")
            libs = kw.get("lib_deps")
            flow = {
                "validated-pair=caller's": list(ev["validate"][1]) + [v_ for _k, v_ in ev["validate"][2]] == ["atmelmegaavr", "nano_every"] or dict(ev["validate"][2]) == {"platform": "atmelmegaavr", "board": "nano_every"},
                "script-file-of-__main__": ev["read_text"][1] == ("/work/sketch.py",) and dict(ev["read_text"][2]).get("encoding") in ("utf-8", "utf8", "UTF-8"),
                "parsed=text-read": list(ev["parse"][1]) == [SRC],
                "emitted=parsed-program": len(ev["emit"][1]) == 1 and ev["emit"][1][0] is PROG,
                "returned=emitted": out.value == CPP,
                "written=emitted": cppw == CPP,
                "project-dir=mkdtemp": (getattr(tmpdir, "path", tmpdir) == "/tmp/reduino-pio-XYZ"),
                "port/platform/board=caller's": portw == "/dev/ttyUSB7" and kw.get("platform") == "atmelmegaavr" and kw.get("board") == "nano_every",
                "libraries=required": list(libs or []) == ["Servo", "LiquidCrystal_I2C"],
                "upload-dir=project-dir": (not upload) or getattr(ev["compile_upload"][1][0], "path", ev["compile_upload"][1][0]) == "/tmp/reduino-pio-XYZ",
            }
            for k_, ok_ in flow.items():
                rf.check(ok_, f"target/{k_}", (mi, tgt), f"{scen}: {k_} does not hold (calls: {[(e_[0], [getattr(a_, 'path', a_) if not hasattr(a_, 'setup_body') else '<program>' for a_ in e_[1]], dict(e_[2])) for e_ in log if e_[0] in ('validate', 'write_project', 'compile_upload', 'read_text')]}, returned {str(out.value)[:40]!r})")
    return r

"""C04 - actuator commands: firmware drives pins exactly as the host simulation predicts (clause level)."""
from __future__ import annotations

import ast
import re

from .. import cabs, cxx, dl, l2, lit, pe
from ..cabs import Exec, State, lname
from ..core import AnalysisError
from ..cxx import show, sub_exprs
from ..num import INF, Iv, try_const
from ..src import mod, norm

PARSER = "transpile/parser.py"
EMITTER = "transpile/emitter.py"

INVARIANTS = {
    "__brightness_dev": Iv(0, 255),
    "__rgb_red_dev": Iv(0, 255), "__rgb_green_dev": Iv(0, 255), "__rgb_blue_dev": Iv(0, 255),
    "__dc_speed_dev": Iv(-1, 1),
}
LED_PIN, RGB_PINS, MOTOR_PINS = "7", ("3", "5", "6"), ("2", "4", "9")


def strip_num(e):
    """x, (T)x, x + 0.5f  ->  x   (rounding/casting of a value keeps its clamp)"""
    while True:
        if e[0] == "cast":
            e = e[2]
        elif e[0] == "bin" and e[1] == "+" and e[3][0] == "lit" and isinstance(e[3][1], float) and abs(e[3][1]) <= 0.5:
            e = e[2]
        else:
            return e


class ArmRun:
    """abstract run of setup() for one fabricated program; collects obligations"""

    def __init__(self, label, kind):
        self.label = label
        self.kind = kind
        self.viol = []     # (key, message)
        self.oblig = 0
        self.writes = 0

    def fail(self, key, msg):
        if (key, msg) not in self.viol:
            self.viol.append((key, msg))

    # hooks ----------------------------------------------------------------------------------
    def on_assign(self, name, e, iv, st):
        if name in INVARIANTS:
            self.oblig += 1
            inv = INVARIANTS[name]
            if not iv.within(inv.lo, inv.hi):
                self.fail(f"{self.kind}/shadow[{name}]-stored-unclamped", f"`{name} = {show(e)}` stores a value in {iv}; the state query backed by {name} must stay within [{inv.lo}, {inv.hi}]")
        if name == "__dc_mode_dev" and e is not None:
            lits = [s[1] for s in sub_exprs(e) if s[0] == "lit" and isinstance(s[1], str)]
            st.flags["@mode"] = lits[0].strip('"') if lits else "?"

    def on_call(self, e, st, ex):
        if e[0] == "call" and e[1] == "analogWrite" and len(e[2]) == 2:
            self.oblig += 1
            self.writes += 1
            iv = ex.ev(e[2][1], st)
            pin = show(e[2][0])
            if not iv.within(0, 255):
                self.fail(f"{self.kind}/analogWrite({pin})-unclamped", f"`{show(e)}` can write a duty in {iv}: values outside 0..255 reach the pin unclamped")
            ex.assign("@pin:" + pin, e[2][1], st)
        elif e[0] == "call" and e[1] == "digitalWrite" and len(e[2]) == 2:
            self.oblig += 1
            self.writes += 1
            iv = ex.ev(e[2][1], st)
            pin = show(e[2][0])
            if not iv.within(0, 1):
                self.fail(f"{self.kind}/digitalWrite({pin})-level", f"`{show(e)}` level in {iv}")
            lvl = ("lit", 255) if iv.lo == iv.hi == 1 else ("lit", 0) if iv.lo == iv.hi == 0 else None
            if lvl is not None:
                ex.assign("@pin:" + pin, lvl, st)
            else:
                st.v["@pin:" + pin] = Iv(0, 255)
            st.v["@dig:" + pin] = iv
        elif e[0] == "mcall" and e[2] in ("write", "writeMicroseconds") and show(e[1]) == "__servo_dev":
            self.oblig += 1
            self.writes += 1
            base = strip_num(e[3][0])
            n = lname(base)
            lo_v, hi_v = ("__servo_min_angle_dev", "__servo_max_angle_dev") if e[2] == "write" else ("__servo_min_pulse_dev", "__servo_max_pulse_dev")
            if n is None:
                # a literal (initial position) is fine
                if base[0] != "lit" and not (base[0] == "var" and str(base[1]).startswith("H_")):
                    self.fail(f"{self.kind}/servo.{e[2]}-argument", f"`{show(e)}`: argument is not a clamped variable")
                elif base[0] == "var":
                    self.fail(f"{self.kind}/servo.{e[2]}-unclamped", f"`{show(e)}` passes a user value straight to the servo")
            else:
                ok = lo_v in st.lo.get(n, ()) and hi_v in st.hi.get(n, ())
                if not ok:
                    self.fail(f"{self.kind}/servo.{e[2]}-unclamped", f"`{show(e)}`: {n} is not proven to lie between {lo_v} and {hi_v} on this path (known: >= {sorted(st.lo.get(n, ()))}, <= {sorted(st.hi.get(n, ()))})")
                shadow = "__servo_angle_dev" if e[2] == "write" else "__servo_pulse_dev"
                same = n == shadow or (shadow in st.lo.get(n, ()) and shadow in st.hi.get(n, ())) or (n in st.lo.get(shadow, ()) and n in st.hi.get(shadow, ()))
                if not same:
                    self.fail(f"{self.kind}/servo.{e[2]}-shadow", f"`{show(e)}`: the value sent to the servo is not the value stored in {shadow} (read()/read_us() would report something else)")
        elif e[0] == "call" and e[1] == "delay":
            self.consistency(st, ex, "at delay()")

    # shadow consistency ---------------------------------------------------------------------
    def eq(self, a, b, st):
        ia, ib = st.v.get(a), st.v.get(b)
        if ia is None or ib is None:
            return None
        if ia.lo == ia.hi == ib.lo == ib.hi:
            return True
        if (b in st.lo.get(a, ()) and b in st.hi.get(a, ())) or (a in st.lo.get(b, ()) and a in st.hi.get(b, ())):
            return True
        if ia.hi < ib.lo or ib.hi < ia.lo:
            return False
        return None

    def consistency(self, st, ex, where):
        if self.kind.startswith("Led"):
            p = "@pin:" + LED_PIN
            if p in st.v:
                self.oblig += 1
                r_ = self.eq(p, "__brightness_dev", st)
                if r_ is not True:
                    self.fail(f"{self.kind}/pin-level=get_brightness", f"{where}: the level on the LED pin ({st.v[p]}) is not known to equal __brightness_dev ({st.v.get('__brightness_dev')}): get_brightness() would disagree with the pin")
                b = st.v.get("__brightness_dev", Iv())
                fl = st.flags.get("__state_dev", "?")
                want = True if (b.lo > 0 or (b.lo == 0 and b.lo_s)) else False if b.hi == 0 and b.lo == 0 else None
                if want is not None and fl != want:
                    self.fail(f"{self.kind}/get_state=(brightness>0)", f"{where}: __state_dev is {fl} while __brightness_dev is in {b}")
        if self.kind.startswith("RGBLed"):
            for pin, var in zip(RGB_PINS, ("__rgb_red_dev", "__rgb_green_dev", "__rgb_blue_dev")):
                p = "@pin:" + pin
                if p in st.v:
                    self.oblig += 1
                    if self.eq(p, var, st) is not True:
                        self.fail(f"{self.kind}/pin-level=colour-shadow[{var}]", f"{where}: the duty on pin {pin} ({st.v[p]}) is not known to equal {var} ({st.v.get(var)})")
        if self.kind.startswith("DCMotor"):
            a, b, en = ("@dig:" + MOTOR_PINS[0], "@dig:" + MOTOR_PINS[1], "@pin:" + MOTOR_PINS[2])
            if a in st.v and b in st.v and where == "at end":
                self.oblig += 1
                ia, ib = st.v[a], st.v[b]
                mode = st.flags.get("@mode", None)
                if ia.lo == ia.hi and ib.lo == ib.hi and mode is not None:
                    pair = (int(ia.lo), int(ib.lo))
                    want = {(0, 0): "coast", (1, 1): "brake", (1, 0): "drive", (0, 1): "drive"}[pair]
                    if mode != want:
                        self.fail(f"{self.kind}/mode-matches-bridge-pins", f"direction pins end at {pair} but get_mode() would report {mode!r} (expected {want!r})")
                    if want in ("coast", "brake") and en in st.v and not (st.v[en].lo == st.v[en].hi == 0):
                        self.fail(f"{self.kind}/pwm-zero-when-stopped", f"motor {want}s with PWM duty {st.v[en]}")


def fade_override(body, rule, em):
    """RGBLedFade interpolates start + ((target-start)*i +- steps/2)/steps for i in 1..steps: a convex combination of two
    values in 0..255 (frozen exception of the interval analysis).  The formula's shape is checked here, then the
    interpolated channel is given the hull of start and target."""
    ok = True
    for ch in ("red", "green", "blue"):
        d = [st for st in cxx.all_stmts(body) if st["k"] == "decl" and st["name"] == f"__redu_{ch}" and st["init"] is not None and "__redu_num" in show(st["init"])]
        n = [st for st in cxx.all_stmts(body) if st["k"] == "decl" and st["name"] == f"__redu_num_{ch}"]
        shape = len(d) == 1 and show(d[0]["init"]) == f"(__redu_start_{ch} + (int)(__redu_num_{ch} / __redu_steps))" and len(n) == 1 and show(n[0]["init"]) == f"((long)(__redu_target_{ch} - __redu_start_{ch}) * __redu_i)"
        ok = ok and shape
    rule.check(ok, "RGBLedFade/interpolation-is-convex-combination", (em, em.func("_emit_block")), "the fade interpolation is no longer start + ((target-start)*i +- steps/2)/steps: the frozen convex-combination argument does not apply")

    def ov(name, e, st):
        for ch in ("red", "green", "blue"):
            if ok and name == f"__redu_{ch}" and e is not None and "__redu_num" in show(e):
                a, b = st.v.get(f"__redu_start_{ch}"), st.v.get(f"__redu_target_{ch}")
                if a is not None and b is not None:
                    return a.join(b)
        return None

    return ov


def initial_states(kind):
    s = State()
    for k, v in INVARIANTS.items():
        s.v[k] = v
    outs = []
    if kind.startswith("Led"):
        a, b = s.copy(), s.copy()
        a.flags["__state_dev"] = True
        a.v["__brightness_dev"] = Iv(1, 255)
        b.flags["__state_dev"] = False
        b.v["__brightness_dev"] = Iv(0, 0)
        outs = [a, b]
    elif kind.startswith("DCMotor"):
        a, b = s.copy(), s.copy()
        a.flags["__dc_inverted_dev"] = True
        b.flags["__dc_inverted_dev"] = False
        outs = [a, b]
    else:
        outs = [s]
    return outs


def host_object(hm, cname, *args, **kwargs):
    """a stand-in instance of a host class, initialised by the class's own __init__ (evaluated by the checker's interpreter)"""
    T = type(cname + "Obj", (dl.Synth,), {})
    o = T()
    o.__dl_class__ = cname
    init = hm.funcs.get(f"{cname}.__init__")
    if init is not None:
        try:
            out = dl.Interp(hm).call(init, [o] + list(args), dict(kwargs))
        except dl.Unsupported as e:
            raise AnalysisError(f"host {cname}.__init__ left the evaluable subset: {e}")
        if out.kind != "return":
            raise AnalysisError(f"host {cname}.__init__ raises {out.value} for {args} {kwargs}")
    for c_ in hm.classes[cname].body:
        tgt_ = c_.targets[0] if isinstance(c_, ast.Assign) else c_.target if isinstance(c_, ast.AnnAssign) and c_.value is not None else None
        if isinstance(tgt_, ast.Name):
            v_ = try_const(c_.value, hm, hm.classes[cname])
            if v_ is None:
                v_ = lit.try_ev(c_.value, hm)
            if v_ is not None and not hasattr(o, tgt_.id):
                setattr(o, tgt_.id, v_)
    return o


def run(cx):
    em, pm = mod(EMITTER), mod(PARSER)
    cx.consulted(em)
    cx.consulted(pm)
    cx.explanation = (
        "the C++ emitted for every Led/RGBLed/Servo/DCMotor node variant is extracted by partial evaluation, parsed by clang into "
        "a typed AST and abstractly interpreted (intervals, symbolic clamp bounds, path splitting on state flags): every value "
        "reaching analogWrite/Servo.write/writeMicroseconds is proven clamped on every path, every shadow variable behind a state "
        "query is stored clamped and equals the level last written to the pin at every delay() and at the end of the command, "
        "getter expressions of the parser name exactly those shadow variables, motor mode strings match the bridge pins; "
        "numeric equality of host and firmware traces and delay rounding are not decided"
    )
    cls, fields = pe.ir_classes()
    r_clamp = cx.rule("C04-CLAMP", "on every path of every actuator command the value reaching analogWrite lies in 0..255, digitalWrite gets a logic level, Servo.write/writeMicroseconds gets a value clamped between the configured bounds", floor=60)
    r_shadow = cx.rule("C04-SHADOW", "every shadow variable read by a state query is stored clamped, and at every delay() and at the end of a command it equals the level last written to the pin (state == brightness > 0, mode string matches the bridge pins)", floor=60)
    kinds = [c for c in sorted(cls) if l2.device_of(c) in ("Led", "RGBLed", "Servo", "DCMotor")]
    n_prog = 0
    for cname in kinds:
        dev = l2.device_of(cname)
        for kw, node in pe.variants(cname, limit=24):
            decl = l2.decl_node(dev)
            res = pe.emit_program(setup=[decl, node], loop=[])
            if res.raised:
                raise AnalysisError(f"emit() raises {res.raised} for {cname}")
            fns = l2.functions_of(res.text, ["setup"])
            if "setup" not in fns:
                raise AnalysisError(f"setup() not found in the sketch for {cname}")
            n_prog += 1
            body = fns["setup"][0]["body"]
            label = f"{cname}{ {k: v for k, v in kw.items() if k != 'name'} }"
            run_ = ArmRun(label, cname)
            ex = Exec(on_call=None, invariants=INVARIANTS, partition={"__state_dev", "__redu_pwm", "__redu_effective", "__dc_inverted_dev", "__redu_value"}, on_assign=run_.on_assign,
                      leq={("__servo_min_angle_dev", "__servo_max_angle_dev"), ("__servo_min_pulse_dev", "__servo_max_pulse_dev")},
                      override=(fade_override(body, r_clamp, em) if cname == "RGBLedFade" else None))
            ex.on_call = lambda e, st, _ex=ex, _r=run_: _r.on_call(e, st, _ex)
            outs = ex.run(body, initial_states(cname))
            for st in outs["fall"] + outs["ret"]:
                run_.consistency(st, ex, "at end")
            clamp_v = [(k, m) for k, m in run_.viol if "unclamped" in k or k.endswith("-level") or k.endswith("-argument")]
            shadow_v = [(k, m) for k, m in run_.viol if (k, m) not in clamp_v]
            for k, m in clamp_v:
                r_clamp.fail(k, (em, em.func("_emit_block")), f"{label}: {m}")
            for k, m in shadow_v:
                r_shadow.fail(k, (em, em.func("_emit_block")), f"{label}: {m}")
            if not clamp_v:
                r_clamp.ok(f"{label[:60]}: {run_.writes} pin writes clamped", n=max(1, run_.writes))
            if not shadow_v:
                r_shadow.ok(f"{label[:60]}: shadows consistent", n=max(1, run_.oblig - run_.writes))
    cx.extra["programs"] = n_prog

    # ---- C04-MUSTWRITE -----------------------------------------------------------------------
    r = cx.rule("C04-MUSTWRITE", "every path through a non-sequenced actuator command drives the device's pins (the host model always applies the command): no path skips the writes because the tracked state already looks right", floor=60)
    MUST = {
        # confirmed on the pinned tree; the host classes apply these commands unconditionally
        "LedOn": {"digitalWrite(7)"}, "LedOff": {"digitalWrite(7)"}, "LedToggle": {"digitalWrite(7)"}, "LedSetBrightness": {"analogWrite(7)"},
        "LedBlink": {"digitalWrite(7)"}, "LedFadeIn": {"analogWrite(7)"}, "LedFadeOut": {"analogWrite(7)"},
        "RGBLedOn": {"analogWrite(3)", "analogWrite(5)", "analogWrite(6)"}, "RGBLedOff": {"analogWrite(3)", "analogWrite(5)", "analogWrite(6)"},
        "RGBLedSetColor": {"analogWrite(3)", "analogWrite(5)", "analogWrite(6)"}, "RGBLedBlink": {"analogWrite(3)", "analogWrite(5)", "analogWrite(6)"},
        "ServoWrite": {"write"}, "ServoWriteMicroseconds": {"writeMicroseconds"},
    }
    for c_ in ("DCMotorSetSpeed", "DCMotorBackward", "DCMotorStop", "DCMotorCoast", "DCMotorInvert", "DCMotorRunFor"):
        MUST[c_] = {"digitalWrite(2)", "digitalWrite(4)", "analogWrite(9)"}
    for cname in kinds:
        if cname not in MUST:
            continue
        dev = l2.device_of(cname)
        b0 = l2.functions_of(pe.emit_program(setup=[l2.decl_node(dev)], loop=[]).text, ["setup"])["setup"][0]["body"]
        for kw, node in pe.variants(cname, limit=24):
            res = pe.emit_program(setup=[l2.decl_node(dev), node], loop=[])
            body = l2.functions_of(res.text, ["setup"])["setup"][0]["body"][len(b0):]
            mc = cxx.must_calls(body)
            mc |= {c.split("(")[0] for c in mc}
            missing = sorted(MUST[cname] - mc)
            label = f"{cname}{ {k: v for k, v in kw.items() if k != 'name'} }"
            r.check(not missing, f"{cname}/pins-driven-on-every-path[{','.join(missing)}]", (em, em.func("_emit_block")), f"{label}: some path through the command does not perform {missing} - the pins keep whatever an earlier command (stop, run_for, ...) left there while the host model applies the command", sample=label[:60])

    # ---- C04-BIND (shared with C08): the IR carries what the call supplied ------------------------
    from . import c08
    c08.bind_rule(cx, "C04-BIND", "C04-MAP", only=("Led", "RGBLed", "Servo", "DCMotor"), floor=100)
    c08.rule_field_flow(cx, "C04-FIELDS", devices=("Led", "RGBLed", "Servo", "DCMotor"))

    # ---- C04-GETTER --------------------------------------------------------------------------
    r = cx.rule("C04-GETTER", "each state-query expression produced by the parser names exactly the shadow variable the emitter maintains for that device, with a compatible C++ type", floor=10)
    tce = pm.func("_to_c_expr")
    GET = [
        ("Led", "get_state", "led_names", "__state_dev", "bool"), ("Led", "get_brightness", "led_names", "__brightness_dev", "int"),
        ("Servo", "read", "servo_names", "__servo_angle_dev", "float"), ("Servo", "read_us", "servo_names", "__servo_pulse_dev", "float"),
        ("DCMotor", "get_speed", "dc_motor_names", "__dc_speed_dev", "float"), ("DCMotor", "get_mode", "dc_motor_names", "__dc_mode_dev", "String"),
        ("DCMotor", "is_inverted", "dc_motor_names", "(__dc_inverted_dev ? 1 : 0)", "int"),
        ("DCMotor", "get_applied_speed", "dc_motor_names", "(__dc_inverted_dev ? -__dc_speed_dev : __dc_speed_dev)", "float"),
    ]
    sketches = {}
    for dev, meth, setname, want, ctype in GET:
        out = dl.Interp(pm, opaque={"ast.parse": ast.parse}).call(tce, [f"dev.{meth}()", {}, {setname: {"dev"}}])
        got = out.value if out.kind == "return" else None
        r.check(got == want, f"{dev}.{meth}/expression", (pm, tce), f"dev.{meth}() is translated to `{got}`; the emitter maintains `{want}`")
        if dev not in sketches:
            sketches[dev] = pe.emit_program(setup=[l2.decl_node(dev)], loop=[]).text
        g = l2.global_decls(sketches[dev])
        for ident in re.findall(r"__[a-z_]+_dev", want):
            r.check(ident in g, f"{dev}.{meth}/declared[{ident}]", (em, em.func("emit")), f"{ident} is not declared as a global for a {dev}")
        tu = cxx.with_prelude(sketches[dev]) + f"\n{ctype} probe_{meth}() {{ return {got}; }}\n"
        errs = cxx.typecheck(tu)
        r.check(not errs, f"{dev}.{meth}/type[{ctype}]", (pm, tce), f"`{got}` does not type-check as {ctype}: {errs[:1]}")

    # ---- C04-CONST ---------------------------------------------------------------------------
    r = cx.rule("C04-CONST", "constants shared by host model and firmware agree: ramp step count, PWM full scale 255, brake = both inputs HIGH and PWM 0, coast = both LOW, a declared motor starts coasting with PWM 0", floor=6)
    hm = mod("Actuators/DCMotor.py")
    cx.consulted(hm)
    host_steps = try_const(ast.Attribute(value=ast.Name(id="self", ctx=ast.Load()), attr="_RAMP_STEPS", ctx=ast.Load()), hm, hm.cls("DCMotor"))
    res = pe.emit_program(setup=[l2.decl_node("DCMotor"), cls["DCMotorRamp"](name="dev", target_speed="H_t", duration_ms="H_d")], loop=[])
    body = l2.functions_of(res.text, ["setup"])["setup"][0]["body"]
    steps = [st for st in cxx.all_stmts(body) if st["k"] == "decl" and st["name"] == "__redu_steps"]
    r.check(len(steps) == 1 and steps[0]["init"] == ("lit", host_steps), "DCMotor.ramp/steps=host._RAMP_STEPS", (em, em.func("_emit_block")), f"firmware ramps in {show(steps[0]['init']) if steps else '?'} steps, host in {host_steps}")
    loops = [st for st in cxx.all_stmts(body) if st["k"] == "for"]
    okl = any(show(l_["cond"]) in ("(__redu_i <= __redu_steps)",) and l_["init"] and l_["init"][0].get("init") == ("lit", 1) for l_ in loops)
    r.check(okl, "DCMotor.ramp/loop-1..steps", (em, em.func("_emit_block")), "ramp loop must run i = 1..steps inclusive (ending exactly on the target)")
    scale = [s for st in cxx.all_stmts(body) for e in cxx.stmt_exprs(st) for s in sub_exprs(e) if s[0] == "bin" and s[1] == "*" and lname(s[2]) == "__redu_abs"]
    r.check(bool(scale) and all(s[3] == ("lit", 255.0) for s in scale), "DCMotor/pwm-scale-255", (em, em.func("_emit_block")), f"PWM scale factor: {[show(s) for s in scale][:2]}")
    for cname, pins, mode in (("DCMotorStop", (1, 1), "brake"), ("DCMotorCoast", (0, 0), "coast")):
        res = pe.emit_program(setup=[l2.decl_node("DCMotor"), cls[cname](name="dev")], loop=[])
        body = l2.functions_of(res.text, ["setup"])["setup"][0]["body"]
        calls = [show(c) for c in cxx.all_calls(body)][-3:]
        want = [f"digitalWrite({MOTOR_PINS[0]}, {pins[0]})", f"digitalWrite({MOTOR_PINS[1]}, {pins[1]})", f"analogWrite({MOTOR_PINS[2]}, 0)"]
        r.check(calls == want, f"{cname}/pins", (em, em.func("_emit_block")), f"{cname} ends with {calls}, expected {want}")
        r.check(f'__dc_mode_dev = F("{mode}")' in res.text, f"{cname}/mode", (em, em.func("_emit_block")), f"{cname} must report mode {mode}")
    res = pe.emit_program(setup=[l2.decl_node("DCMotor")], loop=[])
    body = l2.functions_of(res.text, ["setup"])["setup"][0]["body"]
    calls = [show(c) for c in cxx.all_calls(body)]
    r.check(calls[-3:] == [f"digitalWrite({MOTOR_PINS[0]}, 0)", f"digitalWrite({MOTOR_PINS[1]}, 0)", f"analogWrite({MOTOR_PINS[2]}, 0)"], "DCMotorDecl/safe-stop", (em, em.func("emit")), f"a declared motor is configured with {calls}")
    g = l2.global_decls(res.text)
    r.check(g.get("__dc_mode_dev", ("", ""))[1] == '"coast"' and g.get("__dc_speed_dev", ("", ""))[1] in ("0.0f", "0.0", "0"), "DCMotorDecl/initial-shadow", (em, em.func("emit")), f"initial motor shadow: {g.get('__dc_mode_dev')}, {g.get('__dc_speed_dev')}")

    # ---- C04-SERVOMAP ------------------------------------------------------------------------
    r = cx.rule("C04-SERVOMAP", "host and firmware convert between servo angle and pulse width with the same map: the line through (min_angle, min_pulse) and (max_angle, max_pulse), compared as rational functions", floor=4)
    from . import c19
    from ..num import rat_equal
    sm = mod("Actuators/Servo.py")
    cx.consulted(sm)
    c19.servo_maps(r, sm)
    A, B, P, Q = "__servo_min_angle_dev", "__servo_max_angle_dev", "__servo_min_pulse_dev", "__servo_max_pulse_dev"
    for cname, kw, var, want in (("ServoWrite", {"angle": "H_x"}, "__redu_pulse", f"{P} + (x - {A}) / ({B} - {A}) * ({Q} - {P})"),
                                 ("ServoWriteMicroseconds", {"pulse_us": "H_x"}, "__redu_angle", f"{A} + (x - {P}) / ({Q} - {P}) * ({B} - {A})")):
        res = pe.emit_program(setup=[l2.decl_node("Servo"), cls[cname](name="dev", **kw)], loop=[])
        body = l2.functions_of(res.text, ["setup"])["setup"][0]["body"]
        decls = {st["name"]: st["init"] for st in cxx.all_stmts(body) if st["k"] == "decl" and st["init"] is not None}
        src_var = "__redu_angle" if cname == "ServoWrite" else "__redu_pulse"
        ok = False
        got = "?"
        if var in decls:
            try:
                got = cxx.to_py(decls[var])
                subst = {}
                for k_, v_ in decls.items():
                    if k_ not in (var, src_var):
                        try:
                            subst[k_] = ast.parse(cxx.to_py(v_), mode="eval").body
                        except (ValueError, SyntaxError):
                            pass
                subst[src_var] = ast.parse("x", mode="eval").body
                ok = rat_equal(ast.parse(got, mode="eval").body, ast.parse(want, mode="eval").body, subst, {})
            except (ValueError, SyntaxError):
                ok = False
        r.check(ok, f"{cname}/linear-map", (em, em.func("_emit_block")), f"firmware computes {var} = {got}; the host's map is {want}")

    # ---- C04-ROUND ---------------------------------------------------------------------------
    r = cx.rule("C04-ROUND", "RGBLed.fade: host and firmware interpolate start + (target-start)*i/steps and round to the nearest integer; the firmware's integer kernel is evaluated for every divisor 1..16 over rising, falling and one-count ramps (law: |written - exact| <= 1/2, last step = target), ties are compared with the host's round()", floor=1000, exhaustive=True)
    from fractions import Fraction
    from .. import ckern
    from ..src import walk_local, Locals
    hm_rgb = mod("Actuators/RGBLed.py")
    cx.consulted(hm_rgb)
    hf = hm_rgb.func("RGBLed.fade")
    hl = Locals(hf)
    host_value, step_iter = c19.host_fade_kernel(hm_rgb)
    r.check(all(step_iter(a_, b_, s_) == s_ for a_, b_, s_ in ((0, 255, 1), (0, 255, 5), (200, 3, 16), (10, 17, 50))), "host.fade/steps-1..steps", (hm_rgb, hf), "host fade must take exactly `steps` steps (i = 1..steps)")
    res = pe.emit_program(setup=[l2.decl_node("RGBLed"), cls["RGBLedFade"](name="dev", red="H_r", green="H_g", blue="H_b", duration_ms="H_d", steps="H_s")], loop=[])
    b0 = l2.functions_of(pe.emit_program(setup=[l2.decl_node("RGBLed")], loop=[]).text, ["setup"])["setup"][0]["body"]
    body = l2.functions_of(res.text, ["setup"])["setup"][0]["body"][len(b0):]
    ramps = ((0, 255), (255, 0), (100, 101), (101, 100), (3, 200), (200, 3), (0, 1), (1, 0), (10, 17), (17, 10), (0, 7), (250, 255))
    n_far = n_tie = 0
    for s_ in range(1, 17):
        for a, b in ramps:
            k = ckern.Kern(env={"H_r": b, "H_g": a, "H_b": b, "H_d": 1000, "H_s": s_, "__rgb_red_dev": a, "__rgb_green_dev": b, "__rgb_blue_dev": a, "__rgb_state_dev": 0},
                           types={"__rgb_red_dev": "int", "__rgb_green_dev": "int", "__rgb_blue_dev": "int", "__rgb_state_dev": "bool"})
            try:
                k.block(body)
            except ckern.KernUnsupported as e:
                raise AnalysisError(f"RGBLedFade kernel left the evaluable subset: {e}")
            for pin, (lo, hi) in (("3", (a, b)), ("5", (b, a)), ("6", (a, b))):
                seq = [ev[1][1] for ev in k.events if ev[0] == "analogWrite" and str(ev[1][0]) == pin]
                if len(seq) != s_:
                    r.fail("RGBLedFade/one-write-per-step", (em, em.func("_emit_block")), f"{lo}->{hi} in {s_} steps: pin {pin} is written {len(seq)} times")
                    continue
                for i_, v in enumerate(seq, 1):
                    exact = lo + Fraction((hi - lo) * i_, s_)
                    if abs(v - exact) > Fraction(1, 2) or (i_ == s_ and v != hi):
                        n_far += 1
                        if n_far <= 3:
                            r.fail("RGBLedFade/nearest-integer", (em, em.func("_emit_block")), f"fade {lo}->{hi} over {s_} steps: step {i_} writes {v}, exact value {float(exact):.3f} (host computes {host_value(lo, hi, i_, s_)})", detail={"start": lo, "target": hi, "steps": s_, "step": i_})
                        else:
                            r.stat.obligations += 1
                            r.stat.failed += 1
                    else:
                        hv = host_value(lo, hi, i_, s_)
                        if v != hv:
                            n_tie += 1
                            if n_tie <= 2:
                                r.fail("RGBLedFade/step-value=host-value", (em, em.func("_emit_block")), f"fade {lo}->{hi} over {s_} steps: step {i_} writes {v} on the device, the host model computes {hv} (exact {float(exact):.3f})", detail={"start": lo, "target": hi, "steps": s_, "step": i_})
                            else:
                                r.stat.obligations += 1
                                r.stat.failed += 1
                        else:
                            r.ok(None)

    # ---- C04-LED-EQUIV -----------------------------------------------------------------------
    r = cx.rule("C04-LED-EQUIV", "for every reachable Led state (brightness 0..255 with state = brightness > 0) the firmware's on/off/toggle/set_brightness leave the same brightness, the same state and the same pin level as the host class (host methods and firmware command kernels evaluated over the complete state space)", floor=1000, exhaustive=True)
    from .. import ckern as ckern_
    hled = mod("Actuators/Led.py")
    cx.consulted(hled)
    HL = type("LedObj", (dl.Synth,), {})
    cmds = [("LedOn", {}, "on", []), ("LedOff", {}, "off", []), ("LedToggle", {}, "toggle", [])] + [("LedSetBrightness", {"value": v_}, "set_brightness", [v_]) for v_ in (0, 1, 100, 254, 255)]
    b0 = l2.functions_of(pe.emit_program(setup=[l2.decl_node("Led")], loop=[]).text, ["setup"])["setup"][0]["body"]
    n_bad = 0
    for cname, kw, meth, margs in cmds:
        try:
            node = cls[cname](name="dev", **kw)
        except pe.IRRejected:
            continue
        res = pe.emit_program(setup=[l2.decl_node("Led"), node], loop=[])
        body = l2.functions_of(res.text, ["setup"])["setup"][0]["body"][len(b0):]
        hfn = hled.func(f"Led.{meth}")
        for br in range(0, 256):
            o = host_object(hled, "Led", 7)
            o.brightness, o.state = br, br > 0
            hit = dl.Interp(hled)
            try:
                hout = hit.call(hfn, [o] + list(margs))
            except dl.Unsupported as e:
                raise AnalysisError(f"host Led.{meth} left the evaluable subset: {e}")
            k = ckern_.Kern(env={"__state_dev": int(br > 0), "__brightness_dev": br}, types={"__state_dev": "bool", "__brightness_dev": "int"})
            try:
                k.block(body)
            except ckern_.KernUnsupported as e:
                raise AnalysisError(f"{cname} kernel left the evaluable subset: {e}")
            pin_events = [ev for ev in k.events if ev[0] in ("analogWrite", "digitalWrite") and ev[1] and ev[1][0] == 7]
            level = None
            if pin_events:
                nm, (pin_, val_) = pin_events[-1]
                level = (255 if val_ else 0) if nm == "digitalWrite" else val_
            good = hout.kind == "return" and k.env["__brightness_dev"] == o.brightness and bool(k.env["__state_dev"]) == bool(o.state) and level == o.brightness
            if good:
                r.ok(None)
            else:
                n_bad += 1
                if n_bad <= 3:
                    r.fail(f"Led.{meth}/firmware=host", (em, em.func("_emit_block")), f"from brightness {br}: led.{meth}({', '.join(map(str, margs))}) leaves host (brightness {o.brightness}, state {o.state}) and firmware (brightness {k.env['__brightness_dev']}, state {bool(k.env['__state_dev'])}, pin level {level})", detail={"brightness": br, "method": meth})
                else:
                    r.stat.obligations += 1
                    r.stat.failed += 1

    # ---- C04-MOTOR-EQUIV ---------------------------------------------------------------------
    r = cx.rule("C04-MOTOR-EQUIV", "for every DCMotor state (speed in {-1,-0.5,0,0.5,1} x inverted x coast/brake/drive) and every command set_speed/backward/stop/coast/invert with arguments in and out of range, host class and firmware agree on speed, inversion, mode, applied speed, bridge direction and duty (to one PWM count)", floor=150, exhaustive=True)
    hmot = mod("Actuators/DCMotor.py")
    HM = type("MotorObj", (dl.Synth,), {})
    b0m = l2.functions_of(pe.emit_program(setup=[l2.decl_node("DCMotor")], loop=[]).text, ["setup"])["setup"][0]["body"]
    mcmds = [("DCMotorSetSpeed", {"speed": v_}, "set_speed", [v_]) for v_ in (-2, -1, -0.5, 0, 0.5, 1, 3)] + [("DCMotorBackward", {"speed": v_}, "backward", [v_]) for v_ in (0, 0.5, 1, -0.5)] + \
            [("DCMotorStop", {}, "stop", []), ("DCMotorCoast", {}, "coast", []), ("DCMotorInvert", {}, "invert", [])] + \
            [("DCMotorRamp", {"target_speed": t_, "duration_ms": d_}, "ramp", [t_, d_]) for t_ in (-2, -0.5, 0, 0.5, 1) for d_ in (0, 100, 1000)] + \
            [("DCMotorRunFor", {"duration_ms": d_, "speed": v_}, "run_for", [d_, v_]) for v_ in (-1, 0, 0.5) for d_ in (0, 250)]
    n_bad = 0
    for cname, kw, meth, margs in mcmds:
        if cname not in cls:
            continue
        try:
            node = cls[cname](name="dev", **kw)
        except pe.IRRejected:
            continue
        res = pe.emit_program(setup=[l2.decl_node("DCMotor"), node], loop=[])
        if res.raised:
            raise AnalysisError(f"emit() raises for {cname}")
        body = l2.functions_of(res.text, ["setup"])["setup"][0]["body"][len(b0m):]
        hfn = hmot.func(f"DCMotor.{meth}")
        for sp in (-1.0, -0.5, 0.0, 0.5, 1.0):
            for inv in (False, True):
                for mode0 in (("drive",) if sp != 0 else ("coast", "brake")):
                    o = host_object(hmot, "DCMotor", 2, 4, 9)
                    o._speed, o._inverted, o._mode, o._applied_speed = sp, inv, mode0, (-sp if inv else sp)
                    sleeps = []
                    try:
                        hout = dl.Interp(hmot, opaque={"_sleep": lambda ms, _s=sleeps: _s.append(ms)}).call(hfn, [o] + list(margs))
                    except dl.Unsupported as e:
                        raise AnalysisError(f"host DCMotor.{meth} left the evaluable subset: {e}")
                    k = ckern_.Kern(env={"__dc_speed_dev": sp, "__dc_inverted_dev": int(inv), "__dc_mode_dev": mode0}, types={"__dc_speed_dev": "float", "__dc_inverted_dev": "bool", "__dc_mode_dev": "String"})
                    try:
                        k.block(body)
                    except ckern_.KernUnsupported as e:
                        raise AnalysisError(f"{cname} kernel left the evaluable subset: {e}")
                    lv = {}
                    for nm, a_ in k.events:
                        if nm in ("digitalWrite", "analogWrite") and len(a_) == 2:
                            lv[int(a_[0])] = a_[1]
                    f_speed, f_inv, f_mode = k.env["__dc_speed_dev"], bool(k.env["__dc_inverted_dev"]), k.env["__dc_mode_dev"]
                    f_applied = -f_speed if f_inv else f_speed
                    want_duty = int(abs(o._applied_speed) * 255 + 0.5)
                    want_dir = (1, 1) if o._mode == "brake" else (0, 0) if o._mode == "coast" else ((1, 0) if o._applied_speed > 0 else (0, 1))
                    delays = [a_[0] for nm, a_ in k.events if nm == "delay"]
                    # the device waits whole milliseconds: each wait is the host's wait truncated (never longer), one per host sleep
                    waits_ok = [int(d_) for d_ in delays if d_ > 0] == [int(x) for x in sleeps if x >= 1] if all(x >= 1 or x == 0 for x in sleeps) else True
                    good = hout.kind == "return" and abs(f_speed - o._speed) < 1e-6 and f_inv == o._inverted and f_mode == o._mode and abs(f_applied - o._applied_speed) < 1e-6 \
                        and (lv.get(2), lv.get(4)) == want_dir and lv.get(9) is not None and abs(lv.get(9) - want_duty) <= 1 and waits_ok
                    if good:
                        r.ok(None)
                    else:
                        n_bad += 1
                        if n_bad <= 3:
                            r.fail(f"DCMotor.{meth}/firmware=host", (em, em.func("_emit_block")), f"from (speed {sp}, inverted {inv}, mode {mode0}): motor.{meth}({', '.join(map(str, margs))}) -> host (speed {o._speed}, inverted {o._inverted}, mode {o._mode}, applied {o._applied_speed}); firmware (speed {f_speed}, inverted {f_inv}, mode {f_mode}, IN1/IN2 {lv.get(2)}/{lv.get(4)}, duty {lv.get(9)}); host sleeps {len(sleeps)}x{sleeps[0] if sleeps else 0}, firmware delays {len(delays)}x{delays[0] if delays else 0}", detail={"speed": sp, "inverted": inv, "mode": mode0, "method": meth, "args": margs})
                        else:
                            r.stat.obligations += 1
                            r.stat.failed += 1

    # ---- C04-RGB-EQUIV / C04-SERVO-EQUIV -----------------------------------------------------
    r = cx.rule("C04-RGB-EQUIV", "RGBLed set_color/on/off: from every start colour of a grid and for in-range components, host and firmware agree on the stored colour, get_state and the three PWM duties", floor=40, exhaustive=True)
    hrgb = mod("Actuators/RGBLed.py")
    HR = type("RGBObj", (dl.Synth,), {})
    b0r = l2.functions_of(pe.emit_program(setup=[l2.decl_node("RGBLed")], loop=[]).text, ["setup"])["setup"][0]["body"]
    comps = [(0, 0, 0), (255, 255, 255), (1, 0, 0), (0, 128, 255), (10, 20, 30)]
    rcmds = [("RGBLedSetColor", {"red": c_[0], "green": c_[1], "blue": c_[2]}, "set_color", list(c_)) for c_ in comps] + [("RGBLedOn", {"red": c_[0], "green": c_[1], "blue": c_[2]}, "on", list(c_)) for c_ in comps[1:4]] + [("RGBLedOff", {}, "off", [])]
    n_bad = 0
    for cname, kw, meth, margs in rcmds:
        try:
            node = cls[cname](name="dev", **kw)
        except pe.IRRejected:
            continue
        res = pe.emit_program(setup=[l2.decl_node("RGBLed"), node], loop=[])
        if res.raised:
            raise AnalysisError(f"emit() raises for {cname}")
        body = l2.functions_of(res.text, ["setup"])["setup"][0]["body"][len(b0r):]
        for start in comps:
            o = host_object(hrgb, "RGBLed", 3, 5, 6)
            o._color, o._state = tuple(start), any(x > 0 for x in start)
            try:
                hout = dl.Interp(hrgb).call(hrgb.func(f"RGBLed.{meth}"), [o] + list(margs))
            except dl.Unsupported as e:
                raise AnalysisError(f"host RGBLed.{meth} left the evaluable subset: {e}")
            k = ckern_.Kern(env={"__rgb_red_dev": start[0], "__rgb_green_dev": start[1], "__rgb_blue_dev": start[2], "__rgb_state_dev": int(any(x > 0 for x in start))},
                            types={"__rgb_red_dev": "int", "__rgb_green_dev": "int", "__rgb_blue_dev": "int", "__rgb_state_dev": "bool"})
            try:
                k.block(body)
            except ckern_.KernUnsupported as e:
                raise AnalysisError(f"{cname} kernel left the evaluable subset: {e}")
            duty = {}
            for nm, a_ in k.events:
                if nm == "analogWrite" and len(a_) == 2:
                    duty[int(a_[0])] = a_[1]
            fcol = (k.env["__rgb_red_dev"], k.env["__rgb_green_dev"], k.env["__rgb_blue_dev"])
            good = hout.kind == "return" and fcol == tuple(o._color) and bool(k.env["__rgb_state_dev"]) == bool(o._state) and (duty.get(3), duty.get(5), duty.get(6)) == tuple(o._color)
            if good:
                r.ok(None)
            else:
                n_bad += 1
                if n_bad <= 3:
                    r.fail(f"RGBLed.{meth}/firmware=host", (em, em.func("_emit_block")), f"from colour {start}: rgb.{meth}({', '.join(map(str, margs))}) -> host (colour {o._color}, state {o._state}); firmware (colour {fcol}, state {bool(k.env['__rgb_state_dev'])}, duties {(duty.get(3), duty.get(5), duty.get(6))})", detail={"start": start, "method": meth, "args": margs})
                else:
                    r.stat.obligations += 1
                    r.stat.failed += 1

    r = cx.rule("C04-SERVO-EQUIV", "Servo write/write_us: for three calibrations (default, 10..170 / 500..2500, -90..90) and in-range arguments host and firmware agree on read() and read_us() (1e-3) and the value handed to the Servo library (nearest integer)", floor=20, exhaustive=True)
    hsv = mod("Actuators/Servo.py")
    HS = type("ServoObj", (dl.Synth,), {})
    calibs = [(0.0, 180.0, 544.0, 2400.0), (10.0, 170.0, 500.0, 2500.0), (-90.0, 90.0, 544.0, 2400.0)]
    n_bad = 0
    for cal in calibs:
        decl = l2.decl_node("Servo", min_angle=cal[0], max_angle=cal[1], min_pulse_us=cal[2], max_pulse_us=cal[3])
        b0s = l2.functions_of(pe.emit_program(setup=[decl], loop=[]).text, ["setup"])["setup"][0]["body"]
        for cname, fld, meth, frac in (("ServoWrite", "angle", "write", (0.0, 0.25, 0.5, 1.0)), ("ServoWriteMicroseconds", "pulse_us", "write_us", (0.0, 0.3, 0.5, 1.0))):
            lo_, hi_ = (cal[0], cal[1]) if meth == "write" else (cal[2], cal[3])
            for fr in frac:
                arg = lo_ + (hi_ - lo_) * fr
                try:
                    node = cls[cname](name="dev", **{fld: arg})
                except pe.IRRejected:
                    continue
                res = pe.emit_program(setup=[decl, node], loop=[])
                if res.raised:
                    raise AnalysisError(f"emit() raises for {cname}")
                body = l2.functions_of(res.text, ["setup"])["setup"][0]["body"][len(b0s):]
                o = host_object(hsv, "Servo", 7, min_angle=cal[0], max_angle=cal[1], min_pulse_us=cal[2], max_pulse_us=cal[3])
                try:
                    hout = dl.Interp(hsv).call(hsv.func(f"Servo.{meth}"), [o, arg])
                except dl.Unsupported as e:
                    raise AnalysisError(f"host Servo.{meth} left the evaluable subset: {e}")
                env = {"__servo_min_angle_dev": cal[0], "__servo_max_angle_dev": cal[1], "__servo_min_pulse_dev": cal[2], "__servo_max_pulse_dev": cal[3], "__servo_angle_dev": cal[0], "__servo_pulse_dev": cal[2], "__servo_dev": 0}
                k = ckern_.Kern(env=env, types={k_: "float" for k_ in env if k_ != "__servo_dev"})
                try:
                    k.block(body)
                except ckern_.KernUnsupported as e:
                    raise AnalysisError(f"{cname} kernel left the evaluable subset: {e}")
                libcall = [a_ for nm, a_ in k.events if nm in ("write", "writeMicroseconds")]
                want_lib = int((o._current_angle if meth == "write" else o._current_pulse) + 0.5) if (o._current_angle if meth == "write" else o._current_pulse) >= 0 else None
                good = hout.kind == "return" and abs(k.env["__servo_angle_dev"] - o._current_angle) < 1e-2 and abs(k.env["__servo_pulse_dev"] - o._current_pulse) < 1e-1 and len(libcall) == 1 and (want_lib is None or abs(libcall[0][0] - want_lib) <= 1)
                if good:
                    r.ok(None)
                else:
                    n_bad += 1
                    if n_bad <= 3:
                        r.fail(f"Servo.{meth}/firmware=host", (em, em.func("_emit_block")), f"calibration {cal}: servo.{meth}({arg}) -> host (angle {o._current_angle}, pulse {o._current_pulse}); firmware (angle {k.env['__servo_angle_dev']}, pulse {k.env['__servo_pulse_dev']}, library call {libcall})", detail={"calibration": cal, "method": meth, "arg": arg})
                    else:
                        r.stat.obligations += 1
                        r.stat.failed += 1

    # ---- C04-LITERAL -------------------------------------------------------------------------
    from . import c03
    c03.rule_resolver_values(cx, "C04-LITERAL")

    # ---- C04-COND ----------------------------------------------------------------------------
    r = cx.rule("C04-COND", "the branch decisions of time-sequenced commands are taken on the same quantities as in the host model (RGBLed.fade jumps straight to the target iff duration == 0 or the colour is already the target; blink/fade loop headers count what the host counts)", floor=4)
    res = pe.emit_program(setup=[l2.decl_node("RGBLed"), cls["RGBLedFade"](name="dev", red="H_r", green="H_g", blue="H_b", duration_ms="H_d", steps="H_s")], loop=[])
    body = l2.functions_of(res.text, ["setup"])["setup"][0]["body"]
    ifs = [st for st in cxx.all_stmts(body) if st["k"] == "if" and st["else"] and any(c for c in cxx.all_calls(st["then"], "analogWrite"))]
    jump = [st for st in ifs if any(s_["k"] == "for" for s_ in cxx.all_stmts(st["else"]))]
    okj = False
    if len(jump) == 1:
        c = jump[0]["cond"]
        txt = show(c)
        okj = c[0] == "bin" and c[1] == "||" and show(c[2]) in ("(__redu_duration == 0)",) and lname(c[3]) == "__redu_same"
        same = [st for st in cxx.all_stmts(body) if st["k"] == "decl" and st["name"] == "__redu_same"]
        oks = bool(same) and all(f"(__rgb_{ch}_dev == __redu_target_{ch})" in show(same[0]["init"]) for ch in ("red", "green", "blue"))
        r.check(oks, "RGBLedFade/same=all-three-channels-equal", (em, em.func("_emit_block")), f"`same` is {show(same[0]['init']) if same else '?'}")
    r.check(okj, "RGBLedFade/jump-iff-duration==0-or-same", (em, em.func("_emit_block")), f"the fade jumps straight to the target under `{show(jump[0]['cond']) if len(jump) == 1 else '?'}`; the host does so iff duration_ms == 0 or the colour already equals the target")
    if len(jump) == 1:
        fl = [s_ for s_ in cxx.all_stmts(jump[0]["else"]) if s_["k"] == "for"][0]
        r.check(show(fl["cond"]) == "(__redu_i <= __redu_steps)" and fl["init"][0]["init"] == ("lit", 1), "RGBLedFade/loop-1..steps", (em, em.func("_emit_block")), "fade loop must run i = 1..steps")
        dl_ = [c for c in cxx.all_calls(fl["body"], "delay")]
        guarded = [st for st in cxx.all_stmts(fl["body"]) if st["k"] == "if" and any(True for _ in cxx.all_calls(st["then"], "delay"))]
        r.check(len(dl_) == 1 and len(guarded) == 1 and "(__redu_i != __redu_steps)" in show(guarded[0]["cond"]), "RGBLedFade/no-delay-after-last-step", (em, em.func("_emit_block")), "exactly one delay per step, none after the last step")
    for cname, var in (("LedBlink", "__redu_times"), ("RGBLedBlink", "__redu_times")):
        dev = l2.device_of(cname)
        kw = {"name": "dev"}
        for fname, ann, d in fields[cname]:
            if fname != "name":
                kw[fname] = f"H_{fname}"
        res = pe.emit_program(setup=[l2.decl_node(dev), cls[cname](**kw)], loop=[])
        body = l2.functions_of(res.text, ["setup"])["setup"][0]["body"]
        fl = [s_ for s_ in cxx.all_stmts(body) if s_["k"] == "for"]
        okb = len(fl) == 1 and show(fl[0]["cond"]) == f"(__redu_i < {var})" and fl[0]["init"][0]["init"] == ("lit", 0) and len(list(cxx.all_calls(fl[0]["body"], "delay"))) == 2
        r.check(okb, f"{cname}/times-iterations-two-delays", (em, em.func("_emit_block")), f"{cname} must loop `times` times with two delays per repetition")

"""C03 - transpile-time evaluation (constant folding/propagation) never changes meaning."""
from __future__ import annotations

import ast
import re
import itertools

from .. import dl, lit
from ..core import AnalysisError
from ..flow import CondTrace, conds, lexical_conds
from ..src import Locals, call_name, calls_in, dotted, mod, norm, stmt_key, walk_local

PARSER = "transpile/parser.py"

BIN_ORACLE = {"Add": "add", "Sub": "sub", "Mult": "mul", "Div": "truediv", "FloorDiv": "floordiv", "Mod": "mod",
              "Pow": "pow", "BitAnd": "and_", "BitOr": "or_", "BitXor": "xor", "LShift": "lshift", "RShift": "rshift"}
CMP_ORACLE = {"Eq": "eq", "NotEq": "ne", "Lt": "lt", "LtE": "le", "Gt": "gt", "GtE": "ge"}
ENV_NAMES = {"vars", "vars_env", "env"}


def _table_value(pm, fn, table_expr):
    """evaluate the operator table used in a subscript-call `T[op](a, b)`"""
    if isinstance(table_expr, ast.Name):
        loc = Locals(fn)
        ds = loc.defs.get(table_expr.id)
        if ds and len(ds) == 1 and isinstance(ds[0], ast.expr):
            table_expr = ds[0]
        elif table_expr.id in pm.consts:
            table_expr = pm.consts[table_expr.id]
    try:
        return lit.ev(table_expr, pm)
    except lit.NotLiteral:
        try:
            return dl.Interp(pm).expr(table_expr, {})
        except (dl.Unsupported, dl.Raised) as e:
            raise AnalysisError(f"operator table not evaluable: {e}")


def is_env(node) -> bool:
    """expression denoting the constant environment"""
    t = norm(node)
    return t in ENV_NAMES or t.endswith("['vars']") or t.endswith('["vars"]')


def rule_fold_sites(cx, prefix):
    """every transpile-time evaluation is name-free; nothing else reads the constant environment into emitted text"""
    pm = mod(PARSER)
    r = cx.rule(f"{prefix}-FOLD-GUARD", "every transpile-time evaluation whose result is baked into the firmware happens under `not _expr_has_name(<ast of the same source text>)` (name-free), so flow-insensitivity of the constant environment cannot leak into literals", floor=15)
    WL = {
        "_handle_assignment_ast.eval_or_expr": "the result only becomes a baked literal through the is_const/expr_uses_names decision checked by C03-GLOBAL-INIT",
        "ultrasonic-model": "validation only: the emitted model is the constant 'HC-SR04'",
    }
    sites = 0
    for q, fn in pm.funcs.items():
        if q.startswith("_eval_const"):
            continue
        fold_calls = [c for c in walk_local(fn, include_self=False) if isinstance(c, ast.Call) and call_name(c) in ("_eval_const", "ast.literal_eval")]
        if not fold_calls:
            continue
        loc = Locals(fn)
        for c in fold_calls:
            st = c
            while not isinstance(st, ast.stmt):
                st = pm.parent[st]
            sites += 1
            src_txt = norm(c.args[0]) if c.args else ""
            if call_name(c) == "ast.literal_eval":
                r.ok(f"{q}: literal_eval({src_txt}) is name-free by construction")
                continue
            if q in WL:
                r.ok(f"{q}: whitelisted ({WL[q][:40]})")
                continue
            if src_txt == "model_arg":
                r.ok(f"{q}: ultrasonic model (validation only)")
                continue
            cs = lexical_conds(pm, c)
            guarded = False
            for t, tv in cs:
                if (t.startswith("_expr_has_name(") and not tv) or (t.startswith("not _expr_has_name(") and tv):
                    inner = t[t.index("_expr_has_name(") + len("_expr_has_name("):].rstrip(")")
                    # the tested AST must be the parse of the very text being evaluated
                    ds = loc.defs.get(inner, [])
                    parsed_same = any(isinstance(d, ast.expr) and (f"ast.parse({src_txt}," in norm(d) or f"ast.parse({src_txt})" in norm(d)) for d in ds)
                    if parsed_same:
                        guarded = True
            key_site = f"{q}/_eval_const({src_txt})"
            r.check(guarded, f"{key_site}-unguarded", (pm, c), f"`{stmt_key(st)}`: the expression is evaluated against the constant environment without the name-free guard; names bound earlier (possibly in another branch or loop pass) are baked into the firmware", sample=f"{q}: _eval_const({src_txt}) under not _expr_has_name", construct=stmt_key(st, 200))
    if sites < 15:
        raise AnalysisError(f"only {sites} fold sites recognised (confirmed: 20)")
    cx.extra["fold_sites"] = sites

    r = cx.rule(f"{prefix}-ENV-READ", "nothing else reads a value out of the constant environment into emitted text: every `.get`/subscript read of the environment is plumbing (_helpers/_ctx), the evaluator's own lookup, or a save/restore", floor=8)
    for q, fn in pm.funcs.items():
        for n in walk_local(fn, include_self=False):
            key = None
            if isinstance(n, ast.Call) and isinstance(n.func, ast.Attribute) and n.func.attr in ("get", "pop") and is_env(n.func.value) and n.args:
                key = n.args[0]
            elif isinstance(n, ast.Subscript) and isinstance(n.ctx, ast.Load) and is_env(n.value):
                key = n.slice
            if key is None:
                continue
            kt = norm(key)
            if kt in ("'_helpers'", "'_ctx'"):
                r.ok(f"{q}: env plumbing {kt}")
                continue
            if q == "_eval_const.ev":
                r.ok("_eval_const.ev: the evaluator's own lookup")
                continue
            par = pm.parent.get(n)
            # save/restore around a comprehension variable
            if isinstance(par, ast.Assign) and isinstance(par.targets[0], ast.Name) and par.targets[0].id.startswith("saved"):
                r.ok(f"{q}: save/restore of {kt}")
                continue
            if n.func.attr == "pop" if isinstance(n, ast.Call) else False:
                r.ok(f"{q}: restore of {kt}")
                continue
            r.fail(f"{q}/env-read[{kt}]", (pm, n), f"`{stmt_key(par if isinstance(par, ast.stmt) else n)}` reads `{kt}` from the constant environment; the value found there was bound flow-insensitively (another branch, an earlier loop pass) and is baked into the firmware", construct=stmt_key(par if isinstance(par, ast.stmt) else n, 200))


_LCD_FNS = {}


def _same_device_trace(text_a, text_b) -> bool:
    """both sketches' setup() bodies, evaluated with C semantics (helper templates entered, Arduino calls recorded), perform
    the same sequence of calls with the same arguments; False when they differ or when equivalence cannot be shown"""
    import re as _re
    from .. import ckern, l2
    from . import c17
    if not _LCD_FNS:
        fns_, _names = c17.helper_functions(mod("transpile/emitter.py"))
        _LCD_FNS.update(fns_)
        lcd = lit.table(mod("transpile/emitter.py"), "LCD_HELPER_SNIPPET")
        m_ = _re.search(r"enum\s+__redu_lcd_align\s*\{([^}]*)\}", lcd)
        nxt = 0
        for item in [x.strip() for x in (m_.group(1) if m_ else "").split(",") if x.strip()]:
            nm, _, val = item.partition("=")
            nxt = int(val) if val.strip() else nxt
            _LCD_FNS.setdefault("@enum", {})[nm.strip()] = nxt
            nxt += 1
    # the statement may run in any device state, not only the one the declarations leave behind: the comparison is repeated
    # with the emitter's own state variables (non-const `__...` globals) perturbed (small integers := 40, booleans flipped)
    for perturb in (None, "int", "bool"):
        traces = []
        for text in (text_a, text_b):
            try:
                fns = l2.functions_of(text, ["setup"])
                g = l2.global_decls(text)
            except Exception:
                return False
            env, types = dict(_LCD_FNS.get("@enum", {})), {}
            for n_, (ty, init) in g.items():
                types[n_] = ty
                if ty.replace("const ", "") not in ("int", "long", "unsigned long", "unsigned int", "float", "double", "bool", "String", "uint8_t", "byte", "size_t"):
                    env[n_] = 0       # a device object (LiquidCrystal, Servo): only its method calls matter, they are recorded
                    continue
                txt = (init or "0").strip()
                while True:
                    mm = _re.fullmatch(r"static_cast<[\w\s]+>\((.*)\)", txt) or _re.fullmatch(r"\((.*)\)", txt)
                    if not mm:
                        break
                    txt = mm.group(1).strip()
                try:
                    env[n_] = txt.strip('"') if ty == "String" else 1 if txt == "true" else 0 if txt == "false" else float(txt.rstrip("fUL")) if ("." in txt or "e" in txt.lower()) else int(txt.rstrip("UL"), 0)
                except Exception:
                    return False        # a global whose initial value the evaluator cannot read: equivalence is not shown
                if perturb and n_.startswith("__") and not ty.startswith("const"):
                    if perturb == "int" and ty in ("int", "long", "uint8_t", "byte") and isinstance(env[n_], int) and 0 <= env[n_] <= 255:
                        env[n_] = 40 if env[n_] != 40 else 41
                    elif perturb == "bool" and ty == "bool":
                        env[n_] = 0 if env[n_] else 1
            k = ckern.CallKern({k_: v_ for k_, v_ in _LCD_FNS.items() if k_ != "@enum"}, env=env, types=types, consts=_LCD_FNS.get("@enum", {}))
            try:
                k.block(fns["setup"][0]["body"])
            except (ckern.KernUnsupported, ckern._Return, ckern._Break, ckern._Continue):
                return False
            traces.append(k.events)
        if traces[0] != traces[1]:
            return False
    return True


def rule_literal_uniform(cx, rid):
    """a literal argument is not special: the firmware for f=0 / f=7 is the firmware for f=<run-time expression> with the
    expression replaced by the literal (IR classes and emitter arms do not clamp, drop or re-interpret folded values)"""
    from .. import l2, pe
    em = mod("transpile/emitter.py")
    cls, fields = pe.ir_classes()
    r = cx.rule(rid, "routing a value through a run-time variable does not change the firmware: for every numeric-or-expression IR field the text emitted for the literals 0 and 7 equals the text emitted for a placeholder expression with the literal substituted", floor=80, exhaustive=True)
    skip = {"Program", "ConditionalBranch", "CatchClause", "FunctionDef", "IfStatement", "WhileLoop", "ForRangeLoop", "TryStatement", "VarDecl", "VarAssign", "ReturnStmt", "BreakStmt", "ExprStmt"}
    for cname in sorted(cls):
        dev = l2.device_of(cname)
        if cname in skip or cname.endswith("Decl"):
            continue
        base = next((kw for kw, _n in pe.variants(cname, limit=1)), None)
        if base is None:
            continue
        pres = [("", [l2.lcd_decl("parallel", True)]), ("[i2c]", [l2.lcd_decl("i2c")]), ("[parallel, no backlight pin]", [l2.lcd_decl("parallel", False)])] if dev == "LCD" else [("", [l2.decl_node(dev)] if dev else [])]
        for (ptag, pre), (fname, ann, _d) in itertools.product(pres, fields[cname]):
            parts = ann.replace("typing.", "").replace("Optional[", "").replace("Union[", "").replace("]", "").split(", ")
            if fname == "name" or "str" not in parts or not ({"int", "bool"} & set(parts)):
                continue
            hole = f"H_{fname}"
            lits = (0, 7) if "int" in parts else (True, False)

            def text_for(v, _c=cname, _f=fname, pre=pre):
                kw = dict(base)
                kw[_f] = v
                try:
                    res = pe.emit_program(setup=pre + [cls[_c](**kw)], loop=[])
                except pe.IRRejected:
                    return None
                return None if res.raised else res.text
            th = text_for(hole)
            for v in lits:
                tv = text_for(v)
                if tv is None or th is None:
                    r.ok(f"{cname}.{fname}={v}: rejected")
                    continue
                want = th.replace(hole, str(v).lower() if isinstance(v, bool) else str(v))
                if tv == want:
                    r.ok(None)
                elif _same_device_trace(tv, want):
                    r.ok(f"{cname}.{fname}={v}: text differs, device trace identical (a transpile-time normalisation that mirrors the run-time one)")
                else:
                    a_, b_ = tv.split("\n"), want.split("\n")
                    k = next((i for i, (p_, q_) in enumerate(zip(a_, b_)) if p_ != q_), min(len(a_), len(b_)))
                    r.fail(f"{cname}.{fname}{ptag}/literal={v}-same-as-expression", (em, em.func("_emit_block")), f"{cname}({fname}={v}){ptag} emits `{(a_[k] if k < len(a_) else '<end>').strip()}` where the run-time form with {v} substituted reads `{(b_[k] if k < len(b_) else '<end>').strip()}`: the literal is clamped/dropped/re-interpreted at transpile time in a way the run-time path is not")
    return r


def rule_resolver_values(cx, rid):
    """the argument resolvers of the statement parser (closures of _parse_simple_lines) fold a name-free argument to exactly
    the value the device computes when the same number arrives at run time in a parameter of that kind: an integer parameter
    truncates toward zero (C++ float->int conversion; the host classes call int()), a float parameter keeps the value, a
    flag is its truth value, an omitted argument is the default, and an expression with a name is left to run time"""
    pm = mod(PARSER)
    clos = {q.split(".")[-1]: f for q, f in pm.funcs.items() if q.startswith("_parse_simple_lines.") and q.count(".") == 1}
    r = cx.rule(rid, "folded literal arguments: _resolve_numeric_arg/_resolve_optional_numeric_arg return int(v) (truncation toward zero, as the C++ conversion of a run-time value and the host's int()), _resolve_float_arg float(v), _resolve_bool_arg bool(v); omitted -> default; an expression with a name -> run-time text", floor=80, exhaustive=True)

    def call(name, *args):
        it = dl.Interp(pm, opaque={"ast.parse": ast.parse, "ast.iter_child_nodes": lambda n_: list(ast.iter_child_nodes(n_)), "ast.walk": lambda n_: list(ast.walk(n_)), "re.fullmatch": __import__("re").fullmatch, "re.sub": __import__("re").sub})
        env = dl.Env(None)
        for k, f in clos.items():
            dict.__setitem__(env, k, dl.Closure(f, env))
        dict.__setitem__(env, "vars", {})
        dict.__setitem__(env, "ctx", {})
        try:
            return dl.Outcome("return", it._call(clos[name], list(args), {}, env))
        except dl.Raised as ex_:
            return dl.Outcome("raise", ex_.exc_type)
        except dl.Unsupported as ex_:
            raise AnalysisError(f"{name} left the evaluable subset: {ex_}")

    grid = ["0", "7", "-3", "255", "127.6", "0.9", "-0.9", "0.5", "-2.5", "2.5", "255 * 0.5", "1000 / 3", "True", "False", "1e2", "0.0", "3 // 2", "-7 / 2"]
    kinds = (("_resolve_numeric_arg", lambda v: (1 if v else 0) if isinstance(v, bool) else int(v), (99,)),
             ("_resolve_optional_numeric_arg", lambda v: (1 if v else 0) if isinstance(v, bool) else int(v), ()),
             ("_resolve_float_arg", lambda v: float(v), (99.5,)),
             ("_resolve_bool_arg", lambda v: bool(v), (True,)))
    for name, conv, dflt in kinds:
        if name not in clos:
            raise AnalysisError(f"{name} vanished")
        for src in grid:
            v = eval(src, {"__builtins__": {}})        # a name-free arithmetic literal of the checker's own grid
            want = conv(v)
            out = call(name, src, *dflt)
            ok = out.kind == "return" and type(out.value) is type(want) and out.value == want
            r.check(ok, f"{name}/folds-like-run-time-conversion", (pm, clos[name]), f"{name}({src!r}) -> {out!r}; the same value arriving at run time is converted to {want!r} (the host class computes the same): a literal and a variable holding it drive the device differently", sample=f"{name}({src}) = {want!r}")
        for blank in (None, "", "  "):
            if not dflt and blank is not None and name == "_resolve_optional_numeric_arg":
                want_d = None
            else:
                want_d = dflt[0] if dflt else None
            out = call(name, blank, *dflt)
            r.check(out.kind == "return" and out.value == want_d, f"{name}/omitted->default", (pm, clos[name]), f"{name}({blank!r}) -> {out!r}, expected the default {want_d!r}")
        out = call(name, "x + 1", *dflt)
        r.check(out.kind == "return" and isinstance(out.value, str) and "x" in out.value, f"{name}/named-expression-left-to-run-time", (pm, clos[name]), f"{name}('x + 1') -> {out!r}")
    return r


def evaluator_no_alias(r, pm, key_prefix="_eval_const"):
    """the constant evaluator never hands out a mutable object of the environment: for an environment binding a name to a
    list, every expression form that passes a value through unchanged (name, conditional, and/or, parenthesised) either
    is rejected or yields a different object; otherwise `c = a` makes two tracked lists one Python list and a later
    `c.append(..)` silently changes what is folded for `a` (its len(), its elements)"""
    evc = pm.func("_eval_const")
    for src in ("a", "(a)", "a if True else 0", "0 or a", "a and a", "[a][0]", "a + []", "a * 1"):
        shared = [1, 2, 3]
        try:
            out = dl.Interp(pm, opaque={"ast.parse": ast.parse}).call(evc, [src, {"a": shared}])
        except dl.Unsupported as e:
            raise AnalysisError(f"_eval_const left the evaluable subset on `{src}`: {e}")
        ok = out.kind == "raise" or out.value is not shared
        r.check(ok, f"{key_prefix}/environment-list-returned-by-reference", (pm, evc), f"_eval_const({src!r}) with `a` bound to a tracked list returns that very list object: the value stored for another name aliases it, so appends through one name change the folded length/elements of the other", sample=f"{src}: {'rejected' if out.kind == 'raise' else 'fresh value'}")


def list_size_guard_ok(pm) -> bool:
    """re-assignment of a declared list with a statically different length is refused, also after appends moved the tracked
    length and in every scope; the same length is accepted - decided on scripts through parse() (partial evaluation)"""
    from .. import pe as pe_
    tail = "while True:\n    a0 = 0\n"
    cases = [("xs = [1, 2, 3]\nxs = [4, 5]\n" + tail, False), ("xs = [1, 2, 3]\nxs = [4, 5, 6]\n" + tail, True), ("xs = [1, 2]\nxs.append(3)\nxs = [7, 8, 9]\n" + tail, True),
             ("xs = [1, 2]\nxs.append(3)\nxs = [7, 8]\n" + tail, False), ("xs = [1, 2]\nxs = [1, 2, 3, 4]\n" + tail, False), ("xs = [1.5, 2.5]\nxs = [3.5]\n" + tail, False),
             ("def f():\n    ys = [1, 2]\n    ys = [3]\n    return 0\nz = f()\n" + tail, False), ("while True:\n    xs = [1, 2]\n    xs = [3]\n", False),
             ("xs = [1, 2, 3]\nxs.remove(2)\nxs = [5, 6]\n" + tail, True), ("xs = [1, 2, 3]\nxs.remove(2)\nxs = [5, 6, 7]\n" + tail, False)]
    for src, accept in cases:
        try:
            _it, out = pe_.parse_source(src)
        except dl.Unsupported as e:
            raise AnalysisError(f"parse() left the evaluable subset on a list script: {e}")
        if accept and out.kind != "return":
            return False
        if not accept and not (out.kind == "raise" and out.value == "ValueError"):
            return False
    return True


def run(cx):
    pm = mod(PARSER)
    cx.consulted(pm)
    cx.explanation = (
        "the constant evaluator is evaluated on a complete small expression grammar against Python's values; what reaches the firmware is decided on behaviour: prologues (integers, strings, lists) interpreted from the parsed IR vs CPython, scripts whose values depend on a run-time branch/loop/append for both sensor outcomes (trace equality), constant-environment probes of every device-call argument, literal-vs-variable uniformity and context-freedom of emission; ownership rules (no in-place mutation of environment values, scope copies, no module state). Values of arbitrary user programs are not computed."
    )
    evc = pm.func("_eval_const")
    # (report locations only: wherever the evaluator keeps its arms)
    ev = pm.funcs.get("_eval_const.ev") or evc
    ab = pm.funcs.get("_eval_const._apply_bin") or evc

    # ---- C03-EVAL-OPS ------------------------------------------------------------------------
    r = cx.rule("C03-EVAL-OPS", "the constant evaluator maps every Python operator to the operator.* function with Python's semantics (// -> floordiv, / -> truediv ...), unary/boolean/conditional arms select what Python selects, casts are the four safe casts", floor=12)
    # (binary and comparison operators are decided by value over a complete grid in C03-EVAL-SEM - wherever the evaluator
    # keeps its operator tables)
    # unary / boolean / conditional arms: decided on values (however the arms are written - if-chain, table, helper)
    for key_, src_ in (("unary[USub]", "-3"), ("unary[USub]", "-(2.5)"), ("unary[USub]", "-(-4)"), ("unary[UAdd]", "+3"), ("unary[UAdd]", "+(-2.5)"), ("unary[Not]", "not 0"), ("unary[Not]", "not 2"), ("unary[Not]", "not ''"),
                       ("ifexp/selects-body-when-true", "1 if 5 else 2"), ("ifexp/selects-body-when-true", "1 if 0 else 2"), ("ifexp/selects-body-when-true", "'a' if '' else 'b'"),
                       ("boolop[And]", "0 and 5"), ("boolop[And]", "3 and 5"), ("boolop[And]", "3 and 0 and 7"), ("boolop[Or]", "0 or 5"), ("boolop[Or]", "3 or 5"), ("boolop[Or]", "0 or 0 or 9")):
        try:
            o_ = dl.Interp(pm, opaque={"ast.parse": ast.parse}).call(evc, [src_, {}])
        except dl.Unsupported as e:
            raise AnalysisError(f"_eval_const left the evaluable subset on `{src_}`: {e}")
        want_ = eval(src_, {"__builtins__": {}})
        # (and/or may be folded to their truth value: the type side of that is C02's known boolop finding)
        ok_ = o_.kind == "raise" or o_.value == want_ or (key_.startswith("boolop") and bool(o_.value) == bool(want_))
        r.check(ok_, f"_eval_const.{key_}", (pm, ev), f"_eval_const({src_!r}) -> {o_!r}; Python gives {want_!r}", sample=f"{src_} -> {want_!r}")

    # ---- C03-EVAL-SEM ------------------------------------------------------------------------
    import itertools
    r = cx.rule("C03-EVAL-SEM", "the constant evaluator computes what Python computes: for every expression of a small complete grammar (all operators, chained comparisons, boolean/conditional forms, safe builtins over int/float/bool/str operands, names bound in the environment) _eval_const, evaluated by the checker's interpreter, returns exactly Python's value and type, or declines", floor=3000, exhaustive=True)
    nums = ["0", "1", "2", "3", "-3", "2.5", "-0.5", "True", "False"]
    strs = ["'ab'", "''"]
    exprs = []
    for o in ("+", "-", "*", "/", "//", "%", "**", "<<", ">>", "&", "|", "^"):
        for a, b in itertools.product(nums, nums):
            exprs.append(f"({a}) {o} ({b})")
    exprs += [f"{a} + {b}" for a in strs for b in strs] + [f"{a} * {b}" for a in strs for b in ("0", "2")]
    for o in ("-", "+", "not ", "~"):
        exprs += [f"{o}({a})" for a in nums + strs]
    cmp_ops = ("<", "<=", ">", ">=", "==", "!=")
    for o in cmp_ops:
        exprs += [f"({a}) {o} ({b})" for a, b in itertools.product(nums, nums)]
        exprs += [f"{a} {o} {b}" for a, b in itertools.product(strs + ["'b'"], strs + ["'b'"])]
    for o1, o2 in itertools.product(cmp_ops, cmp_ops):
        exprs += [f"{a} {o1} {b} {o2} {c}" for a, b, c in itertools.product(("1", "3", "5"), repeat=3)]
    exprs += [f"1 < {b} < {c} <= {d}" for b, c, d in itertools.product(("0", "2", "4"), repeat=3)]
    for o1, o2 in itertools.product(("and", "or"), repeat=2):
        exprs += [f"{a} {o1} {b} {o2} {c}" for a, b, c in itertools.product(("0", "1", "2", "''", "'x'"), repeat=3)]
    exprs += [f"({a}) if ({c}) else ({b})" for a, b, c in itertools.product(("1", "2.5", "'s'"), ("0", "'t'"), ("0", "1", "''", "2.5"))]
    for fn_ in ("abs", "int", "float", "str", "bool", "len", "round"):
        exprs += [f"{fn_}({a})" for a in nums + strs + ["'7'", "'1.5'", "x", "s", "l"]]
    for fn_ in ("min", "max"):
        exprs += [f"{fn_}({a}, {b})" for a, b in itertools.product(nums, nums)]
    exprs += ["x + 1", "x * y", "s + s", "len(s) + x", "l[0]", "l[-1]", "len(l)", "x if y else s", "x < y < 10", "y < x < 10", "-x", "not x", "x ** 2", "x // 2", "x / 2", "x % 2", "(x + y) * 2 - 1", "2 + 3 * 4", "(2 + 3) * 4", "2 ** 3 ** 2", "-2 ** 2", "10 - 4 - 3", "100 / 10 / 5", "7 // 2 * 2", "1 + 2 < 4", "not 1 < 2", "1 < 2 and 2 < 1", "1 if 1 < 5 < 3 else 2"]
    env_src = {"x": 3, "y": 0, "s": "abc", "l": [1, 2, 3]}
    n_bad = n_decl = 0
    for e in exprs:
        try:
            want = ("ok", eval(e, {"__builtins__": {"abs": abs, "int": int, "float": float, "str": str, "bool": bool, "len": len, "round": round, "min": min, "max": max}}, dict(env_src)))
        except Exception as ex_:
            continue   # the expression has no value in Python: out of the property's scope
        it = dl.Interp(pm, opaque={"ast.parse": ast.parse, "ast.walk": lambda n_: list(ast.walk(n_)), "ast.iter_child_nodes": lambda n_: list(ast.iter_child_nodes(n_))})
        try:
            out = it.call(evc, [e, {k: (list(v) if isinstance(v, list) else v) for k, v in env_src.items()}])
        except dl.Unsupported as ex_:
            raise AnalysisError(f"_eval_const left the evaluable subset on `{e}`: {ex_}")
        if out.kind == "raise":
            n_decl += 1
            r.ok(None)      # declined: nothing is folded
            continue
        # same value, and the same kind of literal (an int baked as 2.0 or a str as a number would change the C++ arithmetic);
        # bool vs int is not distinguished: True == 1 is the same value
        kind_ = lambda v: "float" if isinstance(v, float) else "int" if isinstance(v, (bool, int)) else type(v).__name__
        good = want[0] == "ok" and out.kind == "return" and kind_(out.value) == kind_(want[1]) and out.value == want[1]
        if good:
            r.ok(None)
        else:
            n_bad += 1
            if n_bad <= 12:
                top_ = ast.parse(e, mode="eval").body
                kind_key = ("chained-comparison" if len(top_.ops) > 1 else f"compare[{type(top_.ops[0]).__name__}]") if isinstance(top_, ast.Compare) else f"binop[{type(top_.op).__name__}]" if isinstance(top_, ast.BinOp) else f"unary[{type(top_.op).__name__}]" if isinstance(top_, ast.UnaryOp) else f"boolop[{type(top_.op).__name__}]" if isinstance(top_, ast.BoolOp) else f"call[{top_.func.id}]" if isinstance(top_, ast.Call) and isinstance(top_.func, ast.Name) else type(top_).__name__.lower()
                r.fail(f"_eval_const/value[{kind_key}]", (pm, evc), f"_eval_const({e!r}) folds to {out.value!r} ({type(out.value).__name__}); Python gives {want[1]!r}" + ("" if want[0] == "ok" else " (raises)"), detail={"expr": e})
            else:
                r.stat.obligations += 1
                r.stat.failed += 1
    cx.extra["eval_sem"] = {"expressions": len(exprs), "declined": n_decl}

    rule_flow_scripts(cx, "C03")

    # ---- C03-ENV-WRITE -----------------------------------------------------------------------
    # what the environment receives is decided by evaluation (C03-GLOBAL-INIT: swaps, re-assignments, augmented assignments,
    # list bookkeeping read back through len() folds); here only the ownership part: an object held in the environment is
    # shared with every scope the environment was copied into, so it must not be mutated in place
    r = cx.rule("C03-ENV-WRITE", "no list object held in the constant environment is mutated in place while parsing (append/remove/pop/extend/insert/clear/sort/reverse on a value looked up in the environment): the object is shared with the scopes it was copied into", floor=40)
    for q, fn in pm.funcs.items():
        loc = Locals(fn)
        hit = None
        for c in walk_local(fn, include_self=False):
            if isinstance(c, ast.Call) and isinstance(c.func, ast.Attribute) and c.func.attr in ("append", "remove", "pop", "extend", "insert", "clear", "sort", "reverse") and isinstance(c.func.value, ast.Name):
                ds = loc.defs.get(c.func.value.id, [])
                if any(isinstance(d, ast.Call) and isinstance(d.func, ast.Attribute) and d.func.attr == "get" and is_env(d.func.value) for d in ds) or any(isinstance(d, ast.Subscript) and is_env(d.value) for d in ds):
                    hit = c
                    break
        if hit is None:
            r.ok(f"{q}: no in-place mutation of environment values")
        else:
            r.fail(f"{q}/tracked-list-mutation", (pm, hit), f"`{stmt_key(hit)}` mutates a list object held in the constant environment while parsing: the object is shared with the scopes it was copied into and the mutation is applied once regardless of how often the statement runs", construct=stmt_key(hit, 200))

    # ---- C03-SCOPE-COPY ----------------------------------------------------------------------
    r = cx.rule("C03-SCOPE-COPY", "every child scope handed to the statement parser copies vars / var_types / var_declared (dict(...)/set(...)), never aliases the parent's", floor=12)
    for q, fn in pm.funcs.items():
        for c in walk_local(fn, include_self=False):
            if isinstance(c, ast.Call) and call_name(c) == "_parse_simple_lines" and len(c.args) >= 2 and isinstance(c.args[1], ast.Name) and c.args[1].id != "ctx":
                cname = c.args[1].id
                loc = Locals(fn)
                # the context is either built in this function or returned by a local factory
                builders = []
                for d in loc.defs.get(cname, []):
                    if isinstance(d, ast.Call) and isinstance(d.func, ast.Name) and (f"{q}.{d.func.id}" in pm.funcs or d.func.id in pm.funcs):
                        # a factory (nested or module level): the scope is the value it returns
                        bfn_ = pm.funcs.get(f"{q}.{d.func.id}") or pm.funcs[d.func.id]
                        rets = {r_.value.id for r_ in walk_local(bfn_) if isinstance(r_, ast.Return) and isinstance(r_.value, ast.Name)}
                        for rv_ in sorted(rets):
                            builders.append((bfn_, rv_))
                    elif isinstance(d, ast.Call) and norm(d) == "dict(ctx)":
                        builders.append((fn, cname))
                if not builders:
                    raise AnalysisError(f"{q}: construction of child context `{cname}` not recognised")
                for bfn, var in builders:
                    for key, ctor in (("vars", "dict"), ("var_types", "dict"), ("var_declared", "set")):
                        stores = [n for n in walk_local(bfn, include_self=False) if isinstance(n, ast.Assign) and isinstance(n.targets[0], ast.Subscript) and norm(n.targets[0].value) == var and lit.try_ev(n.targets[0].slice) == key]
                        okc = bool(stores) and all(isinstance(Locals(bfn).resolve(s.value), ast.Call) and call_name(Locals(bfn).resolve(s.value)) == ctor for s in stores)
                        r.check(okc, f"{q}/{var}[{key}]-copied", (pm, stores[0] if stores else c), f"child scope `{var}` does not take a fresh {ctor}() copy of `{key}`: assignments inside the block would leak into (or be leaked into by) the enclosing scope", sample=f"{q}: {var}[{key}] = {ctor}(...)")

    rule_global_init(cx, "C03-GLOBAL-INIT")

    ha = pm.func("_handle_assignment_ast")
    loc = Locals(ha)
    # ---- C03-LIST-SIZE -----------------------------------------------------------------------
    r = cx.rule("C03-LIST-SIZE", "re-assigning a declared list with a statically different length is rejected (the tracked length feeds folded len())", floor=1)
    found = list_size_guard_ok(pm)
    r.check(found, "_handle_assignment_ast/list-size-mismatch-rejected", (pm, ha), "the size-mismatch rejection for re-assigned lists is gone: the statically tracked length (used to fold len()) can become stale")


    # ---- C03-STATE ---------------------------------------------------------------------------
    # a fold is a function of the expression text and the environment at that program point only: the parser keeps no
    # module-level memo through which an earlier statement's (mutable) value could be handed out again
    from . import c10
    c10.rule_global_state(cx, "C03-STATE", [pm], floor=1, only={"_eval_const", "_to_c_expr", "_expr_has_name", "_handle_assignment_ast"})
    # ... decided on behaviour as well: scripts with tracked, mutated literals transpiled repeatedly in one simulated process
    c10.rule_interleave(cx, "C03-INTERLEAVE")

    # ---- C03-FRESH ---------------------------------------------------------------------------
    r = cx.rule("C03-FRESH", "a list baked into an IR node (flash pattern, glyph bitmap) is a fresh object built for that statement, never the list tracked in the constant environment: a later append/remove on the script's list cannot rewrite a value already baked", floor=2)
    psl = pm.func("_parse_simple_lines")
    evaluator_no_alias(r, pm)

    def fresh(e, fn, depth=0):
        """None if fresh, else the reason text"""
        if depth > 6:
            return "too deep to resolve"
        if isinstance(e, (ast.List, ast.ListComp, ast.Tuple, ast.Constant)):
            return None
        if isinstance(e, ast.Call):
            cn = call_name(e)
            if cn in ("list", "tuple", "sorted") or (isinstance(e.func, ast.Attribute) and e.func.attr == "copy"):
                return None
            callee = None
            if isinstance(e.func, ast.Name):
                q = pm.qualname_of(fn)
                while q and callee is None:
                    callee = pm.funcs.get(f"{q}.{e.func.id}")
                    q = q.rpartition(".")[0]
                callee = callee or pm.funcs.get(e.func.id)
            if callee is None:
                return f"`{norm(e)}` is an opaque call"
            for rt in [x for x in walk_local(callee) if isinstance(x, ast.Return)]:
                if rt.value is None:
                    continue
                why = fresh(rt.value, callee, depth + 1)
                if why:
                    return f"{callee.name}() can return {why}"
            return None
        if isinstance(e, ast.Name):
            lf = Locals(fn)
            if e.id in lf.params:
                return f"its argument `{e.id}` unchanged"
            defs = [d for d in lf.defs.get(e.id, []) if isinstance(d, ast.expr)]
            if not defs:
                return f"`{e.id}` (no local definition)"
            for d in defs:
                why = fresh(d, fn, depth + 1)
                if why:
                    return why
            return None
        return f"`{norm(e)}`"

    n_f = 0
    for c in walk_local(psl):
        if isinstance(c, ast.Call) and call_name(c) in ("LedFlashPattern", "LCDGlyph"):
            fld = "pattern" if call_name(c) == "LedFlashPattern" else "bitmap"
            v = next((k.value for k in c.keywords if k.arg == fld), None)
            if v is None:
                raise AnalysisError(f"{call_name(c)}(...) built without {fld}=")
            n_f += 1
            why = fresh(v, psl)
            r.check(why is None, f"{call_name(c)}.{fld}/fresh-list", (pm, c), f"`{norm(v)}` may be {why}: the node would share the list object tracked for the script's variable, and a later mutation rewrites the value baked for this statement")
    if n_f < 2:
        raise AnalysisError("LedFlashPattern/LCDGlyph constructions not found in the parser")

    # ---- C03-CONTEXT-FREE / C03-LITERAL-UNIFORM --------------------------------------------------
    from . import c08
    c08.rule_compositional(cx, "C03-CONTEXT-FREE")
    rule_literal_uniform(cx, "C03-LITERAL-UNIFORM")
    rule_resolver_values(cx, "C03-RESOLVE")

    # ---- C03-PER-NODE ------------------------------------------------------------------------
    from .. import l2, pe
    em = mod("transpile/emitter.py")
    cx.consulted(em)
    cls, _f = pe.ir_classes()
    r = cx.rule("C03-PER-NODE", "each statement's baked table reaches the firmware: two flash patterns / two glyphs (same slot, same device, same block) with different values are both emitted with their own values, in order", floor=4)
    for place in ("setup", "loop"):
        g1, g2 = [14, 17, 17, 17, 14, 0, 0, 1], [14, 31, 31, 31, 14, 0, 0, 2]
        nodes = [l2.lcd_decl("i2c"), cls["LCDGlyph"](name="dev", slot=0, bitmap=g1), cls["LCDGlyph"](name="dev", slot=0, bitmap=g2)]
        res = pe.emit_program(setup=nodes) if place == "setup" else pe.emit_program(setup=nodes[:1], loop=nodes[1:])
        t = res.text or ""
        a, b = t.find(", ".join(map(str, g1))), t.find(", ".join(map(str, g2)))
        r.check(not res.raised and 0 <= a < b and t.count("createChar(") == 2, f"LCDGlyph/both-bitmaps-emitted@{place}", (em, em.func("_emit_block")), f"two glyph() calls for slot 0 with different bitmaps in {place}: the firmware must program {g1} then {g2}")
        # a device name bound again to another pin: commands before the re-declaration drive the old pin, later ones the new
        nodes = [cls["LedDecl"](name="dev", pin=5), cls["LedOn"](name="dev"), cls["LedDecl"](name="dev", pin=6), cls["LedOn"](name="dev")]
        res = pe.emit_program(setup=nodes) if place == "setup" else pe.emit_program(setup=nodes[:1], loop=nodes[1:])
        t = res.text or ""
        w5, w6 = t.find("digitalWrite(5, HIGH)"), t.find("digitalWrite(6, HIGH)")
        r.check(not res.raised and 0 <= w5 < w6, f"LedDecl/redeclared-pin-used-from-there-on@{place}", (em, em.func("_emit_block")), f"`led = Led(5); led.on(); led = Led(6); led.on()` in {place}: the first on() must drive pin 5 and the second pin 6 (found at offsets {w5}, {w6})")
        p1, p2 = [1, 0], [0, 1, 1]
        nodes = [l2.decl_node("Led"), cls["LedFlashPattern"](name="dev", pattern=p1, delay_ms=5), cls["LedFlashPattern"](name="dev", pattern=p2, delay_ms=5)]
        res = pe.emit_program(setup=nodes) if place == "setup" else pe.emit_program(setup=nodes[:1], loop=nodes[1:])
        t = res.text or ""
        a, b = t.find("{" + ", ".join(map(str, p1)) + "}"), t.find("{" + ", ".join(map(str, p2)) + "}")
        r.check(not res.raised and 0 <= a < b, f"LedFlashPattern/both-patterns-emitted@{place}", (em, em.func("_emit_block")), f"two flash_pattern() calls in {place} must bake {p1} then {p2}")


def m_enclosing(pm, node):
    return pm.enclosing_func(node)


_C_ISMS = (
    (re.compile(r"__redu_make_list<[^<>]*>\("), "__redu_make_list("),
    (re.compile(r"__redu_list<[^<>]*>\(\)"), "__redu_make_list()"),
    (re.compile(r"static_cast<(?:int|long|unsigned long|float|double)>\("), "__cast("),
    (re.compile(r"(\b[A-Za-z_]\w*)\.length\(\)"), r"len(\1)"),
    (re.compile(r"\bString\("), "str("),
)


def _list_remove(lst, v):
    if v in lst:
        lst.remove(v)


_IR_BUILTINS = {
    "__redu_make_list": lambda *a: list(a), "__cast": lambda v: v, "__redu_len": len, "len": len, "str": str,
    "__redu_list_get": lambda l, i: l[i], "__redu_list_append": lambda l, v: l.append(v), "__redu_list_remove": _list_remove,
    "__redu_list_assign": lambda d_, s_: d_.__setitem__(slice(None), list(s_)),
    "max": max, "min": min, "abs": abs,
}


def _ir_eval(e_, env):
    if isinstance(e_, (int, float)):
        return e_
    t = str(e_).replace("&&", " and ").replace("||", " or ").replace("!(", " not (").replace("true", "True").replace("false", "False")
    for rx_, rep in _C_ISMS:
        t = rx_.sub(rep, t)
    return eval(t, {"__builtins__": {}, **_IR_BUILTINS}, env)


def _ir_exec(nodes, env, budget):
    """straight interpretation of the integer/string/list fragment of the IR (assignments, declarations, list helper
    statements, if/while/for-range)"""
    for n in nodes:
        budget[0] -= 1
        if budget[0] < 0:
            raise AnalysisError("prologue interpretation did not terminate")
        cn = type(n).__name__
        ev = lambda e_: _ir_eval(e_, env)
        if cn in ("VarAssign", "VarDecl"):
            env[n.name] = ev(n.expr)
        elif cn == "IfStatement":
            for br in n.branches:
                if ev(br.condition):
                    _ir_exec(br.body, env, budget)
                    break
            else:
                _ir_exec(n.else_body or [], env, budget)
        elif cn == "WhileLoop":
            while ev(n.condition):
                _ir_exec(n.body, env, budget)
        elif cn == "ForRangeLoop":
            for i_ in range(int(ev(n.count))):
                env[n.var_name] = i_
                _ir_exec(n.body, env, budget)
        elif cn == "ExprStmt" and str(n.expr).lstrip().startswith("__redu_list_"):
            ev(n.expr)
        elif cn in ("Sleep", "ExprStmt", "LedDecl", "LedOn", "LedOff"):
            continue
        else:
            raise AnalysisError(f"prologue interpretation met an unexpected {cn} node")


class Reads:
    """scripted analogue source: successive reads return successive values 13, 23, 33, ...; counts the reads"""
    def __init__(self):
        self.n = 0

    def read(self, *a):
        self.n += 1
        return 10 * self.n + 3


def eval_prologue(label, body, pot=False):
    """partial evaluation of parse() on `body` (+ an idle main loop); returns (status, want, got, note, program) where
    status is 'rejected' (note = exception name) or 'ok'; `want` = what Python's execution of the prologue leaves in its
    int/str/list variables, `got` = what static initialisers followed by setup() leave (IR interpreted)"""
    from .. import pe as pe_
    src = ("from Reduino.Sensors import Potentiometer\npot = Potentiometer('A0')\n" if pot else "") + body + "while True:\n    a0 = 0\n"
    py_src = Reads()
    genv = {"__builtins__": {"range": range, "len": len, "max": max, "min": min, "abs": abs}, "pot": py_src}
    exec(compile(body, f"<prologue {label}>", "exec"), genv)     # the checker's own script
    want = {k: v for k, v in genv.items() if isinstance(v, (int, float, str, list)) and not isinstance(v, bool) and not k.startswith("__")}
    try:
        _it, out = pe_.parse_source(src)
    except dl.Unsupported as e:
        raise AnalysisError(f"parse() left the evaluable subset on prologue `{label}`: {e}")
    if out.kind != "return":
        return "rejected", want, None, str(out.value), None
    prog = out.value
    ir_src = Reads()
    env = {"analogRead": ir_src.read, "A0": 0}
    note = ""
    try:
        for d in list(prog.global_decls):
            env[d.name] = _ir_eval(d.expr, dict(env))
        _ir_exec([n for n in prog.setup_body if not type(n).__name__.endswith("Decl") or type(n).__name__ == "VarDecl"], env, [10000])
        got = {k: env.get(k) for k in want}
    except (NameError, SyntaxError, TypeError, ZeroDivisionError, IndexError, AttributeError, ValueError) as e:
        got, note = None, f" (static initialisers/setup could not be evaluated: {type(e).__name__}: {e})"
    if pot and got is not None and ir_src.n != py_src.n:
        note += f" (sensor reads: Python {py_src.n}, firmware {ir_src.n})"
        got = dict(got, __reads__=ir_src.n)
        want = dict(want, __reads__=py_src.n)
    return "ok", want, got, note, prog


class _Dev:
    """recording stand-in for a Reduino device in the checker's own execution of a script"""
    def __init__(self, kind, trace, reads=None):
        self.kind, self.trace, self.reads = kind, trace, reads

    def read(self):
        return self.reads.read()

    def write(self, value):
        self.trace.append(("write", value if not isinstance(value, bool) else int(value)))

    def flash_pattern(self, pattern, delay_ms=200):
        self.trace.append(("flash", [int(x) for x in pattern], delay_ms))

    def blink(self, duration_ms, times=1):
        self.trace.append(("blink", duration_ms, times))

    def glyph(self, slot, bitmap):
        self.trace.append(("glyph", slot, [int(x) & 31 for x in bitmap]))

    def set_brightness(self, value):
        self.trace.append(("brightness", value))


class _Sched:
    def __init__(self, values):
        self.values, self.n = list(values), 0

    def read(self, *a):
        v = self.values[min(self.n, len(self.values) - 1)]
        self.n += 1
        return v


FLOW_HEAD = ("from Reduino.Utils import sleep\nfrom Reduino.Actuators import Led\nfrom Reduino.Sensors import Potentiometer\nfrom Reduino.Displays import LCD\nfrom Reduino.Communication import SerialMonitor\n"
             "led = Led(13)\npot = Potentiometer('A0')\nlcd = LCD(i2c_addr=0x27)\nmon = SerialMonitor(9600)\n")
FLOW_SCRIPTS = {
    # label: (body after the device declarations, number of loop passes)
    "len-of-string-after-branch": ("s = 'ab'\nif pot.read() > 5:\n    s = 'abcdef'\nn = len(s)\nwhile True:\n    mon.write(len(s))\n", 1),
    "flash-pattern-after-branch": ("p = [1, 0]\nif pot.read() > 5:\n    p = [0, 1]\nled.flash_pattern(p)\nwhile True:\n    z0 = 0\n", 1),
    "glyph-rows-after-branch": ("a = 1\nif pot.read() > 5:\n    a = 2\nlcd.glyph(0, [a, a, a, a, a, a, a, a])\nwhile True:\n    z0 = 0\n", 1),
    "append-in-loop-then-len": ("xs = [1]\nwhile True:\n    xs.append(3)\n    n = len(xs)\n    mon.write(n)\n", 3),
    "append-in-branch-then-len": ("xs = [1]\nif pot.read() > 5:\n    xs.append(2)\nn = len(xs)\nwhile True:\n    mon.write(n)\n", 1),
    "append-of-branch-value-then-pattern": ("xs = [1, 0]\nv = 1\nif pot.read() > 5:\n    v = 0\nxs.append(v)\nled.flash_pattern(xs)\nwhile True:\n    z0 = 0\n", 1),
    "augmented-string-in-loop-then-len": ("s = 'ab'\nwhile True:\n    s += 'c'\n    n = len(s)\n    mon.write(n)\n", 3),
    "blink-argument-after-branch": ("d = 100\nif pot.read() > 5:\n    d = 500\nled.blink(d, 3)\nwhile True:\n    led.blink(d)\n", 1),
    "brightness-argument-after-loop": ("b = 10\nfor i in range(3):\n    b = b + 20\nled.set_brightness(b)\nwhile True:\n    led.set_brightness(b + 1)\n", 1),
    "flash-pattern-then-append": ("xs = [1, 0, 1]\nled.flash_pattern(xs)\nxs.append(0)\nled.flash_pattern(xs)\nwhile True:\n    z0 = 0\n", 1),
    "sleep-argument-after-branch": ("pause = 100\nif pot.read() > 5:\n    pause = 700\nsleep(pause)\nwhile True:\n    sleep(pause)\n    pause = pause + 1\n", 2),
    "serial-write-after-branch": ("k = 3\nif pot.read() > 5:\n    k = 4\nmon.write(k * 2)\nwhile True:\n    mon.write(k + 1)\n", 1),
    "counter-in-loop": ("count = 0\nwhile True:\n    count = count + 1\n    mon.write(count * 2)\n", 3),
    "len-of-string-after-while": ("s = 'a'\nn = 0\nwhile n < 2:\n    s = s + 'b'\n    n = n + 1\nwhile True:\n    mon.write(len(s))\n", 1),
}


def _ir_trace(prog, reads, passes):
    """device commands the IR performs (values computed by the IR interpreter) for `passes` loop passes"""
    trace = []
    env = {"analogRead": reads.read, "A0": 0}

    def run(nodes):
        for n_ in nodes:
            cn = type(n_).__name__
            ev = lambda e_: _ir_eval(e_, env)
            if cn == "SerialWrite":
                v = ev(n_.value)
                trace.append(("write", int(v) if isinstance(v, bool) else v))
            elif cn == "LedFlashPattern":
                trace.append(("flash", [int(x) for x in n_.pattern], ev(n_.delay_ms)))
            elif cn == "LedBlink":
                trace.append(("blink", ev(n_.duration_ms), ev(n_.times)))
            elif cn == "LCDGlyph":
                trace.append(("glyph", ev(n_.slot), [int(x) & 31 for x in n_.bitmap]))
            elif cn == "LedSetBrightness":
                trace.append(("brightness", ev(n_.value)))
            elif cn == "Sleep":
                trace.append(("sleep", ev(n_.ms)))
            elif cn == "IfStatement":
                for br in n_.branches:
                    if ev(br.condition):
                        run(br.body)
                        break
                else:
                    run(n_.else_body or [])
            elif cn == "WhileLoop":
                guard = 0
                while ev(n_.condition):
                    run(n_.body)
                    guard += 1
                    if guard > 1000:
                        raise AnalysisError("script interpretation did not terminate")
            elif cn == "ForRangeLoop":
                for i_ in range(int(ev(n_.count))):
                    env[n_.var_name] = i_
                    run(n_.body)
            elif cn.endswith("Decl") and cn != "VarDecl":
                continue
            else:
                _ir_exec([n_], env, [10000])
    for d in list(prog.global_decls):
        env[d.name] = _ir_eval(d.expr, dict(env))
    run(list(prog.setup_body))
    for _ in range(passes):
        run(list(prog.loop_body))
    return trace


def rule_flow_scripts(cx, prefix):
    """flow-insensitive folding decided on behaviour: scripts in which a value depends on a run-time branch, a loop or an
    earlier mutation are run twice by the checker - CPython on recording device stubs, and the IR interpreter on the parsed
    program - for both outcomes of the sensor reading; the device commands (serial values, blink/brightness arguments, flash
    patterns, glyph rows) must be the same"""
    from .. import pe as pe_
    pm = mod(PARSER)
    pf = pm.func("parse")
    r = cx.rule(f"{prefix}-FLOW", "for scripts whose values depend on a run-time branch, a loop or an earlier append (len() of strings and lists, flash patterns, glyph rows, blink/brightness/serial arguments) and for both outcomes of the sensor reading: the device commands computed by the parsed IR equal the commands CPython's execution of the script issues - nothing is baked from a stale constant environment", floor=13)
    for label, (body, passes) in FLOW_SCRIPTS.items():
        src = FLOW_HEAD + body
        try:
            _it, out = pe_.parse_source(src)
        except dl.Unsupported as e:
            raise AnalysisError(f"parse() left the evaluable subset on flow script `{label}`: {e}")
        if out.kind != "return":
            r.check(out.value == "ValueError", f"flow[{label}]", (pm, pf), f"flow script `{label}`: parse() raises {out.value}", sample=f"{label}: refused")
            continue
        why = None
        for reading in (0, 1000):
            py_trace = []
            sched = _Sched([reading])
            genv = {"__builtins__": {"range": range, "len": len}, "sleep": (lambda ms, _t=py_trace: _t.append(("sleep", ms))), "led": _Dev("led", py_trace), "lcd": _Dev("lcd", py_trace), "mon": _Dev("mon", py_trace), "pot": _Dev("pot", py_trace, sched)}
            code = re.sub(r"^while True:\s*$", f"for __pass in range({passes}):", body, flags=re.M)
            exec(compile(code, f"<flow {label}>", "exec"), genv)     # the checker's own script on recording stubs
            try:
                ir_trace = _ir_trace(out.value, _Sched([reading]), passes)
            except (NameError, SyntaxError, TypeError, ZeroDivisionError, IndexError, AttributeError, ValueError) as e:
                why = f"sensor reading {reading}: the IR could not be interpreted ({type(e).__name__}: {e})"
                break
            if ir_trace != py_trace:
                i_ = next((i for i, (a_, b_) in enumerate(zip(ir_trace, py_trace)) if a_ != b_), min(len(ir_trace), len(py_trace)))
                why = f"sensor reading {reading}: command #{i_ + 1} is {ir_trace[i_] if i_ < len(ir_trace) else 'missing'} in the firmware and {py_trace[i_] if i_ < len(py_trace) else 'missing'} in Python"
                break
        r.check(why is None, f"flow[{label}]", (pm, pf), f"flow script `{label}`: {why}", sample=f"{label}: traces equal for both readings")
    # every argument position of every device call: a variable that holds a constant and is re-assigned under a run-time branch
    # must reach the IR as that variable
    from .. import bindeval
    from ..src import func_params
    from . import c08
    tasks, meta = [], []
    for cls_ in sorted(c08.HOST):
        if cls_.endswith("Decl"):
            continue
        hfile, hcls, hfn = c08.HOST[cls_]
        hm = mod(hfile)
        cx.consulted(hm)
        params = func_params(hm.func(f"{hcls}.{hfn}" if hcls else hfn))
        if hcls:
            params = params[1:]
        if not params or any(p_[1] in ("vararg", "kwarg") for p_ in params):
            continue
        posable = tuple(p_[0] for p_ in params if p_[1] in ("pos", "posonly") and p_[0] not in c08.HOST_ONLY)
        kws = tuple(sorted(p_[0] for p_ in params if p_[1] == "kwonly" and p_[0] not in c08.HOST_ONLY))
        order = tuple(p_[0] for p_ in params)
        tasks.append((cls_, hcls, hfn, posable, len(posable), kws, order, frozenset({"__const_env__"})))
        meta.append(cls_)
    for cls_, (kind, val, desc, src) in zip(meta, bindeval.evaluate(tasks)):
        call_txt = src.strip().split("\n")[-1]
        if kind == "error":
            raise AnalysisError(f"parse() left the evaluable subset on `{call_txt}`: {val}")
        if kind != "node":
            r.ok(f"{cls_}: {kind}")
            continue
        for pn, d_ in sorted(desc.items()):
            if d_[0] != "var":
                continue
            holders = [f_ for f_, v_ in val.items() if isinstance(v_, str) and d_[1] in re.findall(r"\bz_\w+\b", v_)]
            folded = [f_ for f_, v_ in val.items() if not isinstance(v_, bool) and isinstance(v_, (int, float)) and v_ in (21 + sorted(n_ for n_ in {x[1] for x in desc.values() if x[0] == "var"}).index(d_[1]), 121 + sorted(n_ for n_ in {x[1] for x in desc.values() if x[0] == "var"}).index(d_[1]))]
            r.check(bool(holders) or not folded, f"flow-arg[{cls_}.{pn}]", (pm, pf), f"`{call_txt}` after `{d_[1]} = <constant>` re-assigned under a run-time branch: IR field(s) {folded} carry the number instead of the variable - the value was folded from the flow-insensitive constant environment", sample=f"{cls_}.{pn}: stays `{d_[1]}`")
    return r


def rule_global_init(cx, rid):
    """integer prologues through parse() (partial evaluation): the global declarations (static initialisers, evaluated in
    definition order before anything runs) followed by the setup statements must leave every variable with the value the
    Python prologue leaves it - however the bake-or-assign decision is written"""
    pm = mod(PARSER)
    cx.consulted(pm)
    from .. import pe as pe_
    r = cx.rule(rid, "for a family of integer prologues (re-assignment before a dependent definition, dependence through if/for/while blocks, tuple assignment, chains) the values left by `static initialisers, then setup()` equal the values Python leaves: an initialiser is only baked when doing so cannot read a stale value", floor=8, exhaustive=True)
    pf = pm.func("parse")
    scripts = {
        "plain-constants": "a = 5\nb = 7\n",
        "dependent-after-reassignment": "a = 1\na = 2\nb = a + 1\n",
        "dependent-no-reassignment": "a = 2\nb = a * 10\nc = b - a\n",
        "reassigned-from-itself": "base = 4\nbase = base * 3\nscale = base + 1\n",
        "after-for-loop": "count = 0\nfor i in range(3):\n    count = count + 1\ntotal = count * 10\n",
        "after-if-block": "level = 1\nif level > 0:\n    level = 6\ngain = level * 10 + 1\n",
        "after-while-loop": "n = 0\nwhile n < 4:\n    n = n + 2\nm = n + 100\n",
        "tuple-of-constants": "a, b = 3, 4\nc = a + b\n",
        "tuple-after-reassignment": "x = 5\nx = 7\np, q = x, x + 1\n",
        "swap": "lo, hi = 1, 9\nlo, hi = hi, lo\nspan = lo - hi\n",
        "chain": "a = 1\nb = a + 1\na = 10\nc = a + b\n",
        "else-branch": "k = 0\nif k > 5:\n    k = 1\nelse:\n    k = 2\nj = k + 40\n",
        # what the constant environment holds is read back by len() folds: strings and lists
        "string-swap-len": 'short = "ab"\nlonger = "abcdef"\nshort, longer = longer, short\nn_short = len(short)\nn_longer = len(longer)\n',
        "string-reassigned-len": 's = "ab"\ns = "abcd"\nn = len(s)\n',
        "string-augmented-len": 's = "ab"\ns += "cd"\nn = len(s)\n',
        "string-concat-len": 's = "ab"\nt = s + "xyz"\nn = len(t)\ns = "q"\nm = len(s) + len(t)\n',
        "tuple-with-len": 's = "abc"\nn, s = len(s), "x"\nm = len(s)\n',
        "list-swap-len": "xs = [1, 2, 3]\nys = [4]\nxs, ys = ys, xs\nn = len(xs)\nm = len(ys)\n",
        "list-remove-first-only": "pattern = [1, 0, 1, 0]\npattern.remove(0)\nn = len(pattern)\nk = pattern[1]\n",
        "list-append-len": "xs = [5]\nxs.append(6)\nxs.append(7)\nn = len(xs)\nlast = xs[2]\n",
        "list-append-remove": "xs = [5, 6]\nxs.append(5)\nxs.remove(5)\nn = len(xs)\nfirst = xs[0]\n",
        "counter-augmented": "count = 0\nfor i in range(3):\n    count += 2\nn = count * 2\n",
    }
    for label, body in scripts.items():
        st, want, got, why, prog = eval_prologue(label, body)
        if st != "ok":
            r.fail(f"prologue[{label}]/accepted", (pm, pf), f"the integer prologue `{label}` is rejected with {why}")
            continue
        decls = "; ".join(f"{d.c_type} {d.name} = {d.expr}" for d in list(prog.global_decls))
        r.check(got == want, f"prologue[{label}]/values-after-setup=python", (pm, pf), f"prologue `{label}`: Python leaves {want}; globals `{decls}` followed by setup() leave {got}{why}", sample=f"{label}: {want}")
    ehn = pm.func("_expr_has_name")
    safe = lit.table(pm, "_SAFE_NAME_REFERENCES")
    r.check(set(safe) <= {"len", "abs", "max", "min", "int", "float", "bool", "str"}, "_SAFE_NAME_REFERENCES/builtins-only", (pm.rel, pm.const("_SAFE_NAME_REFERENCES").lineno), f"names treated as 'not a name': {sorted(safe)}")
    for src_, want_ in (("x", True), ("1 + 2", False), ("len('ab')", False), ("abs(-1) + y", True), ("f(1)", True), ("[1, z]", True), ("max(1, 2)", False), ("-(3)", False), ("a.b", True), ("'s' * 2", False)):
        try:
            o_ = dl.Interp(pm, opaque={"ast.iter_child_nodes": lambda n_: list(ast.iter_child_nodes(n_)), "ast.walk": lambda n_: list(ast.walk(n_))}).call(ehn, [ast.parse(src_, mode="eval").body])
        except dl.Unsupported as e:
            raise AnalysisError(f"_expr_has_name left the evaluable subset: {e}")
        r.check(o_.kind == "return" and bool(o_.value) == want_, "_expr_has_name/reports-any-name-outside-the-safe-builtins", (pm, ehn), f"_expr_has_name(`{src_}`) -> {o_!r}, expected {want_}")
    return r

"""C08 - device calls bind arguments exactly like the Python signatures do."""
from __future__ import annotations

import ast
import itertools
import re

from .. import bind, dl, lit
from ..bind import ARGS, NONE, UNK, Def, Shape, Tok
from ..core import AnalysisError
from ..flow import PathFacts, split_and
from ..src import Locals, call_name, func_params, mod, norm, stmt_key, walk_local
from .c07 import find_dispatch_loop

PARSER = "transpile/parser.py"

# IR class -> (module, class or None, callable).  Confirmed by reading; one row per IR class that is
# constructed by a parser arm from a user call.
HOST = {
    "PotentiometerDecl": ("Sensors/Potentiometer.py", "Potentiometer", "__init__"),
    "ButtonDecl": ("Sensors/Button.py", "Button", "__init__"),
    "UltrasonicDecl": ("Sensors/Ultrasonic.py", None, "Ultrasonic"),
    "LCDDecl": ("Displays/LCD.py", "LCD", "__init__"),
    "LedDecl": ("Actuators/Led.py", "Led", "__init__"),
    "BuzzerDecl": ("Actuators/Buzzer.py", "Buzzer", "__init__"),
    "ServoDecl": ("Actuators/Servo.py", "Servo", "__init__"),
    "DCMotorDecl": ("Actuators/DCMotor.py", "DCMotor", "__init__"),
    "RGBLedDecl": ("Actuators/RGBLed.py", "RGBLed", "__init__"),
    "SerialMonitorDecl": ("Communication/SerialMonitor.py", "SerialMonitor", "__init__"),
    "RGBLedSetColor": ("Actuators/RGBLed.py", "RGBLed", "set_color"),
    "RGBLedOn": ("Actuators/RGBLed.py", "RGBLed", "on"),
    "RGBLedOff": ("Actuators/RGBLed.py", "RGBLed", "off"),
    "RGBLedFade": ("Actuators/RGBLed.py", "RGBLed", "fade"),
    "RGBLedBlink": ("Actuators/RGBLed.py", "RGBLed", "blink"),
    "LedOn": ("Actuators/Led.py", "Led", "on"),
    "LedOff": ("Actuators/Led.py", "Led", "off"),
    "LedToggle": ("Actuators/Led.py", "Led", "toggle"),
    "LedSetBrightness": ("Actuators/Led.py", "Led", "set_brightness"),
    "LedBlink": ("Actuators/Led.py", "Led", "blink"),
    "LedFadeIn": ("Actuators/Led.py", "Led", "fade_in"),
    "LedFadeOut": ("Actuators/Led.py", "Led", "fade_out"),
    "LedFlashPattern": ("Actuators/Led.py", "Led", "flash_pattern"),
    "BuzzerPlayTone": ("Actuators/Buzzer.py", "Buzzer", "play_tone"),
    "BuzzerStop": ("Actuators/Buzzer.py", "Buzzer", "stop"),
    "BuzzerBeep": ("Actuators/Buzzer.py", "Buzzer", "beep"),
    "BuzzerSweep": ("Actuators/Buzzer.py", "Buzzer", "sweep"),
    "BuzzerMelody": ("Actuators/Buzzer.py", "Buzzer", "melody"),
    "ServoWrite": ("Actuators/Servo.py", "Servo", "write"),
    "ServoWriteMicroseconds": ("Actuators/Servo.py", "Servo", "write_us"),
    "DCMotorSetSpeed": ("Actuators/DCMotor.py", "DCMotor", "set_speed"),
    "DCMotorBackward": ("Actuators/DCMotor.py", "DCMotor", "backward"),
    "DCMotorStop": ("Actuators/DCMotor.py", "DCMotor", "stop"),
    "DCMotorCoast": ("Actuators/DCMotor.py", "DCMotor", "coast"),
    "DCMotorInvert": ("Actuators/DCMotor.py", "DCMotor", "invert"),
    "DCMotorRamp": ("Actuators/DCMotor.py", "DCMotor", "ramp"),
    "DCMotorRunFor": ("Actuators/DCMotor.py", "DCMotor", "run_for"),
    "LCDWrite": ("Displays/LCD.py", "LCD", "write"),
    "LCDLine": ("Displays/LCD.py", "LCD", "line"),
    "LCDMessage": ("Displays/LCD.py", "LCD", "message"),
    "LCDClear": ("Displays/LCD.py", "LCD", "clear"),
    "LCDDisplay": ("Displays/LCD.py", "LCD", "display"),
    "LCDBacklight": ("Displays/LCD.py", "LCD", "backlight"),
    "LCDBrightness": ("Displays/LCD.py", "LCD", "brightness"),
    "LCDGlyph": ("Displays/LCD.py", "LCD", "glyph"),
    "LCDProgress": ("Displays/LCD.py", "LCD", "progress"),
    "LCDAnimate": ("Displays/LCD.py", "LCD", "animate"),
    "SerialWrite": ("Communication/SerialMonitor.py", "SerialMonitor", "write"),
    "Sleep": ("Utils/__init__.py", None, "sleep"),
}
# IR field -> host parameter where the names differ (one row each, confirmed by reading)
RENAME = {
    ("SerialMonitorDecl", "baud"): "baud_rate",
    ("ServoWriteMicroseconds", "pulse_us"): "pulse",
    ("DCMotorSetSpeed", "speed"): "value",
    ("BuzzerMelody", "melody"): "name",
    ("Sleep", "ms"): "duration",
}
# parameters that only exist for the host-side simulation and have no meaning on the device
HOST_ONLY = {"state_provider", "value_provider", "distance_provider", "default_distance", "sleep_func",
             "port", "timeout", "newline"}
# parameters selected/validated at value level rather than bound into a field (checked by C03/C15)
VALUE_LEVEL = {("UltrasonicDecl", "sensor"), ("UltrasonicDecl", "model")}
# fields whose content is computed from the argument's *value* (checked by C03), so the token is not visible
VALUE_FIELDS = {"LCDGlyph.bitmap", "LedFlashPattern.pattern"}
# IR fields that are not call parameters
NOT_PARAMS = {"name", "interface", "mode", "newline", "model"}


def host_rejects(cls, shape, params):
    """shapes the host body itself refuses (LCD wiring rules) - outside the property's quantifier"""
    if cls == "LCDDecl":
        pins = {"rs", "en", "d4", "d5", "d6", "d7"}
        given = set(shape.kws)
        if "i2c_addr" in given:
            return bool(given & (pins | {"rw"}))
        return not pins <= given
    return False


def shapes_for(params):
    """all (npos, keyword set) accepted by the signature, host-only parameters never passed"""
    posable = [p for p in params if p[1] in ("pos", "posonly")]
    out = []
    for npos in range(len(posable) + 1):
        if any(p[0] in HOST_ONLY for p in posable[:npos]):
            continue
        rest = [p for p in params if p not in posable[:npos] and p[1] in ("pos", "kwonly") and p[0] not in HOST_ONLY]
        req = {p[0] for p in rest if p[2] is None}
        opt = [p[0] for p in rest if p[2] is not None]
        for k in range(len(opt) + 1):
            for sub in itertools.combinations(opt, k):
                out.append(Shape(npos, frozenset(req | set(sub))))
    return out


def expected(params, shape):
    """parameter -> Tok / Def(default) per Python's binding rules"""
    posable = [p for p in params if p[1] in ("pos", "posonly")]
    exp = {}
    for i, p in enumerate(posable[: shape.npos]):
        exp[p[0]] = Tok("P", i)
    for p in params:
        if p[0] in exp or p[0] in HOST_ONLY:
            continue
        if p[0] in shape.kws:
            exp[p[0]] = Tok("K", p[0])
        else:
            d = lit.try_ev(p[2], default="<nonliteral>") if p[2] is not None else "<required>"
            exp[p[0]] = NONE if d is None else Def(d)
    return exp


def same_default(a, b):
    if a is NONE or b is NONE:
        return a is b
    if isinstance(a, Def) and isinstance(b, Def):
        va, vb = a.value, b.value
        if isinstance(va, bool) or isinstance(vb, bool):
            return va is vb or va == vb
        if isinstance(va, (int, float)) and isinstance(vb, (int, float)):
            return float(va) == float(vb)
        return va == vb
    return False


class ReturnDefault(PathFacts):
    def __init__(self):
        self.hits = []

    def fact_names(self, f):
        return set(f[2])

    def cond_facts(self, test, truth):
        out = set()
        for atom, t in [(test, truth)] + split_and(test, truth):
            out.add((norm(atom), t, tuple(sorted({n.id for n in ast.walk(atom) if isinstance(n, ast.Name)}))))
        return out

    def visit(self, stmt, state):
        if isinstance(stmt, ast.Return) and stmt.value is not None:
            self.hits.append((stmt, state))


def rule_resolver(cx, rid):
    """the contract the binder assumes for _extract_call_argument, decided by evaluating the function on a complete family of
    small call texts: keyword=k selects exactly the keyword k (no prefix/suffix/alias match), position=i the i-th positional"""
    import itertools
    from .. import dl
    pm = mod(PARSER)
    fn = pm.func("_extract_call_argument")
    r = cx.rule(rid, "_extract_call_argument(text, keyword=k) returns the value of the keyword spelled exactly k (never of one that merely starts or ends with k) and None otherwise; (text, position=i) returns the i-th positional argument or None", floor=700, exhaustive=True)
    kws = ("p", "p_x", "px", "x_p", "q")
    n_bad = 0
    for npos in range(0, 3):
        for nk in range(0, 3):
            for ks in itertools.permutations(kws, nk):
                parts = [str(10 + i) for i in range(npos)] + [f"{k}={20 + j}" for j, k in enumerate(ks)]
                text = ", ".join(parts)
                queries = [({"keyword": k}, (str(20 + ks.index(k)) if k in ks else None)) for k in kws + ("zz",)]
                queries += [({"position": i}, (str(10 + i) if i < npos else None)) for i in range(0, 3)]
                queries.append(({}, "10" if npos else None))
                for kwargs, want in queries:
                    it = dl.Interp(pm, opaque={"ast.parse": ast.parse, "ast.unparse": ast.unparse})
                    try:
                        out = it.call(fn, [text], dict(kwargs))
                    except dl.Unsupported as e:
                        raise AnalysisError(f"_extract_call_argument left the evaluable subset: {e}")
                    got = out.value if out.kind == "return" else f"<{out.kind}>"
                    if got == want:
                        r.ok(None)
                    else:
                        n_bad += 1
                        if n_bad <= 3:
                            r.fail(f"_extract_call_argument/{'keyword' if 'keyword' in kwargs else 'position'}-exact", (pm, fn), f"_extract_call_argument({text!r}, {', '.join(f'{a}={b!r}' for a, b in kwargs.items())}) -> {got!r}, expected {want!r}: a lookup for one parameter picks up the argument written for another", detail={"text": text, **kwargs})
                        else:
                            r.stat.obligations += 1
                            r.stat.failed += 1
    return r


def rule_field_flow(cx, rid, devices=None):
    """emitter half of the binding: a numeric IR field that is given - 0 included - reaches the firmware text; 0 is neither
    taken for "absent" (same text as None) nor ignored (same text as 7)"""
    from .. import l2, pe
    em = mod("transpile/emitter.py")
    cx.consulted(em)
    cls, fields = pe.ir_classes()
    r = cx.rule(rid, "for every numeric field of every action IR class the emitted firmware differs between the values 0 and 7, and between 0 and an omitted (None) value: a supplied zero is never silently treated as 'not given' by a truthiness test in the emitter", floor=(40 if devices is None else 4))
    skip = {"Program", "ConditionalBranch", "CatchClause", "FunctionDef", "IfStatement", "WhileLoop", "ForRangeLoop", "TryStatement", "VarDecl", "VarAssign", "ReturnStmt", "BreakStmt", "ExprStmt"}
    for cname in sorted(cls):
        dev = l2.device_of(cname)
        if cname in skip or cname.endswith("Decl") or (devices is not None and dev not in devices):
            continue
        base = next((kw for kw, _n in pe.variants(cname, limit=1)), None)
        if base is None:
            continue
        pre = [l2.lcd_decl("parallel", True)] if dev == "LCD" else [l2.decl_node(dev)] if dev else []
        for fname, ann, _d in fields[cname]:
            parts = ann.replace("typing.", "").replace("Optional[", "").replace("Union[", "").replace("]", "").split(", ")
            if fname == "name" or "int" not in parts:
                continue

            def text_for(v, _c=cname, _f=fname):
                kw = dict(base)
                kw[_f] = v
                res = pe.emit_program(setup=pre + [cls[_c](**kw)], loop=[])
                return None if res.raised else res.text
            t0, t7 = text_for(0), text_for(7)
            if t0 is None or t7 is None:
                r.ok(f"{cname}.{fname}: rejected")
                continue
            r.check(t0 != t7, f"{cname}.{fname}/value-reaches-firmware", (em, em.func("_emit_block")), f"{cname}({fname}=0) and {cname}({fname}=7) produce the same firmware: the field is ignored", sample=f"{cname}.{fname}")
            if ann.replace("typing.", "").startswith("Optional"):
                tn = text_for(None)
                r.check(tn is None or tn != t0, f"{cname}.{fname}/zero-is-not-absent", (em, em.func("_emit_block")), f"{cname}({fname}=0) produces the same firmware as {cname}({fname}=None): a supplied 0 is treated as 'not given' (truthiness test instead of `is not None`)", sample=f"{cname}.{fname} 0 vs None")
    return r


def rule_compositional(cx, rid, devices=None):
    """what the emitter writes for a statement does not depend on the statements before it: the lines of [A, B] are the lines
    of [A] followed by the lines of [B] (numbered helper identifiers aside), for two variants of every action class, both orders"""
    import re as _re
    from .. import l2, pe
    em = mod("transpile/emitter.py")
    cx.consulted(em)
    cls, _fields = pe.ir_classes()
    r = cx.rule(rid, "statement emission is context-free: for two differently-argued statements of each action class the firmware of the pair is the concatenation of their individual firmware, in both orders (no per-device memory of an earlier call's arguments leaks into a later call that omits them)", floor=(50 if devices is None else 4))
    skip = {"Program", "ConditionalBranch", "CatchClause", "FunctionDef", "IfStatement", "WhileLoop", "ForRangeLoop", "TryStatement", "VarDecl", "VarAssign", "ReturnStmt", "BreakStmt", "ExprStmt", "ButtonPoll", "LCDTick"}
    nz = lambda ls: [_re.sub(r"_(\d+)\b", "_N", l_) for l_ in ls]

    def lines_of(nodes, dev):
        pre = [l2.lcd_decl("parallel", True)] if dev == "LCD" else [l2.decl_node(dev)] if dev else []
        res = pe.emit_program(setup=pre + nodes, loop=[])
        base = pe.emit_program(setup=pre, loop=[])
        if res.raised or base.raised:
            return None

        def body(t):
            i = t.index("void setup() {")
            j = t.index("\n}\n", i)
            return [x for x in t[i:j].split("\n")[1:] if "no setup actions" not in x]
        return body(res.text)[len(body(base.text)):]

    for cname in sorted(cls):
        dev = l2.device_of(cname)
        if cname in skip or cname.endswith("Decl") or (devices is not None and dev not in devices):
            continue
        vs = [node for _kw, node in pe.variants(cname, limit=12)]
        if not vs:
            continue
        a, b = vs[0], vs[-1]
        for x, y, tag in ((a, b, "first,last"), (b, a, "last,first")):
            la, lb, lab = lines_of([x], dev), lines_of([y], dev), lines_of([x, y], dev)
            if None in (la, lb, lab):
                r.ok(f"{cname}: rejected")
                continue
            ok = nz(lab) == nz(la) + nz(lb)
            diff = ""
            if not ok:
                want = nz(la) + nz(lb)
                got = nz(lab)
                k = next((i for i, (p_, q_) in enumerate(zip(got, want)) if p_ != q_), min(len(got), len(want)))
                diff = f"line {k}: `{(got[k] if k < len(got) else '<end>').strip()}` where the statement alone gives `{(want[k] if k < len(want) else '<end>').strip()}`"
            r.check(ok, f"{cname}/emission-independent-of-earlier-statements", (em, em.func("_emit_block")), f"{cname} emitted after another {cname} ({tag} variant) differs from its stand-alone firmware: {diff}", sample=f"{cname} [{tag}]")
    return r


def bind_rule(cx, rid_bind="C08-BIND", rid_map="C08-MAP", only=None, floor=300):
    pm = mod(PARSER)
    am = mod("transpile/ast.py")
    cx.consulted(pm)
    cx.consulted(am)
    from .. import pe as pe_
    ir_fields = {cname: [f[0] for f in fl] for cname, fl in pe_.ir_classes()[1].items()}    # dataclass inheritance included
    psl = pm.func("_parse_simple_lines")
    # the IR classes built from user calls are the entries of the HOST table (IR class -> host callable); every other IR class
    # must be structural (control flow, variables) or injected by parse() - however the statement dispatcher is organised
    STRUCTURAL = {"VarDecl", "VarAssign", "ExprStmt", "IfStatement", "WhileLoop", "ForRangeLoop", "TryStatement", "BreakStmt", "ReturnStmt", "Program", "ConditionalBranch", "CatchClause", "FunctionDef", "ButtonPoll", "LCDTick"}
    arms = [("statement parser", psl, [c_]) for c_ in sorted(ir_fields) if c_ in HOST or c_ not in STRUCTURAL]
    cx.extra.setdefault("arms", len(arms))

    rule_resolver(cx, rid_bind.rsplit("-", 1)[0] + "-RESOLVER")
    r = cx.rule(rid_bind, "for every call shape accepted by the host signature the arm either rejects the call or binds each IR field to the argument Python binds to the corresponding parameter (omitted parameters get the host default)", floor=floor, exhaustive=True)
    rmap = cx.rule(rid_map, "every IR class built from a user call is mapped to its host callable and every parameter of that callable (other than host-only simulation parameters) is bound into an IR field", floor=(40 if only is None else 1))
    shapes_total = 0
    undecided = []
    pending, tasks = [], []
    for rx, arm, built in arms:
        for cls in built:
            if only is not None and not any(cls.startswith(p) for p in only):
                continue
            if cls not in HOST:
                if cls in ("VarDecl", "VarAssign", "ExprStmt", "IfStatement", "WhileLoop", "ForRangeLoop", "TryStatement", "BreakStmt", "ReturnStmt"):
                    continue
                rmap.fail(f"{cls}/unmapped", (pm, arm), f"IR class {cls} built by arm {rx} has no host callable in the checker's table")
                continue
            hfile, hcls, hfn = HOST[cls]
            hm = mod(hfile)
            cx.consulted(hm)
            fn = hm.func(f"{hcls}.{hfn}" if hcls else hfn)
            params = func_params(fn)
            if hcls:
                params = params[1:]
            if any(p[1] in ("vararg", "kwarg") for p in params):
                raise AnalysisError(f"{hfile}:{hfn} takes *args/**kwargs")
            fields = ir_fields.get(cls, [])
            f2p = {}
            for f in fields:
                if f in NOT_PARAMS and (cls, f) not in RENAME:
                    continue
                f2p[f] = RENAME.get((cls, f), f)
            pnames = [p[0] for p in params]
            for p in params:
                if p[0] in HOST_ONLY or (cls, p[0]) in VALUE_LEVEL:
                    continue
                rmap.check(p[0] in f2p.values(), f"{cls}/param[{p[0]}]-has-field", (hm, fn), f"parameter {p[0]} of {hcls or ''}.{hfn} is not carried by IR class {cls}", sample=f"{cls}.{[k for k, v in f2p.items() if v == p[0]][:1]} <- {hfn}({p[0]})")
            if not params:
                r.ok(f"{cls}: no parameters")
                continue
            shapes = [s for s in shapes_for(params) if not host_rejects(cls, s, params)]
            posable = tuple(p[0] for p in params if p[1] in ("pos", "posonly"))
            order = tuple(p[0] for p in params)
            numeric = set()
            for a_ in list(fn.args.posonlyargs) + list(fn.args.args) + list(fn.args.kwonlyargs):
                ann = norm(a_.annotation) if a_.annotation is not None else ""
                if ("int" in ann or "float" in ann) and not any(t_ in ann for t_ in ("Callable", "Sequence", "List", "Iterable", "bool")):
                    numeric.add(a_.arg)
            for shape in shapes:
                shapes_total += 1
                pending.append((cls, hcls, hfn, shape, params, f2p, rx, arm, hm, fn))
                tasks.append((cls, hcls, hfn, posable, shape.npos, tuple(sorted(shape.kws)), order))
                # the same shape with a literal 0 for every supplied numeric parameter: a supplied zero is an argument,
                # not an absence (`value or default` would replace it)
                supplied = set(posable[:shape.npos]) | set(shape.kws)
                zeros = frozenset(supplied & numeric)
                if zeros and not cls.endswith("Decl"):
                    shapes_total += 1
                    pending.append((cls, hcls, hfn, shape, params, f2p, rx, arm, hm, fn))
                    tasks.append((cls, hcls, hfn, posable, shape.npos, tuple(sorted(shape.kws)), order, zeros))
                # the same shape with an explicit None for every supplied parameter whose host default is None: Python binds
                # None exactly as if the parameter were omitted, so the call is refused or yields the node of the omitted form
                nones = frozenset(p_[0] for p_ in params if p_[0] in supplied and p_[2] is not None and lit.try_ev(p_[2], default="<nonliteral>") is None and p_[0] not in HOST_ONLY)
                if nones and not cls.endswith("Decl"):
                    shapes_total += 1
                    pending.append((cls, hcls, hfn, shape, params, f2p, rx, arm, hm, fn))
                    tasks.append((cls, hcls, hfn, posable, shape.npos, tuple(sorted(shape.kws)), order, nones | {"__none__"}))
    from .. import bindeval
    results = bindeval.evaluate(tasks)
    for (cls, hcls, hfn, shape, params, f2p, rx, arm, hm, fn), (kind, val, desc, src) in zip(pending, results):
        call_txt = src.strip().split("\n")[-1]
        if kind == "error":
            raise AnalysisError(f"parse() left the evaluable subset on `{call_txt}`: {val}")
        if kind == "raise":
            r.ok(f"{cls}{shape} rejected ({val})")
            continue
        if kind == "nodes":
            r.fail(f"{cls}/call-shape-yields-one-node", (pm, arm), f"`{call_txt}` is accepted by {hcls or ''}.{hfn}'s signature and by parse() but yields {val} {cls} node(s): the call is dropped or duplicated", detail={"shape": repr(shape), "arm": rx})
            continue
        exp = expected(params, shape)
        bad = None
        for f, pn in f2p.items():
            if pn not in exp or pn in HOST_ONLY or (cls, pn) in VALUE_LEVEL or f"{cls}.{f}" in VALUE_FIELDS:
                continue
            if f not in val:
                continue
            got = val[f]
            want = exp[pn]
            if isinstance(want, Tok) and desc.get(pn) == ("none", None):
                if got is not None:
                    bad = (f, pn, got, f"None - the explicit `None` written for {pn} in `{call_txt}` is the host default, the call means what the call without it means", "explicit-none")
            elif isinstance(want, Tok):
                if pn not in desc or not bindeval.matches(got, desc[pn]):
                    bad = (f, pn, got, f"the argument written for {pn} (`{call_txt}`)", "keyword" if want.kind == "K" else "positional")
            else:
                # omitted parameter: the field carries the host default (or the arm's own spelling of it)
                if isinstance(got, str) and any(bindeval.matches(got, d_) for d_ in desc.values() if d_[0] == "var"):
                    bad = (f, pn, got, f"the default {want!r} (the parameter is omitted in `{call_txt}`)", "default")
                elif want is NONE:
                    if got is not None:
                        bad = (f, pn, got, "None (omitted)", "default")
                elif isinstance(want, Def) and want.value not in ("<nonliteral>", "<required>"):
                    g_ = got
                    try:
                        if isinstance(g_, str) and not isinstance(want.value, str):
                            g_ = float(g_.rstrip("fFuUlL")) if re.fullmatch(r"[-+]?[0-9.]+(e[-+]?\d+)?[fFuUlL]*", g_.strip()) else {"true": True, "false": False}.get(g_.strip(), g_)
                    except ValueError:
                        pass
                    if not same_default(Def(g_), want):
                        bad = (f, pn, got, f"the host default {want.value!r} (the parameter is omitted in `{call_txt}`)", "default")
        if bad:
            f, pn, got, want_txt, kind_ = bad
            r.fail(f"{cls}.{f}/{kind_}-binding", (pm, arm), f"{hcls or ''}.{hfn}{shape}: IR field {f} holds {got!r}; Python binds parameter {pn} to {want_txt}", detail={"shape": repr(shape), "arm": rx, "script": src})
        else:
            r.ok(f"{cls}{shape}")
    cx.extra["call_shapes"] = shapes_total
    cx.extra["fields_decided_at_value_level"] = sorted(VALUE_FIELDS)



def run(cx):
    pm = mod(PARSER)
    cx.explanation = (
        "for every parser arm that builds an IR node from a user call, the arm's argument prologue is evaluated "
        "abstractly (tokens for 'the text of positional argument i / keyword k', None, defaults) for EVERY call shape "
        "the host signature (read from the AST of the host class) accepts, and the token bound to each IR field is "
        "compared with Python's own binding; resolver contracts and the Core-helper binder are checked separately"
    )
    bind_rule(cx)

    # ---- C08-RESOLVE-VALUES ------------------------------------------------------------------
    # an argument resolver returns its default only when the argument is absent - never because of the supplied value (0,
    # False, 0.0): decided by evaluating every resolver on such values (shared with C03/C04), not by the spelling of its guard
    from . import c03
    c03.rule_resolver_values(cx, "C08-RESOLVE-VALUES")

    # ---- C08-CORE ----------------------------------------------------------------------------
    import itertools
    r = cx.rule("C08-CORE", "Core helpers: for every split of a call into positional and keyword arguments and every keyword order, the expression translator (evaluated on the call text) passes the arguments to the Arduino function in signature order or rejects the call", floor=15, exhaustive=True)
    core = mod("Core/__init__.py")
    cx.consulted(core)
    tce = pm.func("_to_c_expr")
    CORE = {"pin_mode": "pinMode", "digital_write": "digitalWrite", "analog_write": "analogWrite", "digital_read": "digitalRead", "analog_read": "analogRead"}
    n_shapes = 0
    for helper, cfn in CORE.items():
        if helper not in core.funcs:
            raise AnalysisError(f"Core.{helper} vanished")
        sig = [p_[0] for p_ in func_params(core.func(helper))]
        vals = {p_: f"arg_{p_}" for p_ in sig}
        shapes = []
        for npos in range(0, len(sig) + 2):
            for kws in itertools.chain.from_iterable(itertools.permutations(sig + ["bogus"], k) for k in range(0, len(sig) + 1)):
                shapes.append((npos, kws))
        for npos, kws in shapes:
            pos = [vals[sig[i]] if i < len(sig) else "surplus" for i in range(npos)]
            text = f"{helper}(" + ", ".join(pos + [f"{k}={vals.get(k, 'zz')}" for k in kws]) + ")"
            bound = {}
            valid = npos <= len(sig) and "bogus" not in kws
            if valid:
                for i in range(npos):
                    bound[sig[i]] = vals[sig[i]]
                for k in kws:
                    if k in bound:
                        valid = False
                    bound[k] = vals[k]
                valid = valid and set(bound) == set(sig)
            it = dl.Interp(pm, opaque={"ast.parse": ast.parse, "ast.unparse": ast.unparse})
            try:
                out = it.call(tce, [text, {}, {}])
            except dl.Unsupported as e:
                raise AnalysisError(f"_to_c_expr left the evaluable subset on `{text}`: {e}")
            n_shapes += 1
            if valid:
                want = f"{cfn}(" + ", ".join(vals[p_] for p_ in sig) + ")"
                r.check(out.kind == "raise" or (out.kind == "return" and out.value == want), f"{helper}/arguments-in-signature-order[{npos} positional; keywords {list(kws)}]", (pm, tce), f"`{text}` is translated to {out!r}; Python binds it as {want}", sample=None)
            # calls the signature does not accept (surplus positional, unknown/duplicate keyword, missing argument) are outside
            # the property: Python itself rejects them before anything is commanded
    cx.extra["core_shapes"] = n_shapes

    # the emitter half of the binding for the one node whose fields select a *position*: message(top, bottom)
    from . import c17
    c17.rule_message_rows(cx, "C08-MESSAGE", mod("transpile/emitter.py"))
    rule_field_flow(cx, "C08-FIELDS")
    rule_compositional(cx, "C08-CONTEXT-FREE")

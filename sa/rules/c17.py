"""C17 - LCD text: same characters in the same cells on device and host, never off-row (clause level)."""
from __future__ import annotations

import ast
import re

from .. import cxx, dl, l2, lit, pe
from ..cabs import Exec, State, lname, upper_closure
from ..core import AnalysisError
from ..cxx import show, sub_exprs, all_stmts, all_calls, stmt_exprs, callee, receiver, call_args
from ..flow import lexical_conds
from ..num import INF, Iv, try_const
from ..src import Locals, call_name, mod, norm, stmt_key, walk_local

PARSER = "transpile/parser.py"
EMITTER = "transpile/emitter.py"
LCDPY = "Displays/LCD.py"


def helper_functions(em):
    """typed AST of every LCD helper template, instantiated for LiquidCrystal"""
    lcd = lit.table(em, "LCD_HELPER_SNIPPET")
    # every helper defined at column 0 of the snippet, whatever it returns (a later refactor may add value-returning ones)
    names = []
    for m_ in re.finditer(r"^(?:inline\s+|static\s+|constexpr\s+)*[A-Za-z_][\w:<>\*&]*(?:\s+[A-Za-z_][\w:<>\*&]*)*\s+\**&?(__redu_lcd_\w+)\s*\(", lcd, re.M):
        if m_.group(1) not in names and not m_.group(0).lstrip().startswith(("return", "struct", "enum")):
            names.append(m_.group(1))
    drv = ("#include <Arduino.h>\n#include <LiquidCrystal.h>\n" + lcd + "\nLiquidCrystal l(1,2,3,4,5,6); __redu_lcd_animation_state st;\nvoid use(){ "
           "__redu_lcd_clear_row(l,16,0); __redu_lcd_write_aligned(l,16,0,0,String(\"x\"),true,__redu_lcd_align_left); __redu_lcd_progress(l,16,0,1,2,3,'#',String(\"\"));\n"
           + "".join(f" {n}(st,l,16,0,String(\"x\"),1UL,true);" for n in names if "_start_" in n) + "".join(f" {n}(st,l,16);" for n in names if "_tick_" in n) + "}\n")
    errs = cxx.typecheck(drv)
    if errs:
        raise AnalysisError("LCD helper snippet does not type-check: " + errs[0])
    fns = cxx.ast_functions(drv, names)
    return {n: fns[n][-1] for n in names if n in fns}, names


def built_by_cols_loop(body, var):
    """String var = ""; for (i = A; i < B; ++i) { ... var += <char>; }  with B declared as A + cols"""
    decls = {s["name"]: s for s in all_stmts(body) if s["k"] == "decl"}
    if var not in decls or decls[var]["init"] is None:
        return False
    init = decls[var]["init"]
    while init[0] == "ctor" and len(init[2]) == 1:
        init = init[2][0]
    if not (init[0] == "lit" and init[1] in ('""', "")):
        return False
    for s in all_stmts(body):
        if s["k"] != "for" or not s["init"] or s["cond"] is None:
            continue
        apps = [x for st_ in s["body"] if st_["k"] == "expr" for x in [st_["e"]] if x[0] == "assign" and x[1] == "+=" and lname(x[2]) == var]
        if len(apps) != 1:
            continue
        nested = [x for st_ in all_stmts(s["body"]) if st_["k"] == "expr" for x in [st_["e"]] if x[0] == "assign" and lname(x[2]) == var]
        if len(nested) != 1:
            continue
        iv, a = s["init"][0]["name"], s["init"][0]["init"]
        c = s["cond"]
        if not (c[0] == "bin" and c[1] == "<" and lname(c[2]) == iv and show(s["inc"]) in (f"++{iv}", f"{iv}++")):
            continue
        bname = lname(c[3])
        if bname == "cols" and a == ("lit", 0):
            return True
        if bname in decls and decls[bname]["init"] is not None and show(decls[bname]["init"]) == f"({show(a)} + cols)":
            return True
    return False


class Display:
    """cell model of an HD44780-style display driven by recorded (setCursor, print) events"""

    def __init__(self, cols, rows, fill):
        self.cols, self.rows = cols, rows
        self.cells = [list(r) for r in fill]
        self.cur = (0, 0)
        self.outside = []

    def feed(self, events):
        for name, args in events:
            if name == "setCursor":
                self.cur = (int(args[0]), int(args[1]))
            elif name == "print":
                txt = args[0] if isinstance(args[0], str) else str(args[0])
                c, r_ = self.cur
                for ch in txt:
                    if 0 <= r_ < self.rows and 0 <= c < self.cols:
                        self.cells[r_][c] = ch
                    else:
                        self.outside.append((c, r_, ch))
                    c += 1
                self.cur = (c, r_)

    def rows_text(self):
        return ["".join(r) for r in self.cells]


def rule_cells(cx, rid, em, hm, fns):
    """write()/line(): the cells the firmware helper leaves on the display equal the host buffer, on a complete grid"""
    import itertools
    from .. import ckern
    from .. import dl as dl_
    r = cx.rule(rid, "for every display width 8/16, start column, text length (empty .. longer than the row), alignment and clear flag the firmware's __redu_lcd_write_aligned (evaluated with C semantics on a cell model) leaves exactly the characters of the host LCD.write in the target row, touches no other row and writes no cell outside the display", floor=800, exhaustive=True)
    lcd = lit.table(em, "LCD_HELPER_SNIPPET")
    m_ = re.search(r"enum\s+__redu_lcd_align\s*\{([^}]*)\}", lcd)
    if not m_:
        raise AnalysisError("enum __redu_lcd_align not found in the LCD helper snippet")
    enum = {}
    nxt = 0
    for item in [x.strip() for x in m_.group(1).split(",") if x.strip()]:
        nm, _, val = item.partition("=")
        nxt = int(val) if val.strip() else nxt
        enum[nm.strip()] = nxt
        nxt += 1
    aligns = {"left": "__redu_lcd_align_left", "center": "__redu_lcd_align_center", "right": "__redu_lcd_align_right"}
    if not set(aligns.values()) <= set(enum):
        raise AnalysisError(f"alignment enumerators changed: {sorted(enum)}")
    if "__redu_lcd_write_aligned" not in fns:
        raise AnalysisError("__redu_lcd_write_aligned vanished")
    hw = hm.func("LCD.write")
    S = type("LCDObj", (dl_.Synth,), {})
    hit = dl_.Interp(hm)
    n_bad = 0
    for cols in (8, 16):
        fill = ["abcdefghijklmnopqrstuvwxyz"[:cols], "ABCDEFGHIJKLMNOPQRSTUVWXYZ"[:cols]]
        for col, tlen, al, clr, row in itertools.product((0, 1, 3, cols - 2, cols - 1), (0, 1, 2, 5, cols - 1, cols, cols + 3), ("left", "center", "right"), (True, False), (0, 1)):
            text = "0123456789#$%&*+=?@!"[:tlen]
            o = S()
            o.__dl_class__ = "LCD"
            o.cols, o.rows, o.buffer = cols, 2, list(fill)
            hit.steps = 0
            try:
                out = hit.call(hw, [o, col, row, text], {"clear_row": clr, "align": al})
            except dl_.Unsupported as e:
                raise AnalysisError(f"host LCD.write left the evaluable subset: {e}")
            if out.kind != "return":
                continue
            k = ckern.CallKern(fns, consts=enum)
            try:
                k.ev(("call", "__redu_lcd_write_aligned", [("lit", 0), ("lit", cols), ("lit", col), ("lit", row), ("lit", '"' + text + '"'), ("lit", clr), ("lit", enum[aligns[al]])]))
            except ckern.KernUnsupported as e:
                raise AnalysisError(f"__redu_lcd_write_aligned left the evaluable subset: {e}")
            d = Display(cols, 2, fill)
            d.feed(k.events)
            got = d.rows_text()
            if got == o.buffer and not d.outside:
                r.ok(None)
            else:
                n_bad += 1
                if n_bad <= 3:
                    what = f"writes outside the display at {d.outside[:2]}" if d.outside else f"device rows {got}, host rows {o.buffer}"
                    r.fail(f"write_aligned/cells=host[{al}{',clear' if clr else ''}]", (em.rel, em.const("LCD_HELPER_SNIPPET").lineno), f"lcd.write({col}, {row}, {text!r}, clear_row={clr}, align={al!r}) on {cols}x2 over a filled display: {what}", detail={"cols": cols, "col": col, "row": row, "text": text, "align": al, "clear_row": clr})
                else:
                    r.stat.obligations += 1
                    r.stat.failed += 1
    return r


def rule_cells_emitted(cx, rid, em, hm, fns):
    """the same comparison end to end: LCDWrite / LCDLine statements with literal arguments go through the emitter, the setup()
    the emitter produces is evaluated (C semantics, helpers entered) on the cell model, and each statement must leave the
    cells the host LCD.write / LCD.line leaves - whatever code the emitter chooses for a combination of literal arguments"""
    import itertools
    from .. import ckern
    from .. import dl as dl_
    from . import c04, c18
    r = cx.rule(rid, "LCDWrite/LCDLine with literal arguments, through the emitter: for start columns 0 and 12, texts of 3/11/20 characters, the three alignments, clear_row True/False and both rows of a 16x2 display, evaluating the emitted setup() on the cell model leaves exactly the cells of the host LCD.write/LCD.line and never prints outside the display (the emitter may not bypass the truncating helper for some literal combination)", floor=100, exhaustive=True)
    cls, _f = pe.ir_classes()
    _fresh, enum = c18._anim_struct(em)
    cases = []
    for col, tlen, al, clr, row in itertools.product((0, 12), (3, 11, 20), ("left", "center", "right"), (True, False), (0, 1)):
        cases.append(("write", col, row, "abcdefghijklmnopqrstuvwxyz"[:tlen], clr, al))
    for tlen, al, clr, row in itertools.product((3, 16, 20), ("left", "center", "right"), (True, False), (0, 1)):
        cases.append(("line", 0, row, "abcdefghijklmnopqrstuvwxyz"[:tlen], clr, al))
    S = cls["Sleep"]
    nodes = []
    for i_, (kind, col, row, text, clr, al) in enumerate(cases):
        nodes.append(S(ms=100000 + i_))
        if kind == "write":
            nodes.append(cls["LCDWrite"](name="dev", col=str(col), row=str(row), text='"' + text + '"', clear_row=clr, align=al))
        else:
            nodes.append(cls["LCDLine"](name="dev", row=str(row), text='"' + text + '"', align=al, clear_row=clr))
    res = pe.emit_program(setup=[l2.lcd_decl("i2c")] + nodes, loop=[])
    if res.raised:
        raise AnalysisError(f"emit() raises for the literal LCD write program: {res.raised}")
    body = l2.functions_of(res.text, ["setup"])["setup"][0]["body"]
    gl = l2.global_decls(res.text)
    env = {}
    for nm_, (ty_, init_) in gl.items():
        m_ = re.fullmatch(r"\s*(?:static_cast<\w+>\()?\s*(-?\d+)\s*\)?\s*", init_ or "")
        if m_:
            env[nm_] = int(m_.group(1))
    for nm_ in gl:
        env.setdefault(nm_, 0)
    k = ckern.CallKern(fns, env=env, consts=enum, max_steps=4_000_000)
    try:
        k.block(body)
    except ckern.KernUnsupported as e:
        raise AnalysisError(f"the emitted LCD write program left the evaluable subset: {e}")
    # split the event stream at the marker delays
    chunks, cur = {}, None
    for nm_, a_ in k.events:
        if nm_ == "delay" and a_ and isinstance(a_[0], int) and a_[0] >= 100000:
            cur = a_[0] - 100000
            chunks[cur] = []
        elif cur is not None:
            chunks[cur].append((nm_, a_))
    fill = ["ABCDEFGHIJKLMNOP", "QRSTUVWXYZ012345"]
    n_bad = 0
    for i_, (kind, col, row, text, clr, al) in enumerate(cases):
        o = c04.host_object(hm, "LCD", i2c_addr=39)
        o.buffer = list(fill)
        try:
            out = dl_.Interp(hm).call(hm.func("LCD.write" if kind == "write" else "LCD.line"), [o, col, row, text] if kind == "write" else [o, row, text], {"clear_row": clr, "align": al})
        except dl_.Unsupported as e:
            raise AnalysisError(f"host LCD.{kind} left the evaluable subset: {e}")
        if out.kind != "return":
            continue
        d = Display(16, 2, fill)
        d.feed(chunks.get(i_, []))
        got = d.rows_text()
        if got == o.buffer and not d.outside:
            r.ok(None)
        else:
            n_bad += 1
            if n_bad <= 3:
                what = f"prints outside the display at {d.outside[:2]}" if d.outside else f"device rows {got}, host rows {o.buffer}"
                call = f"lcd.write({col}, {row}, {text!r}, clear_row={clr}, align={al!r})" if kind == "write" else f"lcd.line({row}, {text!r}, align={al!r}, clear_row={clr})"
                r.fail(f"emitted-{kind}/cells=host[{al}{',clear' if clr else ''}]", (em, em.func("_emit_block")), f"{call} on 16x2 over a filled display, through the emitter: {what}", detail={"col": col, "row": row, "text": text, "align": al, "clear_row": clr})
            else:
                r.stat.obligations += 1
                r.stat.failed += 1
    return r


def rule_message_rows(cx, rid, em):
    """LCDMessage: top goes to row 0 and bottom to row 1 whichever of the two is present, each with its own alignment"""
    cls, _f = pe.ir_classes()
    r = cx.rule(rid, "message(top, bottom): the top text is written to row 0 with top_align and the bottom text to row 1 with bottom_align, whichever of them are given (a bottom-only message does not move up)", floor=6)
    for top, bottom in (("H_text_top", "H_text_bottom"), ("H_text_top", None), (None, "H_text_bottom")):
        node = cls["LCDMessage"](name="dev", top=top, bottom=bottom, top_align="center", bottom_align="right", clear_rows=True)
        res = pe.emit_program(setup=[l2.lcd_decl("i2c"), node], loop=[])
        if res.raised:
            raise AnalysisError(f"emit() raises for LCDMessage(top={top}, bottom={bottom})")
        calls = re.findall(r"__redu_lcd_write_aligned\(([^;]*)\);", res.text)
        got = {}
        for c in calls:
            a = [x.strip() for x in c.split(",")]
            if len(a) >= 7:
                txt = "top" if "H_text_top" in a[4] else "bottom" if "H_text_bottom" in a[4] else "?"
                got[txt] = (a[2], a[3], a[6])
        want = {}
        if top:
            want["top"] = ("0", "0", "__redu_lcd_align_center")
        if bottom:
            want["bottom"] = ("0", "1", "__redu_lcd_align_right")
        r.check(got == want, f"LCDMessage[{'top' if top else ''}{'+' if top and bottom else ''}{'bottom' if bottom else ''}]/rows-and-alignments", (em, em.func("_emit_block")), f"message(top={'given' if top else 'None'}, bottom={'given' if bottom else 'None'}) writes (col,row,align) {got}; expected {want}")
        r.ok(None)
    return r


def rule_no_static(cx, rid, em):
    """helper templates keep no state of their own: a static local is shared by every display (and every call)"""
    fns, names = helper_functions(em)
    r = cx.rule(rid, "the LCD helper templates declare no static locals: what a helper draws depends only on its arguments and the per-display state object, never on an earlier call for another display (a cached blank line sized for a 20-column display would be printed on a 16-column one)", floor=8)
    for n, f in fns.items():
        st = [s_ for s_ in all_stmts(f["body"]) if s_["k"] == "decl" and s_.get("static")]
        r.check(not st, f"{n}/no-static-local[{','.join(s_['name'] for s_ in st)}]", (em.rel, em.const("LCD_HELPER_SNIPPET").lineno), f"{n} keeps `static {st[0]['type']} {st[0]['name']}`" if st else "", sample=n)
    return r


_ANIM_EVAL = {}


def animation_stays_inside(em, fns, helper):
    """fallback when the abstract bound on a print is lost (helper calls, other loop shapes): the animation the helper belongs
    to - its start helper, then ticks at a rising clock - is evaluated with C semantics on a cell model for display widths
    8/16, both rows, texts shorter/equal/longer than the row, with and without looping; True iff nothing is ever printed
    outside the display or outside the animation's row.  None when the helper is not part of an animation."""
    from .. import ckern
    from . import c18
    st_tbl, tk_tbl = lit.table(em, "_LCD_ANIMATION_START_FUNCS"), lit.table(em, "_LCD_ANIMATION_TICK_FUNCS")
    style = next((k for k in st_tbl if helper in (st_tbl[k], tk_tbl.get(k))), None)
    if style is None:
        return None
    if style in _ANIM_EVAL:
        return _ANIM_EVAL[style]
    fresh, enum = c18._anim_struct(em)
    sfn, tfn = st_tbl[style], tk_tbl.get(style)
    ok = True
    why = ""
    for cols in (8, 16):
        for row in (0, 1):
            for tlen in (0, 1, cols - 1, cols, cols + 1, cols + 9):
                for loop in (True, False):
                    text = "abcdefghijklmnopqrstuvwxyz0123456789"[:tlen]
                    st = fresh()
                    now = [50]
                    k = ckern.CallKern(fns, env={"st": st, "lcdobj": 0}, consts=enum, max_steps=2_000_000)
                    k.call_hooks["millis"] = lambda a_, _n=now: _n[0]
                    try:
                        k.ev(("call", sfn, [("var", "st"), ("var", "lcdobj"), ("lit", cols), ("lit", row), ("lit", '"' + text + '"'), ("lit", 100), ("lit", loop)]))
                        for i_ in range(2 * (tlen + cols) + 6):
                            now[0] += 100
                            k.ev(("call", tfn, [("var", "st"), ("var", "lcdobj"), ("lit", cols)]))
                    except ckern.KernUnsupported as e:
                        _ANIM_EVAL[style] = (False, f"the {style} animation left the evaluable subset: {e}")
                        return _ANIM_EVAL[style]
                    fill = ["." * cols, "." * cols]
                    d = Display(cols, 2, fill)
                    d.feed(k.events)
                    other = d.rows_text()[1 - row]
                    if d.outside or other != "." * cols:
                        ok = False
                        why = f"{style} on {cols}x2, row {row}, text of {tlen} characters, loop={loop}: " + (f"prints outside the display at {d.outside[:2]}" if d.outside else f"touches the other row ({other!r})")
                        break
                if not ok:
                    break
            if not ok:
                break
        if not ok:
            break
    _ANIM_EVAL[style] = (ok, why)
    return _ANIM_EVAL[style]


def helper_stays_inside(em, fns, helper):
    """fallback for a helper that takes only the display, integers, characters, flags and strings: evaluated with C
    semantics on a cell model over a grid of its arguments (widths 8/16, both rows, every other integer in
    {-1, 0, 3, cols, cols + 5}, strings of 0/3/cols+4 characters); -> (ok, why) or None when the signature is not of that kind"""
    import itertools
    from .. import ckern
    from . import c18
    f = fns[helper]
    _fresh, enum = c18._anim_struct(em)
    axes = []
    for pn, pt in f["params"]:
        t = (pt or "").replace("const ", "").replace("&", "").strip()
        if pn == "lcd" or t == "T":
            axes.append([("lit", 0)])
        elif pn == "cols":
            axes.append(["COLS"])
        elif pn == "row":
            axes.append([("lit", 0), ("lit", 1)])
        elif t in ("int", "long", "unsigned long", "size_t", "uint8_t", "byte", "unsigned int"):
            axes.append(["INT"])
        elif t == "char":
            axes.append([("lit", "#")])
        elif t == "bool":
            axes.append([("lit", True), ("lit", False)])
        elif t == "String":
            axes.append(["STR"])
        elif t in ("__redu_lcd_align", "enum __redu_lcd_align"):
            axes.append([("lit", v) for v in sorted(set(enum.values()))])
        else:
            return None
    row_i = next((i for i, (pn, _t) in enumerate(f["params"]) if pn == "row"), None)
    n_eval = 0
    for cols in (8, 16):
        concrete = []
        for a in axes:
            if a == ["COLS"]:
                concrete.append([("lit", cols)])
            elif a == ["INT"]:
                concrete.append([("lit", v) for v in (-1, 0, 3, cols, cols + 5)])
            elif a == ["STR"]:
                concrete.append([("lit", '"' + "abcdefghijklmnopqrstuvwxyz"[:n] + '"') for n in (0, 3, cols + 4)])
            else:
                concrete.append(a)
        for combo in itertools.product(*concrete):
            k = ckern.CallKern(fns, consts=enum, max_steps=200000)
            try:
                k.ev(("call", helper, list(combo)))
            except ckern.KernUnsupported as e:
                return (False, f"{helper} left the evaluable subset on {[c[1] for c in combo]}: {e}")
            n_eval += 1
            d = Display(cols, 2, ["." * cols, "." * cols])
            d.feed(k.events)
            row = combo[row_i][1] if row_i is not None else None
            if d.outside or (row in (0, 1) and d.rows_text()[1 - row] != "." * cols):
                return (False, f"{helper}({', '.join(repr(c[1]) for c in combo)}) " + (f"prints outside the display at {d.outside[:2]}" if d.outside else "touches the other row"))
    return (True, f"{n_eval} evaluations")


def rule_dev_trunc(cx, rid, em, only=None):
    """every lcd.print in the helper templates is bounded by the display width; cursor rows are the row argument"""
    r = cx.rule(rid, "in every LCD helper, each print of a String is dominated by a truncation of that string to the remaining width (cols / available), each print of a single character sits in a loop bounded by cols, and every setCursor targets the row it was given with a non-negative column", floor=25)
    fns, names = helper_functions(em)
    for n, f in fns.items():
        if only and not only(n):
            continue
        row_names = {"row", "state.row"}

        def on_call(e, st, n=n, f=f):
            c = callee(e)
            rec = receiver(e)
            if c == "print" and rec is not None and show(rec) == "lcd":
                a = call_args(e)[0]
                core = a
                while core[0] in ("ctor", "cast") and ((core[0] == "ctor" and len(core[2]) == 1) or core[0] == "cast"):
                    core = core[2][0] if core[0] == "ctor" else core[2]
                if core[0] == "lit" and isinstance(core[1], str) and len(core[1]) <= 3:
                    # a single character: the enclosing loop must be bounded by the width
                    bounded = any(("cols" in st.hi.get(v, ()) or "width" in st.hi.get(v, ())) for v in st.hi if "." not in v and not v.startswith("@"))
                    if not bounded and [pn for pn, _pt in f.get("params", [])] == ["lcd", "cols", "row"]:
                        # another loop shape (counting down, ...): the helper is small and closed - evaluate it (C semantics)
                        # for a range of widths and count the characters it prints
                        from .. import ckern
                        bounded = True
                        for cols_ in (0, 1, 2, 7, 16, 20, 40):
                            k_ = ckern.CallKern(fns, env={"lcdobj": 0})
                            try:
                                k_.ev(("call", n, [("var", "lcdobj"), ("lit", cols_), ("lit", 1)]))
                            except ckern.KernUnsupported:
                                bounded = False
                                break
                            if sum(len(str(a_[0])) for nm_, a_ in k_.events if nm_ == "print" and a_) > cols_:
                                bounded = False
                    r.check(bounded, f"{n}/char-print-bounded-by-cols", (em.rel, em.const("LCD_HELPER_SNIPPET").lineno), f"{n}: `{show(e)}` is not inside a loop whose counter is bounded by cols", sample=f"{n}: print(' ') for i < cols")
                    return
                nm = lname(core)
                if nm is None:
                    r.fail(f"{n}/print-of-expression", (em.rel, em.const("LCD_HELPER_SNIPPET").lineno), f"{n}: `{show(e)}` prints an expression whose length is not tracked")
                    return
                his = upper_closure(st, f"{nm}.length()")
                ok = bool(his & {"cols", "available"}) or built_by_cols_loop(f["body"], nm)
                if "available" in his and "cols" not in his:
                    # available = cols - col (col >= 0) or cols - offset (offset >= 0)
                    av = [s for s in all_stmts(f["body"]) if s["k"] == "decl" and s["name"] == "available"]
                    ok = bool(av) and av[0]["init"][0] == "bin" and av[0]["init"][1] == "-" and lname(av[0]["init"][2]) == "cols"
                why_ = ""
                if not ok:
                    # the symbolic bound is lost (truncation moved into a helper, ...): decide by evaluation on the cell model
                    if n == "__redu_lcd_write_aligned":
                        ok = True           # every cell it writes is compared with the host by the CELLS rule
                    else:
                        res_ = animation_stays_inside(em, fns, n)
                        if res_ is None:
                            res_ = helper_stays_inside(em, fns, n)
                        if res_ is not None:
                            ok, why_ = res_
                            why_ = "" if ok else why_
                r.check(ok, f"{n}/print({nm})-truncated-to-width", (em.rel, em.const("LCD_HELPER_SNIPPET").lineno), f"{n}: `{show(e)}` can print more characters than fit: {nm}.length() is only known to be <= {sorted(his)}{'; ' + why_ if why_ else ''}", sample=f"{n}: print({nm}) with length <= {sorted(his & {'cols', 'available'}) or 'cols (built by a cols-step loop)'}")
            elif c == "setCursor" and rec is not None and show(rec) == "lcd":
                args = call_args(e)
                colx, rowx = args[0], args[1]
                r.check(show(rowx) in row_names, f"{n}/setCursor-row", (em.rel, em.const("LCD_HELPER_SNIPPET").lineno), f"{n}: `{show(e)}` moves to row {show(rowx)}, not the row the caller asked for")
                civ = ex.ev(colx, st)
                r.check(civ.lo >= 0, f"{n}/setCursor-column-non-negative", (em.rel, em.const("LCD_HELPER_SNIPPET").lineno), f"{n}: `{show(e)}` column range {civ}")

        ex = Exec(on_call=on_call)
        s0 = State()
        s0.v["cols"] = Iv(-INF, INF)
        ex.run(f["body"], [s0])
    return fns


def run(cx):
    em, pm, hm = mod(EMITTER), mod(PARSER), mod(LCDPY)
    for m in (em, pm, hm):
        cx.consulted(m)
    cx.explanation = (
        'alignment/style tables of host, parser and emitter agree (resolvers evaluated over spellings); host buffer shape by evaluation over geometries; every lcd.print in the helper templates bounded by abstract interpretation, with cell-model evaluation when the symbolic bound is lost; cells left by the firmware helper and by emitted LCDWrite/LCDLine statements equal the host buffer on grids; progress bars by whole-function evaluation of both sides; backlight typestate; glyph and brightness laws by evaluation. Cell equality for all texts and geometries is not decided.'
    )
    cls, fields = pe.ir_classes()

    # ---- C17-TABLES --------------------------------------------------------------------------
    r = cx.rule("C17-TABLES", "alignment and progress-style names agree between host, parser and emitter; whatever spelling the parser accepts it stores the key the emitter looks up; each style maps to one character", floor=20)
    host_align = lit.table(hm, "_ALIGN_OPTIONS")
    hcls = hm.cls("LCD")
    host_styles = None
    for st in hcls.body:
        if isinstance(st, ast.AnnAssign) and isinstance(st.target, ast.Name) and st.target.id == "_PROGRESS_STYLES":
            host_styles = lit.ev(st.value, hm)
    if host_styles is None:
        raise AnalysisError("LCD._PROGRESS_STYLES vanished")
    em_styles = lit.table(em, "_LCD_PROGRESS_STYLES")
    eb = em.func("_emit_block")
    align_map = None
    for n in walk_local(eb, include_self=False):
        if isinstance(n, ast.Assign) and isinstance(n.targets[0], ast.Name) and n.targets[0].id == "_LCD_ALIGN_MAP":
            align_map = lit.ev(n.value, em)
    if align_map is None:
        raise AnalysisError("_LCD_ALIGN_MAP vanished")
    snippet = lit.table(em, "LCD_HELPER_SNIPPET")
    enum_names = set(re.findall(r"(__redu_lcd_align_\w+)\s*=", snippet))
    r.check(set(host_align) == set(align_map), "align/host=emitter", (em, eb), f"host {sorted(host_align)}, emitter {sorted(align_map)}")
    r.check(set(align_map.values()) == enum_names and all(v == f"__redu_lcd_align_{k}" for k, v in align_map.items()), "align/emitter-map=C++-enum", (em, eb), f"map {align_map}, enum {sorted(enum_names)}")
    r.check(set(host_styles) == set(em_styles), "style/host=emitter", (em.rel, em.const("_LCD_PROGRESS_STYLES").lineno), f"host {sorted(host_styles)}, emitter {sorted(em_styles)}")
    for k, v in em_styles.items():
        okc = bool(re.fullmatch(r"'.'|static_cast<char>\(0x[0-9a-fA-F]+\)", v))
        r.check(okc and len(host_styles.get(k, "")) == 1, f"style[{k}]/single-character", (em.rel, em.const("_LCD_PROGRESS_STYLES").lineno), f"style {k}: device `{v}`, host {host_styles.get(k)!r}")
    # parser resolvers evaluated over spellings
    psl = pm.func("_parse_simple_lines")
    clos = {q.split(".")[-1]: f for q, f in pm.funcs.items() if q.startswith("_parse_simple_lines.") and q.count(".") == 1}

    def call_resolver(name, *args):
        it = dl.Interp(pm, opaque={"ast.parse": ast.parse})
        env = dl.Env(None)
        for k, f in clos.items():
            dict.__setitem__(env, k, dl.Closure(f, env))
        try:
            return dl.Outcome("return", it._call(clos[name], list(args), {}, env))
        except dl.Raised as ex_:
            return dl.Outcome("raise", ex_.exc_type)
        except dl.Unsupported as ex_:
            raise AnalysisError(f"{name} left the evaluable subset: {ex_}")

    for fn_name, keys, default in (("_resolve_align_arg", set(align_map), "left"), ("_resolve_style_arg", set(em_styles), "block")):
        if fn_name not in clos:
            raise AnalysisError(f"{fn_name} vanished")
        for k in sorted(keys):
            for spelled in (k, k.upper(), k.capitalize()):
                out = call_resolver(fn_name, repr(spelled))
                ok = out.kind == "raise" or (out.kind == "return" and out.value in keys and out.value == k)
                r.check(ok, f"{fn_name}/accepted-spelling-maps-to-table-key", (pm, clos[fn_name]), f"{fn_name}({spelled!r}) -> {out!r}: the emitter looks the stored value up in a table keyed {sorted(keys)} (an unknown key silently becomes the default)")
        out = call_resolver(fn_name, None)
        r.check(out.kind == "return" and out.value == default, f"{fn_name}/default", (pm, clos[fn_name]), f"omitted argument -> {out!r}, expected {default!r}")
        out = call_resolver(fn_name, "'diagonal'")
        r.check(out.kind == "raise" and out.value == "ValueError", f"{fn_name}/unknown-rejected", (pm, clos[fn_name]), f"unknown name -> {out!r}")

    # ---- C17-HOST-WIDTH ----------------------------------------------------------------------
    rule_host_width(cx, hm)

    # ---- C17-DEV-TRUNC -----------------------------------------------------------------------
    fns = rule_dev_trunc(cx, "C17-DEV-TRUNC", em)
    rule_no_static(cx, "C17-STATELESS", em)
    rule_message_rows(cx, "C17-MESSAGE", em)
    r = cx.rule("C17-DEV-CLEAR", "write_aligned clears the row through __redu_lcd_clear_row(lcd, cols, row) exactly when clear_row is set, before printing; clear_row itself prints `cols` blanks from column 0", floor=3)
    wa = fns.get("__redu_lcd_write_aligned")
    if wa is None:
        raise AnalysisError("__redu_lcd_write_aligned vanished")
    clears = [s for s in wa["body"] if s["k"] == "if" and any(callee(c) == "__redu_lcd_clear_row" for c in all_calls(s["then"]))]
    if len(clears) == 1 and show(clears[0]["cond"]) == "clear_row" and not clears[0]["else"]:
        c = [c for c in all_calls(clears[0]["then"]) if callee(c) == "__redu_lcd_clear_row"][0]
        r.check([show(a) for a in call_args(c)] == ["lcd", "cols", "row"], "write_aligned/clear-row-arguments", (em.rel, em.const("LCD_HELPER_SNIPPET").lineno), f"`{show(c)}`")
        idx_clear = wa["body"].index(clears[0])
        idx_print = max(i for i, s in enumerate(wa["body"]) if any(callee(c) == "print" for c in all_calls([s])))
        r.check(idx_clear < idx_print, "write_aligned/clear-before-print", (em.rel, em.const("LCD_HELPER_SNIPPET").lineno), "the row must be cleared before the text is printed")
    else:
        # another way of repainting the row (e.g. one pass of padding + text + padding): the clearing clause is then decided
        # by C17-CELLS on the cell model (bounded to the widths explored there), not structurally
        cx.extra["write_aligned_clear_idiom"] = "not recognised; decided by C17-CELLS on the cell model"
        r.ok("clearing idiom not recognised - see C17-CELLS", n=2)
    cr = fns.get("__redu_lcd_clear_row")
    loops = [s for s in all_stmts(cr["body"]) if s["k"] == "for"] if cr else []
    okc = len(loops) == 1 and show(loops[0]["cond"]) == "(i < cols)" and loops[0]["init"][0]["init"] == ("lit", 0) and [show(c) for c in all_calls(cr["body"]) if callee(c) == "setCursor"] == ["lcd.setCursor(0, row)"]
    if okc:
        r.ok("clear_row: cols blanks from column 0 (all widths)")
    else:
        cx.extra["clear_row_idiom"] = "not recognised; decided by C17-CELLS on the cell model (widths 8 and 16)"
        r.ok("clear_row idiom not recognised - see C17-CELLS")
    # (the alignment arithmetic of host and firmware is compared cell by cell in C17-CELLS; no textual comparison of the two
    # formulas is made - a rewrite that keeps the cells is not a finding)

    # ---- C17-BACKLIGHT -----------------------------------------------------------------------
    r = cx.rule("C17-BACKLIGHT", "display/backlight off drives the backlight pin to 0 and records the state as off; on drives it to the last brightness (clamped 0..255) and records on; brightness() only reaches the pin while the backlight is on", floor=9)
    BR, STV, PINV = "__redu_lcd_brightness_dev", "__redu_lcd_backlight_state_dev", "@pin:10"
    n_config = len(l2.functions_of(pe.emit_program(setup=[l2.lcd_decl("parallel", True)], loop=[]).text, ["setup"])["setup"][0]["body"])
    for cname in ("LCDDisplay", "LCDBacklight", "LCDBrightness"):
        for kw, node in pe.variants(cname):
            res = pe.emit_program(setup=[l2.lcd_decl("parallel", True), node], loop=[])
            body = l2.functions_of(res.text, ["setup"])["setup"][0]["body"]
            label = f"{cname}{ {k: v for k, v in kw.items() if k != 'name'} }"
            viol = []

            def on_call(e, st):
                if e[0] == "call" and e[1] == "analogWrite" and show(e[2][0]) == "10":
                    iv = ex.ev(e[2][1], st)
                    if not iv.within(0, 255):
                        viol.append(("backlight-duty-0..255", f"`{show(e)}` duty {iv}"))
                    ex.assign(PINV, e[2][1], st)

            ex = Exec(on_call=on_call, invariants={BR: Iv(0, 255)}, partition={STV, "H_on"})
            starts = []
            for flag in (True, False):
                s0 = State()
                s0.v[BR] = Iv(0, 255)
                s0.flags[STV] = flag
                # the pin follows the invariant at entry
                if flag:
                    s0.v[PINV] = Iv(0, 255)
                    s0.lo[PINV] = frozenset({BR})
                    s0.hi[PINV] = frozenset({BR})
                else:
                    s0.v[PINV] = Iv(0, 0)
                starts.append(s0)
            # skip the declaration's own configuration (it establishes the invariant) by analysing the command only
            cmd = body[n_config:]
            outs = ex.run(cmd, starts)
            for st in outs["fall"] + outs["ret"]:
                b_iv = st.v.get(BR, Iv(0, 255))
                if not b_iv.within(0, 255):
                    viol.append(("brightness-clamped-0..255-when-command-ends", f"{BR} is left in {b_iv}"))
                fl = st.flags.get(STV, "?")
                p = st.v.get(PINV)
                if fl is True:
                    same = (BR in st.lo.get(PINV, ()) and BR in st.hi.get(PINV, ())) or (p is not None and st.v.get(BR) is not None and p.lo == p.hi == st.v[BR].lo == st.v[BR].hi)
                    if not same:
                        viol.append(("on=>pin-at-last-brightness", f"the backlight state is on but the pin carries {p}, not {BR}"))
                elif fl is False:
                    if not (p is not None and p.lo == p.hi == 0):
                        viol.append(("off=>pin-at-0", f"the backlight state is off but the pin carries {p}"))
                else:
                    viol.append(("state-known-after-command", f"backlight state is {fl} after the command"))
            seen = set()
            for k, msg in viol:
                if k not in seen:
                    seen.add(k)
                    r.fail(f"{cname}/{k}", (em, eb), f"{label}: {msg}")
            if not viol:
                r.ok(label[:60])
    g = l2.global_decls(pe.emit_program(setup=[l2.lcd_decl("parallel", True)], loop=[]).text)
    r.check(g.get(BR, ("", ""))[1] == "255" and g.get(STV, ("", ""))[1] == "true", "LCDDecl/backlight-starts-on-at-255", (em, em.func("emit")), f"initial backlight shadow: {g.get(BR)}, {g.get(STV)}")
    hb = hm.func("LCD.brightness")
    from . import c04 as _c04
    for lv_, want_ in ((0, 0), (1, 1), (128, 128), (255, 255), (254.9, 254), (-1, "ValueError"), (256, "ValueError"), (1000, "ValueError"), (-0.5, 0)):
        o_ = _c04.host_object(hm, "LCD", rs=12, en=11, d4=5, d5=4, d6=3, d7=2, backlight_pin=10)
        try:
            out_ = dl.Interp(hm).call(hb, [o_, lv_])
        except dl.Unsupported as e:
            raise AnalysisError(f"host LCD.brightness left the evaluable subset: {e}")
        okb = (out_.kind == "raise" and out_.value == "ValueError") if want_ == "ValueError" else (out_.kind == "return" and getattr(o_, "brightness_level", None) == want_)
        r.check(okb, "LCD.brightness/host-range-0..255", (hm, hb), f"host brightness({lv_!r}) -> {out_!r}, level {getattr(o_, 'brightness_level', None)!r}; expected {want_!r} (levels are int(level) within 0..255, everything else is refused)")

    # ---- C17-GLYPH ---------------------------------------------------------------------------
    r = cx.rule("C17-GLYPH", "custom glyphs carry exactly eight rows masked to 5 bits on both sides, slot cast to uint8_t", floor=3)
    res = pe.emit_program(setup=[l2.lcd_decl("i2c"), cls["LCDGlyph"](name="dev", slot="H_slot", bitmap=[1, 2, 3, 4, 5, 6, 7, 40])], loop=[])
    arr = re.search(r"uint8_t\s+(\w+)\s*\[\s*8\s*\]\s*=\s*\{([^}]*)\}", res.text or "")
    vals = [int(x, 0) for x in re.findall(r"0[xX][0-9a-fA-F]+|\d+", arr.group(2))] if arr else None
    up = re.search(r"createChar\(\s*static_cast<uint8_t>\(\s*H_slot\s*\)\s*,\s*(\w+)\s*\)", res.text or "")
    okg = arr is not None and vals == [1, 2, 3, 4, 5, 6, 7, 8] and up is not None and up.group(1) == arr.group(1)
    r.check(okg, "LCDGlyph/eight-rows-masked-5-bits", (em, eb), f"glyph upload must declare uint8_t[8] with every row & 0x1F ({vals}) and pass the slot as uint8_t with that array")
    # host: evaluated - eight (or more) rows are stored as their first eight values masked to 5 bits, fewer are refused, the
    # slot must be 0..7
    from . import c04
    hg = hm.func("LCD.glyph")
    for slot_, bitmap_, want_ in ((1, [1, 2, 3, 4, 5, 6, 7, 40], [1, 2, 3, 4, 5, 6, 7, 8]), (0, [255] * 8, [31] * 8), (7, [32, 33, 0, 31, 64, 95, 1, 2], [0, 1, 0, 31, 0, 31, 1, 2]),
                                  (2, [1] * 7, "ValueError"), (2, [], "ValueError"), (8, [0] * 8, "ValueError"), (-1, [0] * 8, "ValueError")):
        o = c04.host_object(hm, "LCD", rs=12, en=11, d4=5, d5=4, d6=3, d7=2)
        try:
            out = dl.Interp(hm).call(hg, [o, slot_, list(bitmap_)])
        except dl.Unsupported as e:
            raise AnalysisError(f"host LCD.glyph left the evaluable subset: {e}")
        if want_ == "ValueError":
            okh = out.kind == "raise" and out.value == "ValueError"
        else:
            okh = out.kind == "return" and list(getattr(o, "glyphs", {}).get(slot_, [])) == want_
        r.check(okh, "LCD.glyph/host-eight-rows-masked", (hm, hg), f"host glyph({slot_}, {bitmap_}) -> {out!r}, stored {getattr(o, 'glyphs', {}).get(slot_)}; expected {want_}")
    # parser: a bitmap literal that does not have eight rows is refused
    for n_rows, accept in ((8, True), (7, False), (9, False), (0, False)):
        src_ = f"from Reduino.Displays import LCD\nlcd = LCD(i2c_addr=0x27)\nlcd.glyph(1, {[1] * n_rows})\nwhile True:\n    z0 = 0\n"
        try:
            _it, outp = pe.parse_source(src_)
        except dl.Unsupported as e:
            raise AnalysisError(f"parse() left the evaluable subset on a glyph script: {e}")
        r.check((outp.kind == "return") if accept else (outp.kind == "raise" and outp.value == "ValueError"), f"parser.glyph/requires-eight-rows[{n_rows}]", (pm, psl), f"lcd.glyph(1, <{n_rows} rows>): parse() -> {outp.kind}:{outp.value if outp.kind != 'return' else 'program'}; {'eight rows must be accepted' if accept else 'the parser must reject bitmaps that do not have 8 rows'}")

    # ---- C17-PROGRESS ------------------------------------------------------------------------
    # decided by evaluation of both sides as a whole: the firmware helper (C semantics, cell model of the display) and the
    # host LCD.progress (checker's interpreter) on a complete small grid
    r = cx.rule("C17-PROGRESS", "progress bars, firmware helper vs host method on a grid (widths 8/16; width None/-2/0/1/5/cols/cols+3; max_value -1/0/1/3/10; value -4..14; with and without a label): the drawn row has exactly `cols` cells and nothing is printed outside it; the number of filled cells is the same on both sides whenever value*width is a multiple of max_value and never differs by more than one cell; the bar (filled + empty cells) has the same width; the fill is monotone in value and saturates at 0 and at the bar width", floor=500, exhaustive=True)
    from .. import ckern
    from . import c04 as _c04p
    from . import c18 as _c18
    if "__redu_lcd_progress" not in fns:
        raise AnalysisError("__redu_lcd_progress vanished")
    _fresh, enum_ = _c18._anim_struct(em)
    hp = hm.func("LCD.progress")
    n_bad = 0

    def bad(key, msg, where):
        nonlocal n_bad
        n_bad += 1
        if n_bad <= 4:
            r.fail(key, where, msg)
        else:
            r.stat.obligations += 1
            r.stat.failed += 1

    snip_where = (em.rel, em.const("LCD_HELPER_SNIPPET").lineno)
    for cols in (8, 16):
        for width in (None, -2, 0, 1, 5, cols, cols + 3):
            for mx_ in (-1, 0, 1, 3, 10):
                for label in ("", "ab"):
                    prev_d = prev_h = None
                    for val in (-4, 0, 1, 2, 5, 9, 10, 14):
                        # host
                        o = _c04p.host_object(hm, "LCD", rs=12, en=11, d4=5, d5=4, d6=3, d7=2, cols=cols, rows=2)
                        try:
                            out = dl.Interp(hm).call(hp, [o, 0, val, mx_], {"width": width, "style": "hash", "label": (label or None)})
                        except dl.Unsupported as e:
                            raise AnalysisError(f"host LCD.progress left the evaluable subset: {e}")
                        if out.kind != "return":
                            bad("progress/host-accepts", f"host progress(0, {val}, {mx_}, width={width}, label={label!r}) raises {out.value}", (hm, hp))
                            continue
                        hrow = o.buffer[0]
                        # firmware
                        k = ckern.CallKern(fns, consts=enum_, max_steps=200000)
                        try:
                            k.ev(("call", "__redu_lcd_progress", [("lit", 0), ("lit", cols), ("lit", 0), ("lit", val), ("lit", mx_), ("lit", cols if width is None else width), ("lit", "#"), ("lit", '"' + label + '"')]))
                        except ckern.KernUnsupported as e:
                            raise AnalysisError(f"__redu_lcd_progress left the evaluable subset: {e}")
                        d = Display(cols, 2, [" " * cols, "." * cols])
                        d.feed(k.events)
                        drow = d.rows_text()[0]
                        case = f"progress(value={val}, max_value={mx_}, width={width}, label={label!r}) on {cols} columns"
                        if d.outside or d.rows_text()[1] != "." * cols:
                            bad("progress/firmware-stays-in-row", f"{case}: the firmware " + (f"prints outside the display at {d.outside[:2]}" if d.outside else "draws into the other row"), snip_where)
                            continue
                        if len(hrow) != cols:
                            bad("progress/host-row-width", f"{case}: the host row is {hrow!r} ({len(hrow)} cells)", (hm, hp))
                            continue
                        hfill, dfill = hrow.count("#"), drow.count("#")
                        hw = cols if width is None else max(1, min(cols, int(width)))
                        exact = (max(0, min(val, mx_)) * hw) % mx_ == 0 if mx_ > 0 else True
                        prefix = (label + " ") if label else ""
                        visible = max(0, min(hw, cols - len(prefix)))
                        good = (abs(dfill - hfill) <= 1 and (not exact or dfill == hfill or min(dfill, hfill) >= visible)
                                and drow[:len(prefix)] == hrow[:len(prefix)] and 0 <= dfill <= hw
                                and (prev_d is None or dfill >= prev_d) and (prev_h is None or hfill >= prev_h))
                        prev_d, prev_h = dfill, hfill
                        if good:
                            r.ok(None)
                        else:
                            bad("progress/bar-geometry=host", f"{case}: firmware row {drow!r} ({dfill} filled), host row {hrow!r} ({hfill} filled); the fills must agree (exactly when value*width is a multiple of max_value, within one cell otherwise), lie within the bar of {hw} cells and grow with the value", snip_where)

    # exact multiples on wider displays (value*width a multiple of max_value: both sides must fill the same number of cells -
    # a float product that lands just below the integer must not lose a cell)
    for cols in (20, 22, 23, 26, 39, 40):
        for mx_ in range(1, 45):
            for val in range(0, mx_ + 1):
                if (val * cols) % mx_ != 0 or (mx_ > 12 and val not in (0, mx_) and (val * cols) // mx_ in (0, cols)):
                    continue
                o = _c04p.host_object(hm, "LCD", rs=12, en=11, d4=5, d5=4, d6=3, d7=2, cols=cols, rows=2)
                try:
                    out = dl.Interp(hm).call(hp, [o, 0, val, mx_], {"style": "hash"})
                except dl.Unsupported as e:
                    raise AnalysisError(f"host LCD.progress left the evaluable subset: {e}")
                k = ckern.CallKern(fns, consts=enum_, max_steps=200000)
                try:
                    k.ev(("call", "__redu_lcd_progress", [("lit", 0), ("lit", cols), ("lit", 0), ("lit", val), ("lit", mx_), ("lit", cols), ("lit", "#"), ("lit", '""')]))
                except ckern.KernUnsupported as e:
                    raise AnalysisError(f"__redu_lcd_progress left the evaluable subset: {e}")
                d = Display(cols, 2, [" " * cols, "." * cols])
                d.feed(k.events)
                hfill = o.buffer[0].count("#") if out.kind == "return" else None
                dfill = d.rows_text()[0].count("#")
                if hfill == dfill == (val * cols) // mx_:
                    r.ok(None)
                else:
                    bad("progress/exact-multiples-fill-equal", f"progress(value={val}, max_value={mx_}) on {cols} columns: value*width/max_value is exactly {(val * cols) // mx_} cells; the firmware fills {dfill}, the host {hfill}", snip_where if dfill != (val * cols) // mx_ else (hm, hp))

    # ---- C17-CELLS ---------------------------------------------------------------------------
    rule_cells(cx, "C17-CELLS", em, hm, fns)
    rule_cells_emitted(cx, "C17-CELLS-EMITTED", em, hm, fns)

    # ---- binding of the LCD text arms (shared with C08) ---------------------------------------
    from . import c08
    c08.bind_rule(cx, "C17-BIND", "C17-MAP", only=("LCDDecl", "LCDWrite", "LCDLine", "LCDMessage", "LCDClear", "LCDDisplay", "LCDBacklight", "LCDBrightness", "LCDGlyph", "LCDProgress"), floor=50)



def rule_host_width(cx, hm, rid="C17-HOST-WIDTH"):
    """the host buffer keeps its shape: LCD methods evaluated (checker's interpreter) on four geometries, every start column,
    texts from empty to longer than the row, every alignment; rows outside 0..rows-1 are refused"""
    from . import c04
    import itertools
    r = cx.rule(rid, "after every LCD call of a grid (write/line/message/progress/clear/begin on 1x1, 8x2, 16x2 and 20x4 displays; columns 0..cols, texts of length 0..cols+3, three alignments, clear_row on/off) the host buffer has exactly `rows` rows of exactly `cols` characters; a row outside 0..rows-1 raises ValueError and leaves the buffer unchanged; text is cut at the right edge, never wrapped", floor=400, exhaustive=True)
    n_bad = 0

    def call(o, meth, args, kw=None):
        try:
            return dl.Interp(hm).call(hm.func(f"LCD.{meth}"), [o] + list(args), dict(kw or {}))
        except dl.Unsupported as e:
            raise AnalysisError(f"host LCD.{meth} left the evaluable subset: {e}")

    def shape_ok(o, cols, rows):
        return isinstance(o.buffer, list) and len(o.buffer) == rows and all(isinstance(x, str) and len(x) == cols for x in o.buffer)

    for cols, rows in ((1, 1), (8, 2), (16, 2), (20, 4)):
        def fresh():
            return c04.host_object(hm, "LCD", rs=12, en=11, d4=5, d5=4, d6=3, d7=2, cols=cols, rows=rows)
        texts = ["", "a", "x" * (cols - 1), "y" * cols, "z" * (cols + 3)] if cols > 1 else ["", "a", "abcd"]
        cases = []
        for col in sorted({0, 1, cols // 2, cols - 1, cols}):
            for row in range(rows):
                for text, al, clr in itertools.product(texts, ("left", "center", "right"), (True, False)):
                    cases.append(("write", [col, row, text], {"align": al, "clear_row": clr}))
        for row in range(rows):
            for text, al in itertools.product(texts, ("left", "center", "right")):
                cases.append(("line", [row, text], {"align": al}))
            for v_, w_ in ((0, None), (5, None), (10, cols), (7, 3), (3, cols + 5)):
                cases.append(("progress", [row, v_, 10], ({"width": w_} if w_ is not None else {})))
        for top, bottom in itertools.product(texts[:4], repeat=2):
            cases.append(("message", [top, bottom], {}))
        cases += [("clear", [], {}), ("begin", [], {})]
        for meth, args, kw in cases:
            o = fresh()
            call(o, "write", [0, 0, "#" * cols], {})       # a filled row: stale characters would show
            out = call(o, meth, args, kw)
            ok = shape_ok(o, cols, rows) and (out.kind == "return" or out.value == "ValueError")
            if meth == "message" and rows < 2 and out.kind == "raise":
                ok = shape_ok(o, cols, rows)
            if ok:
                r.ok(None)
            else:
                n_bad += 1
                if n_bad <= 3:
                    r.fail(f"LCD.{meth}/buffer-keeps-rows-x-cols", (hm, hm.func(f"LCD.{meth}")), f"{cols}x{rows} display: lcd.{meth}({', '.join(map(repr, args))}{', ' if kw else ''}{', '.join(f'{k_}={v_!r}' for k_, v_ in kw.items())}) -> {out!r}, buffer {o.buffer!r}", detail={"cols": cols, "rows": rows, "method": meth, "args": [repr(a_) for a_ in args]})
                else:
                    r.stat.obligations += 1
                    r.stat.failed += 1
        for meth, args in (("write", [0, rows, "x"]), ("write", [0, -1, "x"]), ("line", [rows, "x"]), ("line", [-1, "x"]), ("progress", [rows, 1, 2])):
            o = fresh()
            before = list(o.buffer)
            out = call(o, meth, args)
            r.check(out.kind == "raise" and out.value == "ValueError" and o.buffer == before, f"LCD.{meth}/row-outside-display-refused", (hm, hm.func(f"LCD.{meth}")), f"{cols}x{rows} display: lcd.{meth}({', '.join(map(repr, args))}) -> {out!r}, buffer {o.buffer!r}; a row outside 0..{rows - 1} must raise ValueError and change nothing")
        # cut at the right edge: a text that starts in the last column shows exactly its first character there
        if cols > 1:
            o = fresh()
            out = call(o, "write", [cols - 1, 0, "QRS"], {})
            r.check(out.kind == "return" and o.buffer[0][-1] == "Q" and (rows < 2 or "R" not in o.buffer[1]), "LCD.write/cut-at-the-right-edge-not-wrapped", (hm, hm.func("LCD.write")), f"{cols}x{rows}: write({cols - 1}, 0, 'QRS') leaves {o.buffer!r}")
    return r

"""C05 - setup()/loop() split: run-once prologue, repeated body, configure-before-use."""
from __future__ import annotations

import ast
import re

from .. import cxx, l2, lit, pe
from ..core import AnalysisError
from ..cxx import show, all_calls, all_stmts, callee, receiver, call_args
from ..flow import lexical_conds
from ..src import Locals, call_name, kwarg, mod, norm, stmt_key, walk_local
from . import c03

PARSER = "transpile/parser.py"
EMITTER = "transpile/emitter.py"
HOISTED = ("Led", "RGBLed", "Servo", "DCMotor", "Button", "Potentiometer", "Ultrasonic")


def flat_calls(body):
    """calls of a function body in source order (pre-order)"""
    return [c for c in all_calls(body)]


def run(cx):
    pm, em = mod(PARSER), mod(EMITTER)
    cx.consulted(pm)
    cx.consulted(em)
    cx.explanation = (
        'scripts through parse() (partial evaluation): where marked statements land (setup/loop/functions), which break placements are refused, housekeeping order; C++ scoping of the IR (sa/irscope.py) on a script corpus; prologue values; configure-before-use decided on sketches extracted by partial evaluation for every device kind declared before the loop, at the top of it, behind injected polls, re-bound to other pins, six in a row; one mode per pin; block extents by exhaustive evaluation (shared with C07). Lifetime of variables first assigned inside branches of the main loop is not decided.'
        " Since round 10 whole scripts are also taken through parse() and emit() (partial evaluation), the emitted translation unit is parsed by clang and interpreted by the checker's C evaluator on a scripted board (never compiled to code or run); phase scripts (prologue once and in order, persistence between passes, button sample before the first user statement of a pass) are decided on the traces of the c05 corpus scripts."
    )
    cls, fields = pe.ir_classes()
    pf = pm.func("parse")
    psl = pm.func("_parse_simple_lines")

    # ---- C05-ROUTE / C05-BREAK ---------------------------------------------------------------
    rule_scripts(cx, pm)

    # ---- C05-E2E: phases, persistence and housekeeping order on whole sketches --------------------
    from .. import e2e
    e2e.rule_traces(cx, "C05-E2E", "c05", (pm, pf), "phase scripts (prologue once and in order, globals whose initialiser depends on re-assigned operands, values persisting between passes, a loop body that opens with a first assignment, button samples taken before any user statement of the pass): the emitted sketch evaluated for setup() and several loop() passes issues CPython's commands in CPython's order")

    # ---- C05-SCOPE ---------------------------------------------------------------------------
    # decided by evaluation: a corpus of scripts is parsed (partial evaluation) and the IR is placed in the block structure the
    # emitter produces (sa/irscope.py): a variable bound before the main loop is a file-scope variable, nothing is declared
    # twice in a block, no declaration in setup()/loop() shadows a variable of the script, and every assignment or read
    # finds its variable in an enclosing scope
    r = cx.rule("C05-SCOPE", "for a corpus of scripts (typing, tuple-assignment and hoisting scripts; names first bound before the loop, in its blocks, in the loop, in nested blocks, in functions): every name bound at the top level before the main loop is declared at file scope, no block declares a name twice, no declaration inside setup()/loop() shadows a script variable (hoisted names stay declared on every path), and every assignment/read refers to a variable of an enclosing C++ scope", floor=30, exhaustive=True)
    from .. import irscope
    from . import c01, c02
    corpus = dict(c02.FLOW_SCRIPTS)
    for k_, (pro_, body_, _p) in c01.TUPLE_SCRIPTS.items():
        corpus["tuple-" + k_] = ("from Reduino.Sensors import Potentiometer\npot = Potentiometer('A0')\n" if "pot." in body_ else "") + pro_ + "while True:\n" + "".join("    " + l_ + "\n" for l_ in body_.splitlines())
    corpus.update({
        "hoisted-then-reassigned": "x = 0\nwhile True:\n    if x > 1:\n        y = 1\n    else:\n        y = 2\n    y = y + 1\n    while x < 3:\n        w = 1\n        x = x + 1\n    w = w + 1\n    for i in range(2):\n        v = i\n    v = v + w\n",
        "bound-in-setup-block-used-in-loop": "x = 0\nif x < 1:\n    mode = 2\nelse:\n    mode = 3\nfor i in range(2):\n    seen = i\nwhile True:\n    x = mode + seen\n",
        "promoted-global-reassigned-in-loop": "x = 1\nif x > 0:\n    mode = 10\nelse:\n    mode = 20\nfor i in range(3):\n    last = i\nwhile True:\n    mode = mode + 1\n    last = last + 2\n",
        "promoted-global-reassigned-at-top-level": "x = 1\nif x > 0:\n    mode = 10\nelse:\n    mode = 20\nmode = mode + 5\ntry:\n    q = 1\nexcept Exception:\n    q = 2\nq = q * 2\nwhile True:\n    x = mode + q\n",
        "counter-persists": "count = 0\nlimit = 3\nwhile True:\n    count = count + 1\n    if count > limit:\n        count = 0\n",
        "function-local-same-name-as-global": "total = 1\ndef bump(v):\n    total = v + 1\n    return total\nwhile True:\n    total = bump(total)\n",
        "try-hoist-then-reassigned": "d = 1\nwhile True:\n    try:\n        q = 1\n    except Exception:\n        q = 2\n    q = q + d\n",
        "nested-hoists": "x = 0\nwhile True:\n    if x > 0:\n        if x > 5:\n            deep = 1\n        else:\n            deep = 2\n        mid = deep\n    else:\n        mid = 0\n    x = mid\n",
    })
    import ast as _ast
    for label, src in corpus.items():
        try:
            _it, out = pe.parse_source(src)
        except dl.Unsupported as e:
            raise AnalysisError(f"parse() left the evaluable subset on scope script `{label}`: {e}")
        if out.kind != "return":
            r.fail(f"scope[{label}]/accepted", (pm, pf), f"the script `{label}` is rejected with {out.value}")
            continue
        prog = out.value
        viol = irscope.check(prog, src)
        r.check(not viol, f"scope[{label}]/well-scoped", (pm, pf), f"script `{label}`: {'; '.join(viol[:2])}", sample=f"{label}: well scoped")
        top = []
        for st in _ast.parse(src).body:
            if isinstance(st, _ast.While):
                break
            if isinstance(st, _ast.Assign):
                for t in st.targets:
                    top += [x.id for x in _ast.walk(t) if isinstance(x, _ast.Name)]
        globs = {d.name for d in prog.global_decls if getattr(d, "global_scope", False)}
        devices = {n_.name for n_ in prog.setup_body if type(n_).__name__.endswith("Decl") and type(n_).__name__ != "VarDecl"}
        missing = [n_ for n_ in top if n_ not in globs and n_ not in devices]
        r.check(not missing, f"scope[{label}]/top-level-names-are-file-scope", (pm, pf), f"script `{label}`: {missing} are bound at the top level before the main loop but not declared at file scope: loop() cannot see them / their value would not persist", sample=f"{label}: {sorted(set(top))} global")
    c03.rule_global_init(cx, "C05-GLOBAL-INIT")

    # ---- C05-CONFIG --------------------------------------------------------------------------
    r = cx.rule("C05-CONFIG", "every pin/peripheral a device uses is configured in setup() before its first use, for devices declared before the loop and (hoisted kinds) at the top of the loop body - also when injected polls/ticks precede the declaration; no pin is configured with two different modes; the emitter's hoisting scans never stop early", floor=30)
    S = cls["Sleep"]
    USE = {
        "Led": (cls["LedOn"](name="dev"), lambda c: callee(c) in ("digitalWrite", "analogWrite") and show(call_args(c)[0]) == "7", lambda c: show(c) == "pinMode(7, 1)"),
        "RGBLed": (cls["RGBLedOn"](name="dev", red=1, green=2, blue=3), lambda c: callee(c) == "analogWrite" and show(call_args(c)[0]) in ("3", "5", "6"), lambda c: show(c) in ("pinMode(3, 1)", "pinMode(5, 1)", "pinMode(6, 1)")),
        "Servo": (cls["ServoWrite"](name="dev", angle="H_a"), lambda c: callee(c) == "write" and show(receiver(c)) == "__servo_dev", lambda c: callee(c) == "attach" and show(receiver(c)) == "__servo_dev"),
        "DCMotor": (cls["DCMotorSetSpeed"](name="dev", speed="H_s"), lambda c: callee(c) == "analogWrite" and show(call_args(c)[0]) == "9" and show(call_args(c)[1]) != "0", lambda c: show(c) in ("pinMode(2, 1)", "pinMode(4, 1)", "pinMode(9, 1)")),
        "Button": (cls["ButtonPoll"](name="dev"), lambda c: callee(c) == "digitalRead" and show(call_args(c)[0]) == "7", lambda c: show(c) == "pinMode(7, 2)"),
        "Potentiometer": (cls["VarAssign"](name="v", expr="analogRead(A0)"), lambda c: callee(c) == "analogRead", lambda c: show(c) == "pinMode(14, 0)"),
        "Ultrasonic": (cls["ExprStmt"](expr="__redu_ultrasonic_measure_dev()"), lambda c: callee(c) == "__redu_ultrasonic_measure_dev", lambda c: show(c) in ("pinMode(10, 1)", "pinMode(11, 0)")),
        "Buzzer": (cls["BuzzerPlayTone"](name="dev", frequency="H_f", duration_ms=None), lambda c: callee(c) in ("tone", "noTone"), lambda c: show(c) == "pinMode(7, 1)"),
        "SerialMonitor": (cls["SerialWrite"](name="dev", value="H_text_value"), lambda c: callee(c) in ("println", "print") and show(receiver(c)) == "Serial", lambda c: callee(c) == "begin" and show(receiver(c)) == "Serial"),
    }
    NCONF = {"Led": 1, "RGBLed": 3, "Servo": 1, "DCMotor": 3, "Button": 1, "Potentiometer": 1, "Ultrasonic": 2, "Buzzer": 1, "SerialMonitor": 1}
    other_btn = cls["ButtonDecl"](name="btn", pin=12, on_click=None)
    for dev, (use, is_use, is_conf) in USE.items():
        placements = [("before-loop", [l2.decl_node(dev)], [], [use] if dev not in ("Button",) else [])]
        if dev in HOISTED:
            placements.append(("top-of-loop", [], [l2.decl_node(dev)], [use]))
            placements.append(("top-of-loop-behind-poll", [other_btn], [cls["ButtonPoll"](name="btn"), l2.decl_node(dev)], [use]))
        for label, setup, loop_pre, tail in placements:
            gl = [cls["VarDecl"](name="v", c_type="int", expr="0", global_scope=True)] if dev == "Potentiometer" else []
            kw = {"ultrasonic": {"dev"}} if dev == "Ultrasonic" else {}
            if label == "before-loop":
                res = pe.emit_program(setup=setup + ([] if dev == "Button" else []), loop=tail if dev != "Button" else [use], global_decls=gl, **kw)
            else:
                res = pe.emit_program(setup=setup, loop=loop_pre + tail, global_decls=gl, **kw)
            if res.raised:
                raise AnalysisError(f"emit() raises for {dev} {label}")
            try:
                f = l2.functions_of(res.text, ["setup", "loop"])
            except AnalysisError as e_:
                r.fail(f"{dev}[{label}]/sketch-compiles", (em, em.func("emit")), f"{dev} declared {label}: the extracted sketch does not even parse as C++ ({str(e_)[-160:]}): the declaration was not hoisted")
                continue
            sc, lc = flat_calls(f["setup"][0]["body"]), flat_calls(f["loop"][0]["body"])
            confs = [c for c in sc if is_conf(c)]
            r.check(len({show(c) for c in confs}) >= NCONF[dev], f"{dev}[{label}]/configured-in-setup", (em, em.func("emit")), f"{dev} declared {label}: setup() configures {[show(c) for c in confs]} (expected {NCONF[dev]} configuration call(s)); loop() then uses the device unconfigured")
            r.check(not [c for c in lc if is_conf(c)], f"{dev}[{label}]/not-configured-in-loop", (em, em.func("emit")), "configuration code is emitted into loop()")
            # configuration precedes any use inside setup()
            uses = [i for i, c in enumerate(sc) if is_use(c)]
            cidx = [i for i, c in enumerate(sc) if is_conf(c)]
            if uses and cidx:
                r.check(max(cidx) < min(uses) or dev in ("DCMotor",) and min(cidx) < min(uses), f"{dev}[{label}]/configured-before-first-use", (em, em.func("emit")), f"first use at call #{min(uses)}, configuration at {cidx}")
            # one mode per pin
            modes = {}
            for c in sc + lc:
                if callee(c) == "pinMode":
                    modes.setdefault(show(call_args(c)[0]), set()).add(show(call_args(c)[1]))
            r.check(all(len(m) == 1 for m in modes.values()), f"{dev}[{label}]/one-mode-per-pin", (em, em.func("emit")), f"pin modes: {modes}")
            if dev == "DCMotor":
                stop = [show(c) for c in sc if callee(c) in ("digitalWrite", "analogWrite")][:3]
                r.check(stop == ["digitalWrite(2, 0)", "digitalWrite(4, 0)", "analogWrite(9, 0)"], f"DCMotor[{label}]/safe-stop-in-setup", (em, em.func("emit")), f"motor start-up writes {stop}")
            if dev == "Servo":
                r.check("#include <Servo.h>" in res.text and "Servo __servo_dev;" in res.text, f"Servo[{label}]/object-and-header", (em, em.func("emit")), "servo object or header missing")
    # a name bound to a device more than once, on different pins (before the loop and again at the top of it, or twice at the
    # top of it): whatever pin loop() drives or reads must have been configured in setup()
    PINNED = {"Led": ({"pin": 5}, {"pin": 6}), "Button": ({"pin": 5}, {"pin": 6}),
              "RGBLed": ({"red_pin": 3, "green_pin": 5, "blue_pin": 6}, {"red_pin": 9, "green_pin": 10, "blue_pin": 11}),
              "DCMotor": ({"in1": 2, "in2": 4, "enable": 9}, {"in1": 7, "in2": 8, "enable": 10})}
    for dev, (first, second) in PINNED.items():
        if dev not in HOISTED:
            continue
        use = USE[dev][0]
        if dev == "Button":
            first, second = dict(first, on_click=None), dict(second, on_click=None)
        for label, setup, loop in (("rebound-at-top-of-loop", [l2.decl_node(dev, **first)], [l2.decl_node(dev, **second), use]),
                                   ("bound-twice-at-top-of-loop", [], [l2.decl_node(dev, **first), l2.decl_node(dev, **second), use])):
            res = pe.emit_program(setup=setup, loop=loop)
            if res.raised:
                r.ok(f"{dev}[{label}]: refused")
                continue
            try:
                f = l2.functions_of(res.text, ["setup", "loop"])
            except AnalysisError:
                r.ok(f"{dev}[{label}]: not a documented placement for this device")
                continue
            sc, lc = flat_calls(f["setup"][0]["body"]), flat_calls(f["loop"][0]["body"])
            configured = {show(call_args(c)[0]) for c in sc if callee(c) == "pinMode" and call_args(c)}
            used = {show(call_args(c)[0]) for c in lc if callee(c) in ("digitalWrite", "analogWrite", "digitalRead", "analogRead", "tone", "noTone") and call_args(c)}
            used = {u for u in used if u.isdigit()}
            r.check(used <= configured, f"{dev}[{label}]/every-pin-used-in-loop-configured-in-setup", (em, em.func("emit")), f"{dev} {label} (pins {sorted(first.values(), key=str)} then {sorted(second.values(), key=str)}): loop() drives/reads pins {sorted(used)}, setup() configures {sorted(configured)}", sample=f"{dev} {label}: {sorted(used)}")
    for kind in ("parallel", "i2c"):
        res = pe.emit_program(setup=[l2.lcd_decl(kind, True), cls["LCDLine"](name="dev", row=0, text="H_text_text", align="left", clear_row=True)], loop=[])
        sc = flat_calls(l2.functions_of(res.text, ["setup"])["setup"][0]["body"])
        names = [callee(c) for c in sc]
        init = "begin" if kind == "parallel" else "init"
        r.check(init in names and names.index(init) < names.index("__redu_lcd_write_aligned"), f"LCD[{kind}]/initialised-before-first-write", (em, em.func("emit")), f"setup() calls {names}")
    # two devices declared on the same pin *expression*, a variable re-assigned between the two declarations: each
    # declaration configures the pin its expression denotes where it stands (a declaration nested in a branch is outside
    # the documented style and not examined)
    for dev, conf_name in (("Led", "pinMode"), ("Buzzer", "pinMode"), ("Button", "pinMode"), ("Servo", "attach")):
        da, db = l2.decl_node(dev, name="a", pin="pinv"), l2.decl_node(dev, name="b", pin="pinv")
        res = pe.emit_program(global_decls=[cls["VarDecl"](name="pinv", c_type="int", expr="5", global_scope=True)], setup=[da, cls["VarAssign"](name="pinv", expr="(pinv + 1)"), db], loop=[])
        if res.raised:
            raise AnalysisError(f"emit() raises for two {dev}s on a pin variable")
        body = l2.functions_of(res.text, ["setup"])["setup"][0]["body"]
        seq = []
        for st in body:
            if st["k"] == "expr" and st["e"][0] == "assign" and show(st["e"][2]) == "pinv":
                seq.append("pinv=pinv+1")
            for c in all_calls([st]):
                if callee(c) == conf_name and call_args(c) and show(call_args(c)[0]) == "pinv":
                    seq.append(f"{conf_name}(pinv)")
        okv = "pinv=pinv+1" in seq and f"{conf_name}(pinv)" in seq[seq.index("pinv=pinv+1"):] and f"{conf_name}(pinv)" in seq[:seq.index("pinv=pinv+1")]
        r.check(okv, f"{dev}[pin-variable-reassigned-between-declarations]/configured-with-current-value", (em, em.func("emit")), f"`pinv=5; a={dev}(pinv); pinv=pinv+1; b={dev}(pinv)`: setup() runs {seq}; each device's pin must be configured with the value the variable has at its declaration (once before and once after the re-assignment)")
    # the hoisting scans are complete and precede statement emission - by evaluation: several devices declared one after the
    # other (before the loop behind other statements, and at the top of the loop), each used afterwards; every pin loop()
    # touches is configured in setup() and nothing is configured in loop()
    ef = em.func("emit")
    many = [l2.decl_node("Led", name="l1", pin=3), l2.decl_node("Button", name="b1", pin=4, on_click=None), l2.decl_node("Led", name="l2", pin=5),
            l2.decl_node("RGBLed", name="r1", red_pin=6, green_pin=9, blue_pin=10), l2.decl_node("Led", name="l3", pin=11), l2.decl_node("Button", name="b2", pin=12, on_click=None)]
    uses_ = [cls["LedOn"](name="l1"), cls["LedOn"](name="l2"), cls["LedOn"](name="l3"), cls["RGBLedOn"](name="r1", red=1, green=2, blue=3), cls["ButtonPoll"](name="b1"), cls["ButtonPoll"](name="b2")]
    for label, setup_, loop_ in (("several-devices-before-loop-behind-statements", [S(ms=1)] + many[:3] + [S(ms=2)] + many[3:], uses_),
                                 ("several-devices-at-top-of-loop", [], many + uses_)):
        res = pe.emit_program(setup=setup_, loop=loop_)
        if res.raised:
            raise AnalysisError(f"emit() raises for {label}")
        f = l2.functions_of(res.text, ["setup", "loop"])
        sc, lc = flat_calls(f["setup"][0]["body"]), flat_calls(f["loop"][0]["body"])
        configured = {show(call_args(c)[0]) for c in sc if callee(c) == "pinMode" and call_args(c)}
        used = {show(call_args(c)[0]) for c in lc if callee(c) in ("digitalWrite", "analogWrite", "digitalRead") and call_args(c)}
        used = {u for u in used if u.isdigit()}
        r.check(used == {"3", "4", "5", "6", "9", "10", "11", "12"} and used <= configured, f"{label}/every-pin-configured-in-setup", (em, em.func("emit")), f"{label}: loop() drives/reads pins {sorted(used, key=int)}; setup() configures {sorted(configured, key=lambda x_: int(x_) if x_.isdigit() else 99)}: a declaration behind the point where a scan stopped is never configured")
        r.check(not [c for c in lc if callee(c) == "pinMode"], f"{label}/nothing-configured-in-loop", (em, em.func("emit")), "configuration code is emitted into loop()")

    # two sensors that share a trigger pin: each still gets its own echo pin configured (before the loop and at the top of it)
    for place in ("before-loop", "top-of-loop"):
        ua = l2.decl_node("Ultrasonic", name="ua", trig=10, echo=11)
        ub = l2.decl_node("Ultrasonic", name="ub", trig=10, echo=12)
        use_ = [cls["VarAssign"](name="v", expr="__redu_ultrasonic_measure_ua()"), cls["VarAssign"](name="v", expr="__redu_ultrasonic_measure_ub()")]
        gl_ = [cls["VarDecl"](name="v", c_type="float", expr="0", global_scope=True)]
        res = pe.emit_program(setup=[ua, ub] if place == "before-loop" else [], loop=([] if place == "before-loop" else [ua, ub]) + use_, global_decls=gl_, ultrasonic={"ua", "ub"})
        if res.raised:
            raise AnalysisError(f"emit() raises for two ultrasonic sensors ({place})")
        sc_ = flat_calls(l2.functions_of(res.text, ["setup"])["setup"][0]["body"])
        modes_ = {show(call_args(c)[0]): show(call_args(c)[1]) for c in sc_ if callee(c) == "pinMode"}
        r.check(modes_.get("11") == "0" and modes_.get("12") == "0" and modes_.get("10") == "1", f"Ultrasonic[two-sensors-one-trigger,{place}]/every-echo-pin-configured", (em, em.func("emit")), f"two sensors on trigger pin 10 with echo pins 11 and 12 ({place}): setup() configures {modes_}; both echo pins must be INPUT and the trigger OUTPUT")

    # ---- C05-EXTENT (shared with C07): where the `while True:` body ends decides what runs once and what runs per pass ----
    from . import c07
    c07.rule_extent(cx, "C05-EXTENT")

    # ---- C05-ONCE ----------------------------------------------------------------------------
    r = cx.rule("C05-ONCE", "setup statements appear once in setup() and loop statements once in loop(), in order; injected polls precede ticks precede user statements", floor=4)
    res = pe.emit_program(setup=[S(ms=11), S(ms=12)], loop=[S(ms=21), S(ms=22)])
    f = l2.functions_of(res.text, ["setup", "loop"])
    r.check([show(c) for c in flat_calls(f["setup"][0]["body"])] == ["delay(11)", "delay(12)"], "emit/setup-statements-once-in-order", (em, ef), "setup body not emitted exactly once in order")
    r.check([show(c) for c in flat_calls(f["loop"][0]["body"])] == ["delay(21)", "delay(22)"], "emit/loop-statements-once-in-order", (em, ef), "loop body not emitted exactly once in order")
    r.check(res.text.count("void setup()") == 1 and res.text.count("void loop()") == 1, "emit/one-setup-one-loop", (em, ef), "setup()/loop() emitted more than once")
    # the body of the main loop is re-executed on every pass: a first assignment at the top of it (`total = 0`) is an ordinary
    # local declaration, never a `static` one that would keep last pass's value
    for ct_, ex_ in (("int", "0"), ("float", "0.0"), ("bool", "false"), ("String", '""'), ("int", "5")):
        res = pe.emit_program(setup=[], loop=[cls["VarDecl"](name="acc", c_type=ct_, expr=ex_, global_scope=False), cls["VarAssign"](name="acc", expr="(acc)")])
        lt_ = res.text[res.text.index("void loop()"):] if res.text and "void loop()" in res.text else ""
        r.check(re.search(rf"^\s*{re.escape(ct_)}\s+acc\s*=\s*{re.escape(ex_)}\s*;", lt_, re.M) is not None and "static" not in lt_, f"emit/loop-local[{ct_} = {ex_}]-reinitialised-every-pass", (em, em.func("_emit_block")), f"`acc = {ex_}` at the top of the main loop is emitted as `{next((l_.strip() for l_ in lt_.split(chr(10)) if ' acc =' in l_), '?')}`: it must be a plain local initialised on every loop() pass")
    empty = pe.emit_program(setup=[], loop=[])
    try:
        fe_ = l2.functions_of(empty.text, ["setup", "loop"])
        ok_empty = not empty.raised and len(fe_["setup"]) == 1 and len(fe_["loop"]) == 1 and not flat_calls(fe_["setup"][0]["body"]) and not flat_calls(fe_["loop"][0]["body"])
    except AnalysisError:
        ok_empty = False
    r.check(ok_empty, "emit/empty-bodies-still-well-formed", (em, ef), "an empty program must still give one empty setup() and one empty loop() that compile")



HEAD_ = ("from Reduino.Actuators import Led\nfrom Reduino.Sensors import Button\nfrom Reduino.Displays import LCD\nfrom Reduino.Utils import sleep\n"
         "led = Led(13)\nx = 0\n")


def _walk_ir(nodes, in_loop=False, path=()):
    """(node, inside a while/for node?, path of container class names) for every IR node, depth first in source order"""
    for n in nodes:
        cn = type(n).__name__
        yield n, in_loop, path
        inner_loop = in_loop or cn in ("WhileLoop", "ForRangeLoop")
        for f in ("body", "try_body", "branches", "handlers", "else_body"):      # source order of the child blocks
            sub = getattr(n, f, None)
            if not isinstance(sub, list):
                continue
            if f in ("branches", "handlers"):
                for br in sub:
                    yield from _walk_ir(list(getattr(br, "body", []) or []), inner_loop, path + (cn,))
            else:
                yield from _walk_ir(sub, inner_loop, path + (cn,))


def rule_scripts(cx, pm):
    """the setup/loop split and the break guards decided on whole scripts (partial evaluation of parse()): where each marked
    statement lands, in which order, what precedes the user statements of the loop, which `break` placements are refused"""
    from .. import dl
    r = cx.rule("C05-ROUTE", "scripts through parse(): statements before the top-level `while True:` land in setup_body in source order (also from if/for/try blocks), its body lands in loop_body in source order, function bodies in neither; the loop body starts with exactly one poll per declared button (sorted) followed by exactly one tick per animated display, then the user statements; a `while True:` inside a function is an ordinary loop", floor=8)
    rb = cx.rule("C05-BREAK", "scripts through parse(): `break` directly in the main loop body, under if/try of the main loop, outside any loop or directly in a function body is refused (ValueError); inside a while/for of setup, of the main loop or of a function it is accepted; in no accepted program is a BreakStmt reachable without passing through a while/for node", floor=14)
    pf = pm.func("parse")

    def parse(src):
        try:
            _it, out = pe.parse_source(src)
        except dl.Unsupported as e:
            raise AnalysisError(f"parse() left the evaluable subset: {e}")
        return out

    def marks(nodes):
        return [n.ms for n, _l, _p in _walk_ir(nodes) if type(n).__name__ == "Sleep"]

    route = {
        "straight": (HEAD_ + "sleep(1)\nsleep(2)\nwhile True:\n    sleep(3)\n    sleep(4)\n", [1, 2], [3, 4]),
        "blocks-before-loop": (HEAD_ + "sleep(1)\nif x > 1:\n    sleep(2)\nelse:\n    sleep(3)\nfor i in range(2):\n    sleep(4)\ntry:\n    sleep(5)\nexcept Exception:\n    sleep(6)\nsleep(7)\nwhile True:\n    sleep(8)\n    if x > 2:\n        sleep(9)\n    sleep(10)\n", [1, 2, 3, 4, 5, 6, 7], [8, 9, 10]),
        "function-between": (HEAD_ + "sleep(1)\ndef f():\n    sleep(50)\n    while True:\n        sleep(51)\n        break\nsleep(2)\nwhile True:\n    f()\n    sleep(3)\n", [1, 2], [3]),
        "comments-and-blanks": (HEAD_ + "# prologue\nsleep(1)\n\n# more\nsleep(2)\n\nwhile True:  # main\n    # body\n    sleep(3)\n\n    sleep(4)\n", [1, 2], [3, 4]),
        "no-main-loop": (HEAD_ + "sleep(1)\nsleep(2)\n", [1, 2], []),
        "empty-prologue": ("from Reduino.Utils import sleep\nwhile True:\n    sleep(3)\n", [], [3]),
    }
    for label, (src, want_setup, want_loop) in route.items():
        out = parse(src)
        if out.kind != "return":
            r.fail(f"route[{label}]/accepted", (pm, pf), f"script `{label}` is rejected with {out.value}")
            continue
        got_s, got_l = marks(list(out.value.setup_body)), marks(list(out.value.loop_body))
        r.check(got_s == want_setup and got_l == want_loop, f"route[{label}]/setup-then-loop-in-source-order", (pm, pf), f"script `{label}`: marked statements in setup_body {got_s} (expected {want_setup}), in loop_body {got_l} (expected {want_loop})")
    # a statement written after the main loop never runs in Python
    out = parse(HEAD_ + "sleep(1)\nwhile True:\n    sleep(3)\nsleep(7)\n")
    if out.kind == "return":
        r.check(7 not in marks(list(out.value.setup_body)), "parse/statements-after-main-loop-routed-to-setup", (pm, pf), "top-level statements written after `while True:` (never executed by Python) are appended to setup_body and run before the loop; a second `while True:` is merged into the first")
    else:
        r.ok("statement after the main loop: rejected")
    # housekeeping first
    hk = ("from Reduino.Actuators import Led\nfrom Reduino.Sensors import Button\nfrom Reduino.Displays import LCD\nfrom Reduino.Utils import sleep\nled = Led(13)\n"
          "def on_b():\n    led.toggle()\ndef on_a():\n    led.on()\nbtn_b = Button(7, on_click=on_b)\nbtn_a = Button(6, on_click=on_a)\nplain = Button(5)\n"
          "lcd2 = LCD(i2c_addr=0x27)\nlcd1 = LCD(rs=12, en=11, d4=5, d5=4, d6=3, d7=2)\nlcd2.animate('scroll', 0, 'hello', speed_ms=0)\nlcd1.animate('blink', 0, 'x', speed_ms=0)\nlcd2.animate('bounce', 1, 'y', speed_ms=0)\n"
          "while True:\n    sleep(3)\n    led.off()\n")
    out = parse(hk)
    if out.kind != "return":
        r.fail("route[housekeeping]/accepted", (pm, pf), f"the housekeeping script is rejected with {out.value}")
    else:
        heads = [(type(n).__name__, getattr(n, "name", None)) for n in list(out.value.loop_body)]
        want = [("ButtonPoll", "btn_a"), ("ButtonPoll", "btn_b"), ("ButtonPoll", "plain"), ("LCDTick", "lcd1"), ("LCDTick", "lcd2"), ("Sleep", None), ("LedOff", "led")]
        r.check(heads == want, "route[housekeeping]/polls-then-ticks-then-user-statements-once-each", (pm, pf), f"loop_body begins {heads}; expected {want}: one poll per declared button (sorted), one tick per animated display (sorted), then the user statements")
        r.check(not any(t_ in ("ButtonPoll", "LCDTick") for t_, _n in [(type(n).__name__, None) for n, _l, _p in _walk_ir(list(out.value.setup_body))]), "route[housekeeping]/none-in-setup", (pm, pf), "housekeeping nodes were placed in setup_body")

    brk = {
        "main-loop-level": ("while True:\n    break\n", False),
        "main-loop-under-if": ("while True:\n    if x > 1:\n        break\n", False),
        "main-loop-under-elif-else": ("while True:\n    if x > 1:\n        sleep(1)\n    elif x > 0:\n        sleep(2)\n    else:\n        break\n", False),
        "main-loop-under-try": ("while True:\n    try:\n        break\n    except Exception:\n        sleep(1)\n", False),
        "main-loop-under-except": ("while True:\n    try:\n        sleep(1)\n    except Exception:\n        break\n", False),
        "main-loop-after-inner-loop": ("while True:\n    while x < 3:\n        x = x + 1\n    break\n", False),
        "main-loop-one-line-if": ("while True:\n    if x > 3: break\n    sleep(1)\n", None),
        "inner-while": ("while True:\n    while x < 3:\n        break\n", True),
        "inner-for-under-if": ("while True:\n    for i in range(3):\n        if i > 1:\n            break\n", True),
        "inner-while-under-try": ("while True:\n    while x < 3:\n        try:\n            break\n        except Exception:\n            sleep(1)\n", True),
        "two-levels": ("while True:\n    for i in range(3):\n        while x < 2:\n            break\n        break\n", True),
        "setup-level": ("break\nwhile True:\n    sleep(1)\n", False),
        "setup-under-if": ("if x > 1:\n    break\nwhile True:\n    sleep(1)\n", False),
        "setup-for": ("for i in range(3):\n    break\nwhile True:\n    sleep(1)\n", True),
        "setup-while-under-if": ("while x < 3:\n    if x > 1:\n        break\n    x = x + 1\nwhile True:\n    sleep(1)\n", True),
        "function-level": ("def f():\n    break\nwhile True:\n    f()\n", False),
        "function-under-if": ("def f():\n    if x > 1:\n        break\nwhile True:\n    f()\n", False),
        "function-loop": ("def f():\n    for i in range(3):\n        break\nwhile True:\n    f()\n", True),
        "function-while-true": ("def f():\n    while True:\n        if x > 1:\n            break\n        x = x + 1\nwhile True:\n    f()\n", True),
        "function-defined-in-main-loop-call": ("def f():\n    while x < 2:\n        break\nwhile True:\n    if x > 1:\n        f()\n", True),
    }
    for label, (body, accept) in brk.items():
        out = parse(HEAD_ + body)
        if out.kind != "return":
            rb.check(accept is not True and out.value == "ValueError", f"break[{label}]/{'accepted' if accept else 'refused-with-ValueError'}", (pm, pf), f"`{body.strip().splitlines()[0]} ...` ({label}): parse() raises {out.value}" + ("; a break inside a nested loop is valid" if accept else "; a refusal must be a ValueError"))
            continue
        prog = out.value
        stray = []
        for where, nodes in [("setup_body", list(prog.setup_body)), ("loop_body", list(prog.loop_body))] + [(f"function {f_.name}", list(f_.body)) for f_ in (prog.functions or [])]:
            for n, in_loop, path in _walk_ir(nodes):
                if type(n).__name__ == "BreakStmt" and not in_loop:
                    stray.append(f"{where}{'/' + '/'.join(path) if path else ''}")
        n_breaks = sum(1 for where, nodes in [("s", list(prog.setup_body)), ("l", list(prog.loop_body))] + [("f", list(f_.body)) for f_ in (prog.functions or [])] for n, _l, _p in _walk_ir(nodes) if type(n).__name__ == "BreakStmt")
        rb.check(not stray, f"break[{label}]/no-break-outside-a-loop-node", (pm, pf), f"script `{label}` is accepted with a BreakStmt at {stray}: it is not inside any while/for node, so in the firmware it would leave loop() (or not compile)")
        if accept is True:
            rb.check(n_breaks >= 1, f"break[{label}]/kept", (pm, pf), f"script `{label}`: the break inside a nested loop disappeared from the IR")
        elif accept is False:
            rb.fail(f"break[{label}]/refused-with-ValueError", (pm, pf), f"script `{label}` is accepted ({n_breaks} BreakStmt node(s)); a `break` that is not inside a nested while/for must be refused") if True else None
    return r

"""C09 - generated firmware is memory-safe and does not leak across loop() passes (clause level)."""
from __future__ import annotations

import ast
import itertools
import re

from .. import cxx, dl, lit, pe
from ..cabs import Exec, State, lname
from ..core import AnalysisError
from ..cxx import show, sub_exprs, all_stmts, all_calls, stmt_exprs, callee, call_args
from ..flow import lexical_conds
from ..num import INF, Iv
from ..src import Locals, call_name, mod, norm, stmt_key, walk_local

PARSER = "transpile/parser.py"
EMITTER = "transpile/emitter.py"


def eval_list_get(variants):
    """every variant of the element getter evaluated (C semantics) on lists of 1..4 elements for every valid index, positive
    and negative: the element Python's indexing yields.  Returns None when all agree, else a description"""
    from .. import ckern
    for f in variants:
        pn = [p_[0] for p_ in f.get("params", [])]
        if len(pn) != 2:
            return f"getter takes {pn}"
        for size in (1, 2, 3, 4):
            data = [10 * (i_ + 1) for i_ in range(size)]
            for idx in range(-size, size):
                k = ckern.Kern(env={pn[0]: {"data": list(data), "size": size, "__types__": {"size": "size_t"}}, pn[1]: idx}, types={pn[1]: "int"})
                try:
                    k.block(f["body"])
                    got = "<no return>"
                except ckern._Return as r_:
                    got = r_.v
                except ckern.KernUnsupported as e:
                    return f"getter left the evaluable subset: {e}"
                if got != data[idx]:
                    return f"__redu_list_get(list of {size}, {idx}) yields {got!r}; Python's xs[{idx}] is {data[idx]}"
    return None


def _helper_table(fns):
    """name -> one variant (the last; const/non-const overloads share their body shape) for CallKern"""
    return {n: v[-1] for n, v in fns.items() if v}


def _rec(data):
    return {"data": list(data) if data else None, "size": len(data), "__types__": {"size": "size_t"}}


def _run_helper_concrete(fns, f, args):
    """evaluate helper variant f (C semantics, heap tracked) on concrete arguments; -> (return value | '<none>', error text | None)"""
    from .. import ckern
    k = ckern.CallKern(_helper_table(fns), max_steps=20000)
    k.record_defaults = {"__redu_list": lambda: _rec([])}
    for (pn, pt), v in zip(f["params"], args):
        k.env[pn] = v
        k.types[pn] = (pt or "").replace("const ", "").replace("&", "").strip()
    initial = [(a, a["data"]) for a in args if isinstance(a, dict) and isinstance(a.get("data"), list)]
    try:
        k.block(f["body"])
        rv = "<none>"
    except ckern._Return as r_:
        rv = r_.v
    except ckern.KernUnsupported as e:
        return None, str(e)
    # leaks: a buffer the call replaced must have been released; a buffer the call allocated must be owned by an argument
    # or by the returned record
    owned = {id(a["data"]) for a in args if isinstance(a, dict) and isinstance(a.get("data"), list)}
    if isinstance(rv, dict) and isinstance(rv.get("data"), list):
        owned.add(id(rv["data"]))
    for a, buf in initial:
        if a["data"] is not buf and id(buf) not in k.heap_freed and id(buf) not in owned:
            return rv, "the list's previous buffer is neither released nor owned any more (leak on every call)"
        if id(a["data"]) in k.heap_freed:
            return rv, "the list is left pointing at a released buffer"
    for buf in k.heap_all:
        if id(buf) not in k.heap_freed and id(buf) not in owned:
            return rv, f"a buffer of {len(buf)} element(s) allocated by the call is neither released nor handed to a list (leak on every call)"
    return rv, None


def _live(rec):
    d = rec["data"]
    return list(d[: rec["size"]]) if isinstance(d, list) else []


def eval_list_helpers(fns):
    """Python's list semantics and memory safety of the helper templates decided by evaluation (C semantics, tracked heap:
    every index is bounds-checked against its buffer, freed buffers may not be touched) on all lists of up to four elements
    over two values.  -> (number of evaluations, [(key, message)])"""
    import itertools
    bad, n = [], 0

    def generic(name):
        return [f for f in fns.get(name, []) if any("__redu_list" in (t or "") or t in ("T", "const T &", "Func") for _n, t in f.get("params", []))]

    lists = [list(c) for size in range(0, 5) for c in itertools.product((1, 2), repeat=size)]
    for f in generic("__redu_list_remove"):
        for xs in lists:
            for v in (1, 2, 3):
                rec = _rec(xs)
                _rv, err = _run_helper_concrete(fns, f, [rec, v])
                n += 1
                want = list(xs)
                if v in want:
                    want.remove(v)
                if err is not None:
                    bad.append(("remove/memory-safe", f"__redu_list_remove({xs}, {v}): {err}"))
                elif _live(rec) != want or rec["size"] != len(want):
                    bad.append(("remove/first-equal-element-only", f"__redu_list_remove({xs}, {v}) leaves {_live(rec)} (size {rec['size']}); Python's list.remove leaves {want}"))
                elif want and (not isinstance(rec["data"], list) or len(rec["data"]) < len(want)):
                    bad.append(("remove/memory-safe", f"__redu_list_remove({xs}, {v}): the buffer holds {len(rec['data'] or [])} elements for size {rec['size']}"))
    for f in generic("__redu_list_append"):
        for xs in lists:
            rec = _rec(xs)
            _rv, err = _run_helper_concrete(fns, f, [rec, 7])
            n += 1
            if err is not None:
                bad.append(("append/memory-safe", f"__redu_list_append({xs}, 7): {err}"))
            elif _live(rec) != xs + [7] or rec["size"] != len(xs) + 1:
                bad.append(("append/adds-one-at-the-end", f"__redu_list_append({xs}, 7) leaves {_live(rec)} (size {rec['size']}); Python leaves {xs + [7]}"))
            elif len(rec["data"]) < rec["size"]:
                bad.append(("append/memory-safe", f"__redu_list_append({xs}, 7): buffer of {len(rec['data'])} for size {rec['size']}"))
    for f in generic("__redu_list_assign"):
        for xs in lists[:15]:
            for ys in lists[:15]:
                d, s_ = _rec(xs), _rec(ys)
                old = d["data"]
                _rv, err = _run_helper_concrete(fns, f, [d, s_])
                n += 1
                if err is not None:
                    bad.append(("assign/memory-safe", f"__redu_list_assign({xs}, {ys}): {err}"))
                elif _live(d) != ys or _live(s_) != ys:
                    bad.append(("assign/copies-the-source", f"__redu_list_assign({xs}, {ys}) leaves dest {_live(d)}, source {_live(s_)}"))
                elif ys and d["data"] is s_["data"]:
                    bad.append(("assign/deep-copy", f"__redu_list_assign({xs}, {ys}): dest shares the source's buffer"))
        d = _rec([1, 2])
        _rv, err = _run_helper_concrete(fns, f, [d, d])
        n += 1
        if err is not None or _live(d) != [1, 2]:
            bad.append(("assign/self-assignment", f"__redu_list_assign(a, a) leaves {_live(d)} {err or ''}"))
    for f in generic("__redu_list_get"):
        for xs in lists:
            data = [10 * (i_ + 1) for i_ in range(len(xs))]
            for idx in range(-len(data), len(data)):
                rv, err = _run_helper_concrete(fns, f, [_rec(data), idx])
                n += 1
                if err is not None:
                    bad.append(("get/memory-safe", f"__redu_list_get(list of {len(data)}, {idx}): {err}"))
                elif rv != data[idx]:
                    bad.append(("get/negative-index-counts-from-the-end", f"__redu_list_get(list of {len(data)}, {idx}) yields {rv!r}; Python's xs[{idx}] is {data[idx]}"))
    for f in [g for g in fns.get("__redu_list_from_range", []) if any(t == "Func" for _n, t in g.get("params", []))]:
        for start, stop, step in itertools.product((0, 1, 7, -2, 10), (0, 5, -3, 7, 2), (1, 2, 3, -1, -2, -3, 0)):
            seen = []

            def fn_(v, _s=seen):
                _s.append(v)
                return v * 2 + 1
            rv, err = _run_helper_concrete(fns, f, [start, stop, step, fn_])
            n += 1
            want = list(range(start, stop, step)) if step else []
            if err is not None:
                bad.append(("from_range/memory-safe", f"__redu_list_from_range({start}, {stop}, {step}): {err}"))
            elif not isinstance(rv, dict) or _live(rv) != [v * 2 + 1 for v in want] or rv.get("size") != len(want):
                bad.append(("from_range/elements=range(start,stop,step)", f"__redu_list_from_range({start}, {stop}, {step}) yields {_live(rv) if isinstance(rv, dict) else rv!r}; Python's range gives {[v * 2 + 1 for v in want]}"))
    for f in [g for g in fns.get("__redu_len", []) if any("__redu_list" in (t or "") for _n, t in g.get("params", []))]:
        for xs in lists[:15]:
            rv, err = _run_helper_concrete(fns, f, [_rec(xs)])
            n += 1
            if err is not None or rv != len(xs):
                bad.append(("len/list-size", f"__redu_len({xs}) yields {rv!r} {err or ''}"))
    return n, bad


def list_helpers(em):
    snippet = lit.table(em, "LIST_HELPER_SNIPPET")
    # every helper the list snippet - or the len snippet instantiated with it - defines or calls (shared inline helpers too)
    names = sorted(set(re.findall(r"\b(__redu_\w+)\s*\(", snippet + "\n" + lit.table(em, "LEN_HELPER_SNIPPET"))))
    drv = ("#include <Arduino.h>\n" + snippet + "\n" + lit.table(em, "LEN_HELPER_SNIPPET") + """
void use() {
  __redu_list<int> a = __redu_make_list<int>(1, 2, 3);
  __redu_list<int> e = __redu_make_list<int>();
  const __redu_list<int> &c = a;
  int x = __redu_list_get(a, -1);
  int y = __redu_list_get(c, 0);
  __redu_list_append(a, x);
  __redu_list_remove(a, y);
  __redu_list_assign(e, a);
  __redu_list<int> r = __redu_list_from_range<int>(0, 5, 2, [&](int i) { return (i * 2); });
  (void)r;
}
""")
    # any further list helper (e.g. added by a change) is instantiated generically so that it is analysed too
    extra = [n for n in names if n not in ("__redu_make_list", "__redu_list_get", "__redu_list_append", "__redu_list_remove", "__redu_list_assign", "__redu_list_from_range", "__redu_len")]
    for n in extra:
        drv += f"void use_{n}() {{ __redu_list<int> p = __redu_make_list<int>(1); __redu_list<int> q = __redu_make_list<int>(2); {n}(p, q); }}\n"
    errs = cxx.typecheck(drv)
    if errs:
        # the generic instantiation of an unknown helper may not fit its signature; analyse the rest
        drv = re.sub(r"void use___redu\w+\(\) \{.*?\}\n", "", drv)
        errs = cxx.typecheck(drv)
        if errs:
            raise AnalysisError("list helper snippet does not type-check: " + errs[0])
    fns = cxx.ast_functions(drv, names)
    return fns, snippet, names


class Heap:
    """allocation tracking on top of the abstract interpreter: sizes of buffers, frees, aliasing stores"""

    def __init__(self, label):
        self.label = label
        self.viol = []
        self.oblig = 0

    def fail(self, key, msg):
        if (key, msg) not in self.viol:
            self.viol.append((key, msg))

    def on_assign(self, name, e, iv, st):
        core = e
        while core is not None and core[0] == "cast":
            core = core[2]
        if core is not None and core[0] == "cond":
            # size ? new T[size] : nullptr
            for br in (core[2], core[3]):
                if br[0] == "new":
                    core = br
        if core is not None and core[0] == "new":
            size = self.ex.ev(core[2], st) if core[2] is not None else Iv(1, 1)
            st.v["@alloc:" + name] = size
            st.flags["@freed:" + name] = False
            st.flags["@owner:" + name] = name
        elif core is not None and lname(core) and ("@alloc:" + lname(core)) in st.v:
            src = lname(core)
            st.v["@alloc:" + name] = st.v["@alloc:" + src]
            st.flags["@freed:" + name] = st.flags.get("@freed:" + src, False)
            st.flags["@owner:" + name] = st.flags.get("@owner:" + src, src)
        elif core is not None and core[0] == "lit" and core[1] is None:
            st.v["@alloc:" + name] = Iv(0, 0)
            st.flags["@freed:" + name] = False

    def on_mem(self, kind, e, st):
        if kind in ("index-read", "index-write"):
            base = lname(e[1])
            if base is None or ("@alloc:" + base) not in st.v:
                return
            self.oblig += 1
            idx = self.ex.ev(e[2], st)
            alloc = st.v["@alloc:" + base]
            if st.flags.get("@freed:" + base) is True:
                self.fail("use-after-free", f"`{show(e)}` {('reads' if kind == 'index-read' else 'writes')} a buffer that was already deleted")
            if not (idx.lo >= 0 and idx.hi <= alloc.lo - 1):
                self.fail("buffer-bounds", f"`{show(e)}` {('reads' if kind == 'index-read' else 'writes')} index {idx} of a buffer with {alloc} elements")
        elif kind == "delete":
            base = lname(e[1])
            if base is None:
                return
            self.oblig += 1
            if st.flags.get("@freed:" + base) is True:
                self.fail("double-free", f"`{show(e)}` frees a buffer twice")
            owner = st.flags.get("@owner:" + base, base)
            for k in list(st.flags):
                if k.startswith("@owner:") and st.flags[k] == owner:
                    st.flags["@freed:" + k[len("@owner:"):]] = True
            st.flags["@freed:" + base] = True


class OwnSim:
    """ownership simulation of list buffers over a straight-line IR sequence: every list variable points at a buffer;
    a struct copy shares it, the helpers allocate/free as their templates do (assign: free the target's old buffer, then
    copy the source; append/remove: reallocate).  Reports reads of freed buffers."""
    FRESH = re.compile(r"\s*(__redu_make_list\b|__redu_list_from_range\b|__redu_list<)")

    def __init__(self, list_vars):
        self.ptr = {}
        self.live = {}
        self.n = 0
        self.viol = []
        for v in list_vars:
            self.ptr[v] = self.new()

    def new(self):
        self.n += 1
        self.live[self.n] = True
        return self.n

    def read(self, v, what):
        b = self.ptr.get(v)
        if b is not None and not self.live[b]:
            self.viol.append(f"{what} reads the buffer of `{v}` after it was freed")

    def reads_in(self, text, what, skip=()):
        for nm in set(re.findall(r"[A-Za-z_]\w*", text)):
            if nm in self.ptr and nm not in skip:
                self.read(nm, what)

    def step(self, n_):
        cn = type(n_).__name__
        if cn in ("VarDecl", "VarAssign"):
            e_ = str(n_.expr).strip()
            is_list = "__redu_list" in str(getattr(n_, "c_type", "")) or n_.name in self.ptr
            if not is_list:
                self.reads_in(e_, f"`{n_.name} = {e_}`")
                return
            if self.FRESH.match(e_):
                self.reads_in(e_, f"`{n_.name} = {e_}`")
                self.ptr[n_.name] = self.new()
            elif e_ in self.ptr:
                self.read(e_, f"`{n_.name} = {e_}`")
                self.ptr[n_.name] = self.ptr[e_]
            else:
                self.reads_in(e_, f"`{n_.name} = {e_}`")
                self.ptr[n_.name] = self.new()
        elif cn == "ExprStmt":
            e_ = str(n_.expr).strip()
            m = re.match(r"__redu_list_(assign|append|remove)\(\s*([A-Za-z_]\w*)\s*,\s*(.*)\)\s*$", e_)
            if not m:
                self.reads_in(e_, f"`{e_}`")
                return
            op, tgt, arg = m.groups()
            if op == "assign":
                src = arg.strip()
                if src == tgt:
                    return                  # self-assignment returns early in the helper
                old = self.ptr.get(tgt)
                if old is not None:
                    self.live[old] = False      # the helper releases the destination before it copies
                self.reads_in(src, f"`{e_}`")
                self.ptr[tgt] = self.new()
            else:
                self.read(tgt, f"`{e_}`")
                self.reads_in(arg, f"`{e_}`", skip=(tgt,))
                old = self.ptr.get(tgt)
                self.ptr[tgt] = self.new()
                if old is not None:
                    self.live[old] = False

    def run(self, nodes):
        for n_ in nodes:
            self.step(n_)
        return self


def run(cx):
    em, pm = mod(EMITTER), mod(PARSER)
    cx.consulted(em)
    cx.consulted(pm)
    cx.explanation = (
        "the list helper templates are instantiated, parsed by clang and evaluated with C semantics and a tracked heap (new[]/delete[], bounds, use after free, double free, leaks, pointer arithmetic) on every list of <= 4 elements over two values and a grid of ranges, against Python's list semantics; ownership discipline (rule of three, delete-before-overwrite, no aliasing stores) on the typed AST; the parser's copy policy on scripts plus an ownership simulation of the loop IR; the static length model on prologues with run-time values. Absence of out-of-bounds accesses for all programs and heap constancy across passes are not decided."
        " Since round 10 whole scripts are also taken through parse() and emit() (partial evaluation), the emitted translation unit is parsed by clang and interpreted by the checker's C evaluator on a scripted board (never compiled to code or run); the number of live heap buffers after setup() and after each loop() pass must stay constant for the list scripts of the corpus."
    )
    from .. import e2e
    e2e.rule_heap(cx, "C09-E2E", (pm, pm.func("parse")))
    fns, snippet, names = list_helpers(em)
    line = em.const("LIST_HELPER_SNIPPET").lineno

    # ---- C09-OWN -----------------------------------------------------------------------------
    r = cx.rule("C09-OWN", "a record that owns a new[] buffer declares destructor, copy constructor and copy assignment (otherwise every by-value copy is a shallow alias and every temporary leaks)", floor=1)
    struct = re.search(r"struct __redu_list \{(.*?)\n\};", snippet, re.S)
    if not struct:
        raise AnalysisError("struct __redu_list not found")
    body = struct.group(1)
    has_dtor = "~__redu_list" in body
    has_copy = re.search(r"__redu_list\(const __redu_list", body) is not None
    has_assign = "operator=" in body
    r.check(has_dtor and has_copy and has_assign, "__redu_list/rule-of-three", (em.rel, line), f"__redu_list owns `T *data` (new[]) but declares destructor={has_dtor}, copy-constructor={has_copy}, copy-assignment={has_assign}: `b = a` shares one buffer (use after free once either is reassigned/appended) and `x = [..]` inside loop() leaks the old buffer each pass")

    # ---- C09-PAIR ----------------------------------------------------------------------------
    r = cx.rule("C09-PAIR", "in every helper a by-reference list's data pointer is only overwritten after delete[] of the old buffer, every new[] result is stored into a data field (or a local that is), no helper stores one list's data pointer into another list, (self-assignment and deep copy are decided by evaluation in C09-BOUNDS)", floor=2)
    for n, variants in fns.items():
        f = variants[-1]
        byref = {p for p, t in f["params"] if t and "&" in t and "const" not in t and "__redu_list" in t}
        cref = {p for p, t in f["params"] if t and "&" in t and "const" in t and "__redu_list" in t}
        flat = []
        for s in all_stmts(f["body"]):
            for e in stmt_exprs(s):
                for x in sub_exprs(e):
                    flat.append(x)
        seen_delete = set()
        order = []

        def walk(stmts):
            for s in stmts:
                for e in stmt_exprs(s):
                    for x in sub_exprs(e):
                        order.append(x)
                if s["k"] == "if":
                    walk(s["then"])
                    if s["else"]:
                        walk(s["else"])
                elif s["k"] in ("for", "while", "block"):
                    if s["k"] == "for":
                        walk(s["init"])
                    walk(s["body"])
        walk(f["body"])
        # path-sensitive must-analysis: which buffers have certainly been delete[]d when a data pointer is overwritten
        def flow(stmts, deleted):
            """returns the must-deleted set at the end of stmts (None = every path left through return)"""
            cur = set(deleted)
            for s_ in stmts:
                for e in stmt_exprs(s_) if s_["k"] not in ("if", "for", "while") else ([s_["cond"]] if s_.get("cond") is not None else []):
                    cur = visit(e, cur)
                k_ = s_["k"]
                if k_ == "block":
                    res = flow(s_["body"], cur)
                    if res is None:
                        return None
                    cur = res
                elif k_ == "if":
                    # `if (p != nullptr) delete[] p;` - where the test fails there is no buffer to free
                    c_ = s_["cond"]
                    nullp = None
                    if c_ is not None and c_[0] == "bin" and c_[1] == "!=" and c_[3] == ("lit", None):
                        nullp = lname(c_[2])
                    elif c_ is not None and c_[0] in ("member", "var"):
                        nullp = lname(c_)
                    a_ = flow(s_["then"], cur)
                    b_ = flow(s_["else"], cur | ({nullp} if nullp else set())) if s_["else"] else set(cur) | ({nullp} if nullp else set())
                    if a_ is None and b_ is None:
                        return None
                    cur = b_ if a_ is None else a_ if b_ is None else (a_ & b_)
                elif k_ in ("for", "while"):
                    if k_ == "for":
                        flow(s_["init"], cur)
                    flow(s_["body"], cur)      # obligations inside the body are checked; its deletes do not outlive the loop
                elif k_ == "return":
                    return None
            return cur

        ever_freed = set()
        ref_params = {p for p, t in f["params"] if t and "&" in t and "__redu_list" not in t}    # e.g. const T &value: may refer to an element of the list

        def visit(e, cur):
            freed_lists = set(ever_freed)
            if freed_lists:
                for x in sub_exprs(e):
                    if x[0] == "var" and x[1] in ref_params:
                        r.fail(f"{n}/reference-parameter-read-after-free[{x[1]}]", (em.rel, line), f"{n}: `{show(e)}` reads the by-reference parameter `{x[1]}` after `delete[]` of {sorted(freed_lists)}: when the caller passes an element of that very list (`xs.append(xs[0])`) the reference points into the freed buffer")
                        break
            for x in sub_exprs(e):
                if x[0] == "delete":
                    cur = cur | {lname(x[1])}
                    if lname(x[1]) and any(lname(x[1]).startswith(b_ + ".") for b_ in byref):
                        ever_freed.add(lname(x[1]))     # the caller's old buffer is gone for good, whatever the pointer is re-bound to
                if x[0] == "assign" and x[1] == "=" and x[2][0] == "member" and x[2][2] == "data":
                    owner = lname(x[2][1])
                    tgt = lname(x[2])
                    if owner in byref:
                        r.check(tgt in cur, f"{n}/delete-before-overwrite[{tgt}]", (em.rel, line), f"{n}: `{show(x)}` overwrites the buffer pointer of a caller-owned list on a path that has not delete[]d the old buffer (leak on every such call)", sample=f"{n}: delete[] {tgt} before {show(x)[:40]}")
                        cur = cur - {tgt}
                    src = x[3]
                    while src[0] == "cast":
                        src = src[2]
                    if src[0] == "member" and src[2] == "data" and lname(src[1]) != owner:
                        r.fail(f"{n}/aliasing-store[{show(x)}]", (em.rel, line), f"{n}: `{show(x)}` makes two lists share one buffer: freeing or growing either leaves the other dangling")
            return cur

        flow(f["body"], set())
    r.check(set(fns) >= {"__redu_list_append", "__redu_list_remove", "__redu_list_assign", "__redu_list_get", "__redu_list_from_range", "__redu_make_list"}, "helpers/present", (em.rel, line), f"list helpers found: {sorted(fns)}")

    # ---- C09-SIB -----------------------------------------------------------------------------
    n_eval, bad_eval = eval_list_helpers(fns)
    r = cx.rule("C09-SIB", "every variant of the element getter (const and non-const) returns, for every list of up to four elements and every valid index, positive or negative, the element Python's indexing yields (variants evaluated with C semantics; helpers they call are entered)", floor=1)
    g = fns.get("__redu_list_get", [])
    r.check(len(g) >= 2, "__redu_list_get/const-and-mutable-present", (em.rel, line), f"{len(g)} getters")
    gb = [(k, m) for k, m in bad_eval if k.startswith("get/")]
    r.check(not gb, "__redu_list_get/negative-index-normalised", (em.rel, line), f"negative indices must count from the end in both getters: {gb[0][1] if gb else ''}")

    # ---- C09-BOUNDS --------------------------------------------------------------------------
    r = cx.rule("C09-BOUNDS", "for every list of up to four elements (and every range(start, stop, step) on a grid) each helper's buffer indices stay inside the extent it allocated, nothing is used after delete[] and nothing is freed twice, and the result is Python's (evaluation with C semantics and a tracked heap; helpers of unknown meaning are analysed by abstract interpretation with allocation tracking)", floor=1000, exhaustive=True)

    def run_helper(name, f, init_vars, label):
        h = Heap(label)
        ex = Exec(on_assign=h.on_assign, partition={"remove_index"})
        ex.on_mem = h.on_mem
        ex.unroll = 24
        h.ex = ex
        st = State()
        for k, v in init_vars.items():
            if isinstance(v, Iv):
                st.v[k] = v
            else:
                st.flags[k] = v
        ex.run(f["body"], [st])
        return h

    # the helpers with known semantics: evaluated (C semantics, tracked heap) on every list of up to four elements over two
    # values - every equality pattern with the argument - and on a grid of ranges; an index outside its buffer, a touch of a
    # freed buffer or a second delete[] stops the evaluation and is reported
    r.ok("helpers evaluated with a tracked heap", n=n_eval - len(bad_eval))
    seen_k = set()
    for key, msg in bad_eval:
        if key.startswith("get/") and not key.endswith("memory-safe"):
            continue
        hn = "__redu_list_" + key.split("/")[0] if not key.startswith("len") else "__redu_len"
        k2 = f"{hn}/{key.split('/', 1)[1]}"
        if k2 in seen_k:
            r.stat.obligations += 1
            r.stat.failed += 1
            continue
        seen_k.add(k2)
        r.fail(k2, (em.rel, line), msg)
    for n, variants in fns.items():
        if n in ("__redu_list_append", "__redu_list_remove", "__redu_list_assign", "__redu_list_from_range", "__redu_list_get", "__redu_make_list", "__redu_len"):
            continue
        f = variants[-1]
        lists = [p for p, t in f["params"] if t and "__redu_list" in t]
        for size in range(0, 4):
            init = {}
            for p in lists:
                init.update({f"{p}.size": Iv(size, size), f"@alloc:{p}.data": Iv(size, size), f"@freed:{p}.data": False, f"@owner:{p}.data": f"{p}.data"})
            h = run_helper(n, f, init, f"{n}(size={size})")
            for k, msg in h.viol:
                r.fail(f"{n}/{k}", (em.rel, line), f"{n}(size={size}): {msg}")
    mk = fns["__redu_make_list"]
    txt = " ".join(show(e) for v in mk for s in all_stmts(v["body"]) for e in stmt_exprs(s))
    r.check("result.size = " in txt and "new " in txt, "__redu_make_list/size-matches-initialiser", (em.rel, line), "make_list must allocate exactly sizeof...(Rest)+1 elements")
    r.check("result.size = sizeof...(Rest) + 1;" in snippet and "new T[result.size]{static_cast<T>(first), static_cast<T>(rest)...}" in snippet, "__redu_make_list/extent=argument-count", (em.rel, line), "make_list extent and initialiser list changed")

    # ---- C09-COPY-POLICY ---------------------------------------------------------------------
    r = cx.rule("C09-COPY-POLICY", "a list-typed variable only ever receives a deep copy: scripts that re-assign a declared list (from a variable, a literal, a comprehension, itself; in setup, in the main loop, under an if, in a function) are partially evaluated and every write to the list must go through the deep-copying __redu_list_assign helper; a first declaration from another list variable must not copy the struct", floor=8)
    ha = pm.func("_handle_assignment_ast")
    pf = pm.func("parse")
    REASSIGN = {
        "setup-from-variable": ("a = [1, 2, 3]\nb = [4, 5, 6]\na = b\nwhile True:\n    a0 = 0\n", "a"),
        "loop-from-variable": ("a = [1, 2, 3]\nb = [4, 5, 6]\nwhile True:\n    a = b\n", "a"),
        "loop-from-literal": ("a = [1, 2, 3]\nwhile True:\n    a = [7, 8, 9]\n", "a"),
        "loop-from-comprehension": ("a = [1, 2, 3]\nwhile True:\n    a = [x * 2 for x in range(3)]\n", "a"),
        "loop-under-if": ("a = [1, 2, 3]\nb = [4, 5, 6]\nx = 1\nwhile True:\n    if x > 0:\n        a = b\n    else:\n        a = [0, 0, 0]\n", "a"),
        "loop-self": ("a = [1, 2, 3]\nwhile True:\n    a = a\n", "a"),
        "function-local": ("def f():\n    c = [1, 2]\n    d = [3, 4]\n    c = d\n    return len(c)\nwhile True:\n    n = f()\n", "c"),
        "float-elements": ("a = [1.5, 2.5]\nb = [0.5, 0.25]\nwhile True:\n    a = b\n", "a"),
        "after-append": ("a = [1, 2]\nb = [3, 4]\nwhile True:\n    b.append(5)\n    b.remove(5)\n    a = b\n", "a"),
    }

    def writes(prog, var):
        """(kind, text) for every IR statement that writes list variable `var` after its declaration"""
        out_ = []
        seen_decl = [False]

        def visit(nodes):
            for n_ in nodes:
                cn = type(n_).__name__
                if cn in ("VarDecl", "VarAssign") and getattr(n_, "name", None) == var:
                    e_ = str(n_.expr).strip()
                    if cn == "VarDecl" and not seen_decl[0]:
                        seen_decl[0] = True
                        if re.fullmatch(r"[A-Za-z_]\w*", e_):
                            out_.append(("struct-copy-declaration", f"{n_.c_type} {var} = {e_}"))
                        continue
                    out_.append(("struct-copy" if re.fullmatch(r"[A-Za-z_]\w*", e_) else "plain-assignment", f"{var} = {e_}"))
                elif cn == "ExprStmt" and re.match(rf"\s*__redu_list_assign\(\s*{var}\s*,", str(n_.expr)):
                    out_.append(("deep", str(n_.expr)))
                for f_ in ("body", "else_body", "try_body", "branches", "handlers"):
                    sub = getattr(n_, f_, None)
                    if isinstance(sub, list):
                        visit(sub)
        visit(list(prog.global_decls))
        visit(list(prog.setup_body))
        visit(list(prog.loop_body))
        for f_ in prog.functions:
            visit(list(f_.body))
        return out_

    for label, (src, var) in REASSIGN.items():
        try:
            _it, out = pe.parse_source(src)
        except dl.Unsupported as e:
            raise AnalysisError(f"parse() left the evaluable subset on list script `{label}`: {e}")
        if out.kind != "return":
            r.fail(f"reassign[{label}]/accepted", (pm, pf), f"the script `{label}` is rejected with {out.value}")
            continue
        ws = writes(out.value, var)
        bad = [t for k, t in ws if k != "deep"]
        r.check(bool(ws) and not bad, f"reassign[{label}]/deep-copy", (pm, ha), f"script `{label}`: the declared list `{var}` is written by {[t for _k, t in ws] or 'nothing'}: only the deep-copying __redu_list_assign keeps two names from sharing a buffer (and releases the old one)", sample=f"{label}: {[t for _k, t in ws]}")
    ALIAS = {
        "global": ("a = [1, 2, 3]\nb = a\nwhile True:\n    a0 = 0\n", "b"),
        "loop": ("a = [1, 2, 3]\nwhile True:\n    b = a\n", "b"),
    }
    aliased = []
    for label, (src, var) in ALIAS.items():
        _it, out = pe.parse_source(src)
        if out.kind != "return":
            continue
        ws = writes(out.value, var)
        if any(k in ("struct-copy", "struct-copy-declaration") for k, _t in ws):
            aliased.append((label, [t for _k, t in ws]))
    r.check(not aliased, "_handle_assignment_ast/list-alias-on-first-declaration", (pm, ha), f"`b = a` (first assignment of b from a list variable) is emitted as {aliased}: a shallow struct copy, both names own the same buffer (use after free after `a.append(..)`, double free never happens only because nothing is ever freed)")
    # tuple assignment between declared lists: the hand-over through temporaries must not read a buffer an earlier store of
    # the same statement has already released (ownership simulation over the loop IR, two passes)
    SWAPS = {
        "swap": ("front = [1, 2]\nback = [3, 4]\nwhile True:\n    front, back = back, front\n    n = front[0] + back[0]\n", ("front", "back")),
        "rotate": ("a = [1]\nb = [2, 2]\nc = [3, 3, 3]\nwhile True:\n    a, b, c = b, c, a\n    n = a[0] + b[0] + c[0]\n", ("a", "b", "c")),
        "swap-then-append": ("xs = [1, 2]\nys = [3]\nwhile True:\n    xs, ys = ys, xs\n    xs.append(4)\n    xs.remove(4)\n    n = xs[0] + ys[0]\n", ("xs", "ys")),
        "list-and-scalar": ("xs = [1, 2]\nys = [3]\nk = 0\nwhile True:\n    xs, k = ys, k + 1\n    n = xs[0] + ys[0]\n", ("xs", "ys")),
    }
    for label, (src, lvars) in SWAPS.items():
        _it, out = pe.parse_source(src)
        if out.kind != "return":
            r.fail(f"tuple[{label}]/accepted", (pm, pf), f"the script `{label}` is rejected with {out.value}")
            continue
        sim = OwnSim(lvars)
        sim.run(list(out.value.setup_body))
        for _pass in range(2):
            sim.run(list(out.value.loop_body))
        r.check(not sim.viol, f"tuple[{label}]/no-read-after-free", (pm, ha), f"script `{label}`: {'; '.join(sorted(set(sim.viol))[:3])}", sample=f"{label}: {len(out.value.loop_body)} loop statements, no freed buffer read")
    # who may free: buffers are released only inside the helper templates (and the record's destructor, if any); no
    # statement template of the parser or emitter spells delete[] itself
    n_free = 0
    for m_ in (pm, em):
        for n_ in ast.walk(m_.tree):
            if isinstance(n_, ast.Constant) and isinstance(n_.value, str) and "delete[]" in n_.value:
                owner = next((k for k, v in m_.consts.items() if v is n_ or any(x is n_ for x in ast.walk(v))), None)
                if owner in ("LIST_HELPER_SNIPPET",):
                    n_free += 1
                    continue
                r.fail(f"{m_.rel.split('/')[-1]}/delete[]-outside-the-list-helpers", (m_, n_), f"a statement template spells `delete[]` itself (`{n_.value.strip()[:60]}`): buffers are owned by the list record and released only by its helpers - a hand-written free runs before the right-hand side that may still read the buffer")
    if n_free < 1:
        raise AnalysisError("the list helper snippet no longer frees anything: ownership rules need re-confirmation")

    # ---- C09-LEN-MODEL -----------------------------------------------------------------------
    r = cx.rule("C09-LEN-MODEL", "the parser's static model of a list's length follows every append/remove (or gives up): straight-line prologues that append/remove constants and run-time values are partially evaluated, static initialisers and setup() interpreted with a scripted sensor, and every len()/index result must be the one Python computes - a folded len() never exceeds the run-time length", floor=6)
    from . import c03
    pf = pm.func("parse")
    LEN = {
        "append-constants": ("xs = [5]\nxs.append(6)\nxs.append(7)\nn = len(xs)\nlast = xs[n - 1]\n", False),
        "remove-first-only": ("xs = [1, 0, 1, 0]\nxs.remove(0)\nn = len(xs)\nlast = xs[n - 1]\n", False),
        "append-then-remove": ("xs = [5, 6]\nxs.append(5)\nxs.remove(5)\nn = len(xs)\nfirst = xs[0]\n", False),
        "remove-run-time-value": ("xs = [13, 23, 33]\nv = pot.read()\nxs.remove(v)\nn = len(xs)\nlast = xs[n - 1]\n", True),
        "append-run-time-value": ("xs = [1]\nxs.append(pot.read())\nn = len(xs)\nlast = xs[n - 1]\n", True),
        "run-time-elements": ("v = pot.read()\nxs = [v, v + 1]\nxs.append(5)\nn = len(xs)\nxs.remove(5)\nm = len(xs)\nlast = xs[m - 1]\n", True),
        "remove-twice": ("xs = [4, 4, 4]\nxs.remove(4)\nxs.remove(4)\nn = len(xs)\n", False),
        "two-lists": ("xs = [1, 2]\nys = [3]\nxs.append(9)\nys.append(8)\nys.append(7)\nn = len(xs) * 10 + len(ys)\n", False),
    }
    for label, (body, pot) in LEN.items():
        st, want, got, why, prog = c03.eval_prologue(label, body, pot=pot)
        if st != "ok":
            r.fail(f"len[{label}]/accepted", (pm, pf), f"the prologue `{label}` is rejected with {why}")
            continue
        r.check(got == want, f"len[{label}]/values=python", (pm, pf), f"prologue `{label}`: Python leaves {want}; static initialisers followed by setup() leave {got}{why}: the static length model no longer follows the list", sample=f"{label}: {want}")
    c03.evaluator_no_alias(r, pm)
    r.check(c03.list_size_guard_ok(pm), "_handle_assignment_ast/size-mismatch-rejected", (pm, ha), "re-assigning a list with a different static length must be rejected (the tracked length feeds folded len())")

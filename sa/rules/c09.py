"""C09 - generated firmware is memory-safe and does not leak across loop() passes (clause level)."""
from __future__ import annotations

import ast
import itertools
import re

from .. import cxx, dl, lit, pe
from ..cabs import Exec, State, lname
from ..core import AnalysisError
from ..cxx import show, sub_exprs, all_stmts, all_calls, stmt_exprs, callee, call_args
from ..flow import lexical_conds
from ..num import INF, Iv
from ..src import Locals, call_name, mod, norm, stmt_key, walk_local

PARSER = "transpile/parser.py"
EMITTER = "transpile/emitter.py"


def eval_list_get(variants):
    """every variant of the element getter evaluated (C semantics) on lists of 1..4 elements for every valid index, positive
    and negative: the element Python's indexing yields.  Returns None when all agree, else a description"""
    from .. import ckern
    for f in variants:
        pn = [p_[0] for p_ in f.get("params", [])]
        if len(pn) != 2:
            return f"getter takes {pn}"
        for size in (1, 2, 3, 4):
            data = [10 * (i_ + 1) for i_ in range(size)]
            for idx in range(-size, size):
                k = ckern.Kern(env={pn[0]: {"data": list(data), "size": size, "__types__": {"size": "size_t"}}, pn[1]: idx}, types={pn[1]: "int"})
                try:
                    k.block(f["body"])
                    got = "<no return>"
                except ckern._Return as r_:
                    got = r_.v
                except ckern.KernUnsupported as e:
                    return f"getter left the evaluable subset: {e}"
                if got != data[idx]:
                    return f"__redu_list_get(list of {size}, {idx}) yields {got!r}; Python's xs[{idx}] is {data[idx]}"
    return None


def list_helpers(em):
    snippet = lit.table(em, "LIST_HELPER_SNIPPET")
    names = sorted(set(re.findall(r"\b(__redu_(?:make_list|list_\w+|len))\s*\(", snippet)))
    drv = ("#include <Arduino.h>\n" + snippet + "\n" + lit.table(em, "LEN_HELPER_SNIPPET") + """
void use() {
  __redu_list<int> a = __redu_make_list<int>(1, 2, 3);
  __redu_list<int> e = __redu_make_list<int>();
  const __redu_list<int> &c = a;
  int x = __redu_list_get(a, -1);
  int y = __redu_list_get(c, 0);
  __redu_list_append(a, x);
  __redu_list_remove(a, y);
  __redu_list_assign(e, a);
  __redu_list<int> r = __redu_list_from_range<int>(0, 5, 2, [&](int i) { return (i * 2); });
  (void)r;
}
""")
    # any further list helper (e.g. added by a change) is instantiated generically so that it is analysed too
    extra = [n for n in names if n not in ("__redu_make_list", "__redu_list_get", "__redu_list_append", "__redu_list_remove", "__redu_list_assign", "__redu_list_from_range", "__redu_len")]
    for n in extra:
        drv += f"void use_{n}() {{ __redu_list<int> p = __redu_make_list<int>(1); __redu_list<int> q = __redu_make_list<int>(2); {n}(p, q); }}\n"
    errs = cxx.typecheck(drv)
    if errs:
        # the generic instantiation of an unknown helper may not fit its signature; analyse the rest
        drv = re.sub(r"void use___redu\w+\(\) \{.*?\}\n", "", drv)
        errs = cxx.typecheck(drv)
        if errs:
            raise AnalysisError("list helper snippet does not type-check: " + errs[0])
    fns = cxx.ast_functions(drv, names)
    return fns, snippet, names


class Heap:
    """allocation tracking on top of the abstract interpreter: sizes of buffers, frees, aliasing stores"""

    def __init__(self, label):
        self.label = label
        self.viol = []
        self.oblig = 0

    def fail(self, key, msg):
        if (key, msg) not in self.viol:
            self.viol.append((key, msg))

    def on_assign(self, name, e, iv, st):
        core = e
        while core is not None and core[0] == "cast":
            core = core[2]
        if core is not None and core[0] == "cond":
            # size ? new T[size] : nullptr
            for br in (core[2], core[3]):
                if br[0] == "new":
                    core = br
        if core is not None and core[0] == "new":
            size = self.ex.ev(core[2], st) if core[2] is not None else Iv(1, 1)
            st.v["@alloc:" + name] = size
            st.flags["@freed:" + name] = False
            st.flags["@owner:" + name] = name
        elif core is not None and lname(core) and ("@alloc:" + lname(core)) in st.v:
            src = lname(core)
            st.v["@alloc:" + name] = st.v["@alloc:" + src]
            st.flags["@freed:" + name] = st.flags.get("@freed:" + src, False)
            st.flags["@owner:" + name] = st.flags.get("@owner:" + src, src)
        elif core is not None and core[0] == "lit" and core[1] is None:
            st.v["@alloc:" + name] = Iv(0, 0)
            st.flags["@freed:" + name] = False

    def on_mem(self, kind, e, st):
        if kind in ("index-read", "index-write"):
            base = lname(e[1])
            if base is None or ("@alloc:" + base) not in st.v:
                return
            self.oblig += 1
            idx = self.ex.ev(e[2], st)
            alloc = st.v["@alloc:" + base]
            if st.flags.get("@freed:" + base) is True:
                self.fail("use-after-free", f"`{show(e)}` {('reads' if kind == 'index-read' else 'writes')} a buffer that was already deleted")
            if not (idx.lo >= 0 and idx.hi <= alloc.lo - 1):
                self.fail("buffer-bounds", f"`{show(e)}` {('reads' if kind == 'index-read' else 'writes')} index {idx} of a buffer with {alloc} elements")
        elif kind == "delete":
            base = lname(e[1])
            if base is None:
                return
            self.oblig += 1
            if st.flags.get("@freed:" + base) is True:
                self.fail("double-free", f"`{show(e)}` frees a buffer twice")
            owner = st.flags.get("@owner:" + base, base)
            for k in list(st.flags):
                if k.startswith("@owner:") and st.flags[k] == owner:
                    st.flags["@freed:" + k[len("@owner:"):]] = True
            st.flags["@freed:" + base] = True


def run(cx):
    em, pm = mod(EMITTER), mod(PARSER)
    cx.consulted(em)
    cx.consulted(pm)
    cx.explanation = (
        "the list helper templates are instantiated, parsed by clang and (a) checked for ownership discipline on the typed AST "
        "(rule of three, delete-before-overwrite, no aliasing stores, self-assignment guard, identical const/non-const getters), "
        "(b) abstractly interpreted on a grid of concrete list sizes / range arguments with exact loop unrolling and allocation "
        "tracking, so that every buffer index is compared with the allocated extent and every delete with the live set; the "
        "parser's copy policy and static-length bookkeeping are checked structurally.  Absence of out-of-bounds accesses for all "
        "programs and heap constancy across passes are not decided."
    )
    fns, snippet, names = list_helpers(em)
    line = em.const("LIST_HELPER_SNIPPET").lineno

    # ---- C09-OWN -----------------------------------------------------------------------------
    r = cx.rule("C09-OWN", "a record that owns a new[] buffer declares destructor, copy constructor and copy assignment (otherwise every by-value copy is a shallow alias and every temporary leaks)", floor=1)
    struct = re.search(r"struct __redu_list \{(.*?)\n\};", snippet, re.S)
    if not struct:
        raise AnalysisError("struct __redu_list not found")
    body = struct.group(1)
    has_dtor = "~__redu_list" in body
    has_copy = re.search(r"__redu_list\(const __redu_list", body) is not None
    has_assign = "operator=" in body
    r.check(has_dtor and has_copy and has_assign, "__redu_list/rule-of-three", (em.rel, line), f"__redu_list owns `T *data` (new[]) but declares destructor={has_dtor}, copy-constructor={has_copy}, copy-assignment={has_assign}: `b = a` shares one buffer (use after free once either is reassigned/appended) and `x = [..]` inside loop() leaks the old buffer each pass")

    # ---- C09-PAIR ----------------------------------------------------------------------------
    r = cx.rule("C09-PAIR", "in every helper a by-reference list's data pointer is only overwritten after delete[] of the old buffer, every new[] result is stored into a data field (or a local that is), no helper stores one list's data pointer into another list, assign guards against self-assignment before deleting", floor=5)
    for n, variants in fns.items():
        f = variants[-1]
        byref = {p for p, t in f["params"] if t and "&" in t and "const" not in t and "__redu_list" in t}
        cref = {p for p, t in f["params"] if t and "&" in t and "const" in t and "__redu_list" in t}
        flat = []
        for s in all_stmts(f["body"]):
            for e in stmt_exprs(s):
                for x in sub_exprs(e):
                    flat.append(x)
        seen_delete = set()
        order = []

        def walk(stmts):
            for s in stmts:
                for e in stmt_exprs(s):
                    for x in sub_exprs(e):
                        order.append(x)
                if s["k"] == "if":
                    walk(s["then"])
                    if s["else"]:
                        walk(s["else"])
                elif s["k"] in ("for", "while", "block"):
                    if s["k"] == "for":
                        walk(s["init"])
                    walk(s["body"])
        walk(f["body"])
        # path-sensitive must-analysis: which buffers have certainly been delete[]d when a data pointer is overwritten
        def flow(stmts, deleted):
            """returns the must-deleted set at the end of stmts (None = every path left through return)"""
            cur = set(deleted)
            for s_ in stmts:
                for e in stmt_exprs(s_) if s_["k"] not in ("if", "for", "while") else ([s_["cond"]] if s_.get("cond") is not None else []):
                    cur = visit(e, cur)
                k_ = s_["k"]
                if k_ == "block":
                    res = flow(s_["body"], cur)
                    if res is None:
                        return None
                    cur = res
                elif k_ == "if":
                    # `if (p != nullptr) delete[] p;` - where the test fails there is no buffer to free
                    c_ = s_["cond"]
                    nullp = None
                    if c_ is not None and c_[0] == "bin" and c_[1] == "!=" and c_[3] == ("lit", None):
                        nullp = lname(c_[2])
                    elif c_ is not None and c_[0] in ("member", "var"):
                        nullp = lname(c_)
                    a_ = flow(s_["then"], cur)
                    b_ = flow(s_["else"], cur | ({nullp} if nullp else set())) if s_["else"] else set(cur) | ({nullp} if nullp else set())
                    if a_ is None and b_ is None:
                        return None
                    cur = b_ if a_ is None else a_ if b_ is None else (a_ & b_)
                elif k_ in ("for", "while"):
                    if k_ == "for":
                        flow(s_["init"], cur)
                    flow(s_["body"], cur)      # obligations inside the body are checked; its deletes do not outlive the loop
                elif k_ == "return":
                    return None
            return cur

        ever_freed = set()
        ref_params = {p for p, t in f["params"] if t and "&" in t and "__redu_list" not in t}    # e.g. const T &value: may refer to an element of the list

        def visit(e, cur):
            freed_lists = set(ever_freed)
            if freed_lists:
                for x in sub_exprs(e):
                    if x[0] == "var" and x[1] in ref_params:
                        r.fail(f"{n}/reference-parameter-read-after-free[{x[1]}]", (em.rel, line), f"{n}: `{show(e)}` reads the by-reference parameter `{x[1]}` after `delete[]` of {sorted(freed_lists)}: when the caller passes an element of that very list (`xs.append(xs[0])`) the reference points into the freed buffer")
                        break
            for x in sub_exprs(e):
                if x[0] == "delete":
                    cur = cur | {lname(x[1])}
                    if lname(x[1]) and any(lname(x[1]).startswith(b_ + ".") for b_ in byref):
                        ever_freed.add(lname(x[1]))     # the caller's old buffer is gone for good, whatever the pointer is re-bound to
                if x[0] == "assign" and x[1] == "=" and x[2][0] == "member" and x[2][2] == "data":
                    owner = lname(x[2][1])
                    tgt = lname(x[2])
                    if owner in byref:
                        r.check(tgt in cur, f"{n}/delete-before-overwrite[{tgt}]", (em.rel, line), f"{n}: `{show(x)}` overwrites the buffer pointer of a caller-owned list on a path that has not delete[]d the old buffer (leak on every such call)", sample=f"{n}: delete[] {tgt} before {show(x)[:40]}")
                        cur = cur - {tgt}
                    src = x[3]
                    while src[0] == "cast":
                        src = src[2]
                    if src[0] == "member" and src[2] == "data" and lname(src[1]) != owner:
                        r.fail(f"{n}/aliasing-store[{show(x)}]", (em.rel, line), f"{n}: `{show(x)}` makes two lists share one buffer: freeing or growing either leaves the other dangling")
            return cur

        flow(f["body"], set())
        if n == "__redu_list_assign":
            first = f["body"][0] if f["body"] else None
            okg = first is not None and first["k"] == "if" and show(first["cond"]) == "(&dest == &source)" and any(s["k"] == "return" for s in first["then"])
            r.check(okg, "__redu_list_assign/self-assignment-guard-first", (em.rel, line), "assign(x, x) must return before the buffer is deleted")
            copies = [x for x in order if x[0] == "assign" and x[2][0] == "index" and show(x[2][1]) == "dest.data" and x[3][0] == "index" and show(x[3][1]) == "source.data"]
            r.check(len(copies) == 1, "__redu_list_assign/deep-copy", (em.rel, line), "assign must copy the elements one by one")
    r.check(set(fns) >= {"__redu_list_append", "__redu_list_remove", "__redu_list_assign", "__redu_list_get", "__redu_list_from_range", "__redu_make_list"}, "helpers/present", (em.rel, line), f"list helpers found: {sorted(fns)}")

    # ---- C09-SIB -----------------------------------------------------------------------------
    r = cx.rule("C09-SIB", "the const and non-const element getters are identical (negative index normalised in both)", floor=1)
    g = fns.get("__redu_list_get", [])
    bodies = {repr(v["body"]) for v in g}
    r.check(len(g) >= 2 and len(bodies) == 1, "__redu_list_get/const-and-mutable-agree", (em.rel, line), f"{len(g)} getters with {len(bodies)} distinct bodies")
    if g:
        why = eval_list_get(g)
        r.check(why is None, "__redu_list_get/negative-index-normalised", (em.rel, line), f"negative indices must count from the end in both getters: {why}")

    # ---- C09-BOUNDS --------------------------------------------------------------------------
    r = cx.rule("C09-BOUNDS", "for every list size 0..4 (and every range(start, stop, step) on a grid) each helper's buffer indices stay inside the extent it allocated, nothing is used after delete[] and nothing is freed twice (abstract interpretation with exact unrolling and allocation tracking)", floor=60, exhaustive=True)

    def run_helper(name, f, init_vars, label):
        h = Heap(label)
        ex = Exec(on_assign=h.on_assign, partition={"remove_index"})
        ex.on_mem = h.on_mem
        ex.unroll = 24
        h.ex = ex
        st = State()
        for k, v in init_vars.items():
            if isinstance(v, Iv):
                st.v[k] = v
            else:
                st.flags[k] = v
        ex.run(f["body"], [st])
        return h

    for n in ("__redu_list_append", "__redu_list_remove", "__redu_list_assign"):
        f = fns[n][-1]
        for size in range(0, 5):
            lst = "dest" if n == "__redu_list_assign" else "list"
            init = {f"{lst}.size": Iv(size, size), f"@alloc:{lst}.data": Iv(size, size), f"@freed:{lst}.data": False, f"@owner:{lst}.data": f"{lst}.data"}
            sizes2 = range(0, 4) if n == "__redu_list_assign" else [None]
            for s2 in sizes2:
                if s2 is not None:
                    init.update({"source.size": Iv(s2, s2), "@alloc:source.data": Iv(s2, s2), "@freed:source.data": False, "@owner:source.data": "source.data"})
                label = f"{n}(size={size}{'' if s2 is None else f', source size={s2}'})"
                h = run_helper(n, f, init, label)
                for k, msg in h.viol:
                    r.fail(f"{n}/{k}", (em.rel, line), f"{label}: {msg}")
                if not h.viol:
                    r.ok(label, n=max(1, h.oblig))
    fr = fns["__redu_list_from_range"][-1]
    for start, stop, step in itertools.product((0, 1, 7, -2), (0, 5, -3, 7, 2), (1, 2, 3, -1, -2, -3, 0)):
        init = {"start": Iv(start, start), "stop": Iv(stop, stop), "step": Iv(step, step)}
        label = f"__redu_list_from_range({start}, {stop}, {step})"
        h = run_helper("__redu_list_from_range", fr, init, label)
        for k, msg in h.viol:
            r.fail(f"__redu_list_from_range/{k}", (em.rel, line), f"{label}: {msg}")
        if not h.viol:
            r.ok(label if step in (-3, 2) else None, n=max(1, h.oblig))
    for n, variants in fns.items():
        if n in ("__redu_list_append", "__redu_list_remove", "__redu_list_assign", "__redu_list_from_range", "__redu_list_get", "__redu_make_list", "__redu_len"):
            continue
        f = variants[-1]
        lists = [p for p, t in f["params"] if t and "__redu_list" in t]
        for size in range(0, 4):
            init = {}
            for p in lists:
                init.update({f"{p}.size": Iv(size, size), f"@alloc:{p}.data": Iv(size, size), f"@freed:{p}.data": False, f"@owner:{p}.data": f"{p}.data"})
            h = run_helper(n, f, init, f"{n}(size={size})")
            for k, msg in h.viol:
                r.fail(f"{n}/{k}", (em.rel, line), f"{n}(size={size}): {msg}")
    mk = fns["__redu_make_list"]
    txt = " ".join(show(e) for v in mk for s in all_stmts(v["body"]) for e in stmt_exprs(s))
    r.check("result.size = " in txt and "new " in txt, "__redu_make_list/size-matches-initialiser", (em.rel, line), "make_list must allocate exactly sizeof...(Rest)+1 elements")
    r.check("result.size = sizeof...(Rest) + 1;" in snippet and "new T[result.size]{static_cast<T>(first), static_cast<T>(rest)...}" in snippet, "__redu_make_list/extent=argument-count", (em.rel, line), "make_list extent and initialiser list changed")

    # ---- C09-COPY-POLICY ---------------------------------------------------------------------
    r = cx.rule("C09-COPY-POLICY", "a list-typed variable only ever receives a deep copy: re-assignment goes through __redu_list_assign (nothing else), and a first declaration from another list variable must not copy the struct", floor=3)
    ha = pm.func("_handle_assignment_ast")
    loc = Locals(ha)
    nc = loc.defs.get("needs_clone", [])
    r.check(len(nc) == 1 and norm(nc[0]) == "is_declared and _is_list_type(inferred_type)", "_handle_assignment_ast/reassigned-lists-are-cloned", (pm, ha), f"needs_clone := {norm(nc[0]) if nc else '?'}")
    tmpl = [n for n in walk_local(ha) if isinstance(n, ast.JoinedStr) and "__redu_list_" in norm(n)]
    for t in tmpl:
        helper = re.search(r"__redu_list_\w+", norm(t)).group(0)
        cs = lexical_conds(pm, t)
        r.check(helper == "__redu_list_assign" and ("needs_clone", True) in cs, f"_handle_assignment_ast/list-assignment-via[{helper}]", (pm, t), f"list re-assignment is emitted through `{helper}` under {sorted(cs)}: only the deep-copying __redu_list_assign keeps two names from sharing a buffer", sample=f"re-assignment via {helper}")
    r.check(len(tmpl) >= 1, "_handle_assignment_ast/list-assignment-template", (pm, ha), "list re-assignment template not found")
    # the clone is taken on *every* path on which a declared list is re-assigned: the statement that installs the
    # __redu_list_assign form is reached whenever needs_clone holds (no competing branch tested before it)
    for t in tmpl:
        st_ = next((a for a in pm.ancestors(t) if isinstance(a, ast.stmt)), None)
        branch = next((a for a in pm.ancestors(t) if isinstance(a, ast.If) and st_ is not None and any(st_ is b or any(st_ is x for x in ast.walk(b)) for b in a.body)), None)
        # `if needs_clone:` must be a top-of-chain test: not the elif of another condition
        par = pm.parent.get(branch) if branch is not None else None
        is_elif = isinstance(par, ast.If) and branch in par.orelse and len(par.orelse) == 1
        r.check(branch is not None and norm(branch.test) == "needs_clone" and not is_elif, "_handle_assignment_ast/clone-on-every-reassignment-path", (pm, t), f"the deep copy is installed under `{norm(branch.test) if branch is not None else '?'}`{' as the elif of `' + norm(par.test) + '`' if is_elif else ''}: some re-assignment of a declared list bypasses __redu_list_assign")
    # who may free: buffers are released only inside the helper templates (and the record's destructor, if any); no
    # statement template of the parser or emitter spells delete[] itself
    n_free = 0
    for m_ in (pm, em):
        for n_ in ast.walk(m_.tree):
            if isinstance(n_, ast.Constant) and isinstance(n_.value, str) and "delete[]" in n_.value:
                owner = next((k for k, v in m_.consts.items() if v is n_ or any(x is n_ for x in ast.walk(v))), None)
                if owner in ("LIST_HELPER_SNIPPET",):
                    n_free += 1
                    continue
                r.fail(f"{m_.rel.split('/')[-1]}/delete[]-outside-the-list-helpers", (m_, n_), f"a statement template spells `delete[]` itself (`{n_.value.strip()[:60]}`): buffers are owned by the list record and released only by its helpers - a hand-written free runs before the right-hand side that may still read the buffer")
    if n_free < 1:
        raise AnalysisError("the list helper snippet no longer frees anything: ownership rules need re-confirmation")
    # first declaration `b = a`
    aliases_checked = any(isinstance(n, ast.If) and "isinstance(value, ast.Name)" in norm(n.test) and "_is_list_type" in norm(n.test) for n in walk_local(ha))
    r.check(aliases_checked, "_handle_assignment_ast/list-alias-on-first-declaration", (pm, ha), "`b = a` (first assignment of b from a list variable) declares `__redu_list<T> b = a;`, a shallow struct copy: both names own the same buffer (use after free after `a.append(..)`, double free never happens only because nothing is ever freed)")

    # ---- C09-LEN-MODEL -----------------------------------------------------------------------
    r = cx.rule("C09-LEN-MODEL", "the parser's static model of a list's length follows every append/remove (or gives up): a folded len() must never exceed the run-time length", floor=3)
    psl = pm.func("_parse_simple_lines")
    blk = [n for n in walk_local(psl) if isinstance(n, ast.If) and norm(n.test) == "isinstance(current, list)"]
    if len(blk) != 1:
        raise AnalysisError("tracked-list bookkeeping block not found")
    b = blk[0]
    pops = [c for c in walk_local(b) if isinstance(c, ast.Call) and norm(c.func) in ("current.pop", "current.remove")]
    unknown_handled = any(norm(c.func) == "current.pop" and any(t == "arg_value is None and current" and tv for t, tv in lexical_conds(pm, c)) for c in pops)
    r.check(unknown_handled, "tracked-list/remove-of-unknown-value-shrinks-model", (pm, b), "when the removed value is only known at run time the compile-time list model is not shrunk: a later len(xs) is folded too large and xs[len(xs) - 1] reads past the buffer")
    inval = [n for n in walk_local(b) if isinstance(n, ast.Assign) and norm(n.targets[0]) == "vars[owner_name]" and "_ExprStr" in norm(n.value)]
    r.check(len(inval) == 1, "tracked-list/non-list-model-invalidated", (pm, b), "when the model is not a concrete list the name must be marked unknown")
    li = [n for n in walk_local(psl) if isinstance(n, ast.Assign) and norm(n.targets[0]) == "info['length']"]
    vals = sorted(norm(n.value) for n in li)
    r.check(vals == ["length + 1", "length - 1"], "tracked-list/length-counter-follows-append-remove", (pm, psl), f"length counter updates: {vals}")
    sz = [n for n in walk_local(ha) if isinstance(n, ast.If) and "expected != new_length" in norm(n.test) and any(isinstance(x, ast.Raise) for x in n.body)]
    from . import c03
    c03.evaluator_no_alias(r, pm)
    r.check(c03.list_size_guard_ok(pm), "_handle_assignment_ast/size-mismatch-rejected", (pm, ha), "re-assigning a list with a different static length must be rejected (the tracked length feeds folded len())")

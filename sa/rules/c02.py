"""C02 - type inference is sound: no value is narrowed or re-typed on the device."""
from __future__ import annotations

import ast
import itertools

from .. import dl, lit
from ..core import AnalysisError
from ..flow import CondTrace, conds, lexical_conds
from ..src import Locals, call_name, mod, norm, stmt_key, walk_local

PARSER = "transpile/parser.py"
NUM = ["bool", "int", "float"]
RANK = {"bool": 0, "int": 1, "float": 2}


def geq(a: str, b: str) -> bool:
    """label a can hold every value of label b"""
    if a == b:
        return True
    if a in RANK and b in RANK:
        return RANK[a] >= RANK[b]
    return False


def join(*labels):
    if all(l in RANK for l in labels):
        return max(labels, key=lambda l: RANK[l])
    if len(set(labels)) == 1:
        return labels[0]
    return None  # no common representation


def py_binop(op: str, a: str, b: str):
    """set of labels Python can produce for `a op b` on the label lattice (bool counts as int)"""
    ai = "int" if a == "bool" else a
    bi = "int" if b == "bool" else b
    if a == "String" or b == "String":
        return {"String"} if (a == b == "String" and op == "Add") else None
    if op == "Div":
        return {"float"}
    if op in ("BitAnd", "BitOr", "BitXor") and a == b == "bool":
        return {"bool", "int"}
    if op in ("BitAnd", "BitOr", "BitXor", "LShift", "RShift"):
        return {"int"} if ai == bi == "int" else None
    if op == "Pow":
        return {"int", "float"} if ai == bi == "int" else {"float"}
    return {"float"} if "float" in (ai, bi) else {"int"}


def rule_hoist_order(r, pm):
    """the hoisted declaration is typed from the scope's label table: at every `_make_promotion_decls(names, ctx, ...)` the
    labels of those names have already been published to ctx['var_types'] (by _promote_branch_decls, or by the loop arm's
    own copy loop that precedes the call)"""
    psl = pm.func("_parse_simple_lines")
    n_sites = 0
    for c in walk_local(psl):
        if not (isinstance(c, ast.Call) and call_name(c) == "_make_promotion_decls" and c.args):
            continue
        n_sites += 1
        names = norm(c.args[0])
        stmt = c
        while not isinstance(pm.parent.get(stmt), (ast.If, ast.For, ast.While, ast.FunctionDef, ast.Try, ast.With)) or stmt not in _body_lists(pm.parent.get(stmt)):
            stmt = pm.parent.get(stmt)
            if stmt is None:
                break
        ok = False
        why = "no publication of the labels found before the call"
        if stmt is not None:
            blk = next(b for b in _blocks(pm.parent[stmt]) if stmt in b)
            before = blk[:blk.index(stmt)]
            for st in before:
                if isinstance(st, ast.For) and norm(st.iter) == names and any(isinstance(x, ast.Assign) and isinstance(x.targets[0], ast.Subscript) and norm(x.targets[0].value) == "var_types" and "child_types.get(" in norm(x.value) for x in st.body):
                    ok = True
            # or the names come from _promote_branch_decls, which publishes them itself
            for anc in [stmt] + list(pm.ancestors(stmt)):
                par = pm.parent.get(anc)
                if par is None:
                    break
                for b in _blocks(par):
                    if anc in b:
                        for st in b[:b.index(anc)]:
                            if isinstance(st, ast.Assign) and norm(st.targets[0]) == names and isinstance(st.value, ast.Call) and call_name(st.value) == "_promote_branch_decls":
                                ok = True
                if isinstance(par, ast.FunctionDef):
                    break
        r.check(ok, f"_parse_simple_lines/hoist[{names}]/labels-published-before-declaration", (pm, c), f"`{stmt_key(c)}`: {why}; the hoisted declaration falls back to `int` and a String/float first assigned in the body is then stored in an int")
    if n_sites < 4:
        raise AnalysisError(f"only {n_sites} hoisting call sites found (confirmed: 4)")


def _blocks(node):
    out = []
    for f_ in ("body", "orelse", "finalbody"):
        b = getattr(node, f_, None)
        if isinstance(b, list) and b and isinstance(b[0], ast.stmt):
            out.append(b)
    for h in getattr(node, "handlers", []) or []:
        out.append(h.body)
    return out


def _body_lists(node):
    return [x for b in _blocks(node) for x in b] if node is not None else []


def run(cx):
    pm = mod(PARSER)
    cx.consulted(pm)
    cx.explanation = (
        "the inference function is evaluated as a decision procedure on the syntax tree over the finite lattice of type "
        "labels (bool<int<float, String) for every expression form it distinguishes and compared with Python's typing of the "
        "same form; the join functions are evaluated over all label subsets; label->C++ mapping, redeclaration, promotion and "
        "parameter-specialisation paths are checked structurally; per-program inference results are not decided"
    )
    it = lambda: dl.Interp(pm)
    inf = pm.func("_infer_expr_type")

    def infer(src: str, var_types: dict):
        node = ast.parse(src, mode="eval").body
        try:
            return it().call(inf, [node, dict(var_types), {}, {}, {}, None])
        except dl.Unsupported as e:
            raise AnalysisError(f"_infer_expr_type left the evaluable subset on `{src}`: {e}")

    # ---- C02-CONST ---------------------------------------------------------------------------
    r = cx.rule("C02-CONST", "literals are typed bool/int/float/String with bool recognised before int", floor=6, exhaustive=True)
    for src, want in (("True", "bool"), ("False", "bool"), ("0", "int"), ("7", "int"), ("1.5", "float"), ("0.0", "float"), ("'hi'", "String"), ("f'a{1}'", "String")):
        out = infer(src, {})
        r.check(out.kind == "return" and out.value == want, f"_infer_expr_type/literal[{want}]", (pm, inf), f"literal {src} is typed {out!r}, expected {want}")
    for lab in NUM + ["String"]:
        out = infer("x", {"x": lab})
        r.check(out.kind == "return" and out.value == lab, f"_infer_expr_type/name[{lab}]", (pm, inf), f"a {lab} variable is typed {out!r}")

    # ---- C02-EXPR ----------------------------------------------------------------------------
    r = cx.rule("C02-EXPR", "for every operator / conditional / builtin form and every combination of operand labels the inferred label can hold every value Python can produce (never narrower), or the form is rejected", floor=140, exhaustive=True)
    OPS = {"Add": "+", "Sub": "-", "Mult": "*", "Div": "/", "FloorDiv": "//", "Mod": "%", "Pow": "**", "BitAnd": "&", "BitOr": "|", "BitXor": "^", "LShift": "<<", "RShift": ">>"}
    for opn, tok in OPS.items():
        for a, b in itertools.product(NUM + ["String"], repeat=2):
            want = py_binop(opn, a, b)
            if want is None:
                continue  # a TypeError in Python: outside the quantifier
            out = infer(f"x {tok} y", {"x": a, "y": b})
            ok = out.kind == "raise" or all(geq(out.value, w) for w in want if w in ("int", "float", "String", "bool") and (w != "int" or "float" not in want or True)) if out.kind == "return" else True
            # for Pow accept int or float results (value dependent): require holding the smaller claim only
            if opn == "Pow" and out.kind == "return":
                ok = out.value in ("int", "float")
            if opn in ("BitAnd", "BitOr", "BitXor") and a == b == "bool" and out.kind == "return":
                ok = out.value in ("bool", "int")
            key = f"binop[{opn}]({'int' if a == 'bool' else a},{'int' if b == 'bool' else b})" if opn == "Div" else f"binop[{opn}]({a},{b})"
            r.check(ok, key, (pm, inf), f"`{a} {tok} {b}` is typed {out!r}; Python yields {sorted(want)}: the value would be narrowed on the device", sample=f"{a} {tok} {b} -> {out.value if out.kind == 'return' else 'rejected'}")
    for a in ("int", "float"):
        for u, tok in (("USub", "-"), ("UAdd", "+")):
            out = infer(f"{tok}x", {"x": a})
            r.check(out.kind == "return" and geq(out.value, a), f"unary[{u}]({a})", (pm, inf), f"`{tok}{a}` is typed {out!r}")
    for a in NUM + ["String"]:
        out = infer("not x", {"x": a})
        r.check(out.kind == "return" and out.value == "bool", f"unary[Not]({a})", (pm, inf), f"`not {a}` is typed {out!r}")
        out = infer("x < y", {"x": a, "y": a})
        r.check(out.kind == "return" and out.value == "bool", f"compare({a})", (pm, inf), f"a comparison is typed {out!r}")
    for a, b in itertools.product(NUM + ["String"], repeat=2):
        out = infer("x if c else y", {"x": a, "y": b, "c": "bool"})
        j = join(a, b)
        if j is None:
            ok = out.kind == "raise"
            r.check(ok, "ifexp(String,numeric)-needs-conversion", (pm, inf), f"`{a} if c else {b}` is typed {out!r} and emitted as a plain C++ ?: with operands of both kinds: there is no common type, the form must be rejected or converted")
        else:
            r.check(out.kind == "raise" or geq(out.value, j), f"ifexp({a},{b})", (pm, inf), f"`{a} if c else {b}` is typed {out!r}; Python yields {j}")
            # the same with a constant environment that claims to know the test variable: that environment is flow-insensitive
            # (a loop or branch may have changed c since), so the other arm can still be taken at run time
            for cval in (0, 1, True, False):
                node_ = ast.parse("x if c else y", mode="eval").body
                try:
                    out_c = it().call(inf, [node_, {"x": a, "y": b, "c": "int"}, {}, {}, {}, {"vars": {"c": cval}}])
                except dl.Unsupported as e:
                    raise AnalysisError(f"_infer_expr_type left the evaluable subset: {e}")
                r.check(out_c.kind == "raise" or geq(out_c.value, j), f"ifexp({a},{b})/test-variable-bound-in-the-constant-environment", (pm, inf), f"`{a} if c else {b}` with c recorded as {cval!r} in the constant environment is typed {out_c!r}; the environment may be stale (c changed in a loop/branch), Python can yield {j}")
        for opn, tok in (("And", "and"), ("Or", "or")):
            out = infer(f"x {tok} y", {"x": a, "y": b})
            j2 = join(a, b)
            if a == b == "bool":
                r.check(out.kind == "return" and out.value == "bool", f"boolop[{opn}](bool,bool)", (pm, inf), f"typed {out!r}")
            elif j2 is not None:
                okb = out.kind == "raise" or geq(out.value, j2)
                r.check(okb, "boolop-value-typed-bool", (pm, inf), f"`{a} {tok} {b}` yields one of its operands in Python ({j2}) but is typed {out!r}: `n = 0 or 5` becomes `bool n = (0 || 5)`")
    for fn_, args, want in (("int", ["float"], "int"), ("float", ["int"], "float"), ("bool", ["int"], "bool"), ("str", ["int"], "String"), ("len", ["String"], "int")):
        out = infer(f"{fn_}(x)", {"x": args[0]})
        r.check(out.kind == "return" and out.value == want, f"builtin[{fn_}]", (pm, inf), f"{fn_}({args[0]}) is typed {out!r}, expected {want}")
    for a in ("int", "float"):
        out = infer("abs(x)", {"x": a})
        r.check(out.kind == "return" and geq(out.value, a), f"builtin[abs]({a})", (pm, inf), f"abs({a}) is typed {out!r}: a float magnitude would be truncated")
        for b in ("int", "float"):
            for fn_ in ("max", "min"):
                out = infer(f"{fn_}(x, y)", {"x": a, "y": b})
                r.check(out.kind == "return" and geq(out.value, join(a, b)), f"builtin[{fn_}]({join(a, b)})", (pm, inf), f"{fn_}({a}, {b}) is typed {out!r}: a float result would be truncated")
    for a in NUM + ["String"]:
        out = infer("[x, x]", {"x": a})
        r.check(out.kind == "return" and out.value == f"list[{a}]", f"list-literal[{a}]", (pm, inf), f"[{a}, {a}] is typed {out!r}")
        out = infer("xs[0]", {"xs": f"list[{a}]"})
        r.check(out.kind == "return" and out.value == a, f"subscript[list[{a}]]", (pm, inf), f"element of list[{a}] is typed {out!r}")

    # ---- C02-JOIN ----------------------------------------------------------------------------
    r = cx.rule("C02-JOIN", "_merge_return_types and _merge_element_types return an upper bound of all their inputs or raise (evaluated over every combination of labels)", floor=60, exhaustive=True)
    mrt = pm.func("_merge_return_types")
    labs = NUM + ["String"]
    for k in range(0, 4):
        for combo in itertools.combinations(labs, k):
            for perm in set(itertools.permutations(combo)):
                for void in (False, True):
                    try:
                        out = it().call(mrt, [list(perm), void])
                    except dl.Unsupported as e:
                        raise AnalysisError(f"_merge_return_types not evaluable: {e}")
                    if void and combo:
                        ok = out.kind == "raise"
                    elif not combo:
                        ok = out.kind == "return" and out.value == "void"
                    else:
                        j = join(*combo)
                        ok = out.kind == "raise" if j is None else (out.kind == "raise" or (out.kind == "return" and geq(out.value, j)))
                    r.check(ok, f"_merge_return_types{sorted(combo)}{'+bare-return' if void else ''}", (pm, mrt), f"_merge_return_types({list(perm)}, has_void={void}) -> {out!r}")
    met = pm.func("_merge_element_types")
    for k in range(0, 4):
        for combo in itertools.product(labs, repeat=k):
            try:
                out = it().call(met, [list(combo)])
            except dl.Unsupported as e:
                raise AnalysisError(f"_merge_element_types not evaluable: {e}")
            if not combo:
                ok = out.kind == "return" and out.value == "int"
            else:
                j = join(*combo)
                # __redu_make_list converts every element with static_cast<T>; String absorbs numbers through String(x)
                if j is None:
                    ok = out.kind == "raise" or out.value == "String"
                else:
                    ok = out.kind == "raise" or (out.kind == "return" and geq(out.value, j))
            r.check(ok, f"_merge_element_types{sorted(set(combo))}", (pm, met), f"_merge_element_types({list(combo)}) -> {out!r}; a list mixing these element types would be declared too narrow")
    for combo in (["list[int]", "list[int]"], ["list[int]", "list[float]"], ["list[int]", "int"]):
        out = it().call(met, [combo])
        ok = (out.kind == "return" and out.value == combo[0]) if len(set(combo)) == 1 else out.kind == "raise"
        r.check(ok, f"_merge_element_types{combo}", (pm, met), f"-> {out!r}")

    # ---- C02-CPP -----------------------------------------------------------------------------
    r = cx.rule("C02-CPP", "_cpp_type maps each label to the C++ type of the same kind and _default_value_for_type yields a literal of that type", floor=8, exhaustive=True)
    cpp = pm.func("_cpp_type")
    dv = pm.func("_default_value_for_type")
    want_cpp = {"int": {"int", "long"}, "float": {"float", "double"}, "bool": {"bool"}, "String": {"String"}, "void": {"void"}}
    want_def = {"int": {"0"}, "long": {"0", "0L"}, "float": {"0.0", "0.0f"}, "double": {"0.0"}, "bool": {"false"}, "String": {'""', "String()", 'String("")'}}
    for lab, ok_set in want_cpp.items():
        out = it().call(cpp, [lab])
        r.check(out.kind == "return" and out.value in ok_set, f"_cpp_type[{lab}]", (pm, cpp), f"_cpp_type({lab!r}) -> {out!r}")
        if out.kind == "return" and lab != "void":
            d = it().call(dv, [out.value])
            r.check(d.kind == "return" and d.value in want_def.get(out.value, set()), f"_default_value_for_type[{out.value}]", (pm, dv), f"default for {out.value} is {d!r}")
    for lab in ("int", "float", "String"):
        out = it().call(cpp, [f"list[{lab}]"])
        inner = it().call(cpp, [lab]).value
        r.check(out.kind == "return" and out.value == f"__redu_list<{inner}>", f"_cpp_type[list[{lab}]]", (pm, cpp), f"-> {out!r}")
        d = it().call(dv, [f"__redu_list<{inner}>"])
        r.check(d.kind == "return" and d.value == f"__redu_list<{inner}>()", f"_default_value_for_type[list[{lab}]]", (pm, dv), f"-> {d!r}")

    # ---- C02-FLOW ----------------------------------------------------------------------------
    r = cx.rule("C02-FLOW", "every declared C++ type comes from _cpp_type(<inferred label>); hoisted declarations take the label the name has in the scope that assigned it; a call-site signature decides a specialised parameter's type", floor=10)
    for q, fn in pm.funcs.items():
        loc = Locals(fn)
        for c in walk_local(fn, include_self=False):
            if isinstance(c, ast.Call) and call_name(c) == "VarDecl":
                ct = None
                for k in c.keywords:
                    if k.arg == "c_type":
                        ct = k.value
                if ct is None and len(c.args) > 1:
                    ct = c.args[1]
                if ct is None:
                    continue
                srcs = [ct]
                if isinstance(ct, ast.Name):
                    srcs = [d for d in loc.defs.get(ct.id, []) if isinstance(d, ast.expr)] or [ct]
                ok = all(isinstance(s, ast.Call) and (call_name(s) == "_cpp_type" or (isinstance(s.func, ast.Attribute) and s.func.attr == "get" and len(s.args) == 2 and isinstance(s.args[1], ast.Call) and call_name(s.args[1]) == "_cpp_type")) for s in srcs)
                r.check(ok, f"{q}/VarDecl.c_type<-_cpp_type", (pm, c), f"`{stmt_key(c)}`: the declared type does not come from _cpp_type(<label>)", sample=f"{q}: VarDecl c_type <- {', '.join(norm(s)[:40] for s in srcs)}")
    pb = pm.func("_promote_branch_decls")
    rec = pm.funcs.get("_promote_branch_decls.record")
    if rec is None:
        raise AnalysisError("_promote_branch_decls.record vanished")
    st = [n for n in walk_local(rec) if isinstance(n, ast.Assign) and norm(n.targets[0]) == "inferred[name]"]
    r.check(len(st) == 1 and "child_ctx.get('var_types', {}).get(name" in norm(st[0].value), "_promote_branch_decls/type-from-child-scope", (pm, rec), "a hoisted variable's label must be read from the branch scope that assigned it")
    # ... and at every call the scope handed to record() is the scope whose new names are being recorded (the else arm has
    # its own scope): the scope is a parameter of record(), never a free variable left over from an enclosing loop
    rec_params = [a.arg for a in rec.args.args]
    src_ctx = None
    if st and isinstance(st[0].value, ast.Call):
        base_ = st[0].value
        while isinstance(base_, ast.Call) and isinstance(base_.func, ast.Attribute):
            base_ = base_.func.value
        src_ctx = base_.id if isinstance(base_, ast.Name) else None
    r.check(src_ctx is not None and src_ctx in rec_params, "_promote_branch_decls/record-takes-the-assigning-scope-as-parameter", (pm, rec), f"record() reads the label from `{src_ctx}`, which is not one of its parameters {rec_params}: it would silently use whatever scope an enclosing loop last bound")
    if src_ctx in rec_params:
        pos = rec_params.index(src_ctx)
        for c in walk_local(pb):
            if isinstance(c, ast.Call) and call_name(c) == "record" and pm.enclosing_func(c) is pb:
                loop_ = next((a for a in pm.ancestors(c) if isinstance(a, ast.For)), None)
                names_src = None
                if loop_ is not None:
                    it_ = loop_.iter.args[0] if isinstance(loop_.iter, ast.Call) and call_name(loop_.iter) == "sorted" and loop_.iter.args else loop_.iter
                    if isinstance(it_, ast.Name):
                        # closest preceding assignment of the iterated name
                        prev = [x for x in walk_local(pb) if isinstance(x, ast.Assign) and norm(x.targets[0]) == it_.id and (x.lineno, x.col_offset) < (c.lineno, c.col_offset)]
                        if prev:
                            last = max(prev, key=lambda x: (x.lineno, x.col_offset))
                            names_ = {n_.id for n_ in ast.walk(last.value) if isinstance(n_, ast.Name)}
                            names_src = names_
                passed = norm(c.args[pos]) if len(c.args) > pos else None
                r.check(passed is not None and names_src is not None and passed in names_src, "_promote_branch_decls/record-called-with-the-scope-of-its-names", (pm, c), f"`{stmt_key(c)}`: the names come from {sorted(names_src or [])} but the scope passed is {passed}")
    psl = pm.func("_parse_simple_lines")
    hoist = [n for n in walk_local(psl) if isinstance(n, ast.Assign) and norm(n.targets[0]) == "var_types[name]" and "child_types.get(name" in norm(n.value)]
    r.check(len(hoist) >= 2, "_parse_simple_lines/loop-hoist-type-from-child-scope", (pm, psl), "while/for hoisting must copy the label from the loop body's scope")
    # the promotion cache must be scope-local
    pf = pm.func("parse")
    ctx_lit = Locals(pf).defs.get("ctx", [None])[0]
    keys = {lit.try_ev(k) for k in ctx_lit.keys} if isinstance(ctx_lit, ast.Dict) else set()
    r.check("_promotion_cpp_types" not in keys, "parse/promotion-cache-not-in-root-ctx", (pm, pf), "the cache of hoisted C++ types is created in the root context: every function/branch scope (a shallow dict(ctx) copy) would share it and a name hoisted in one scope would keep its stale type in another")
    for q, fn in pm.funcs.items():
        for n in walk_local(fn, include_self=False):
            if isinstance(n, ast.Assign) and isinstance(n.targets[0], ast.Subscript) and lit.try_ev(n.targets[0].slice) == "_promotion_cpp_types":
                r.fail(f"{q}/promotion-cache-assigned", (pm, n), "the promotion cache is installed into a context explicitly (it must be created lazily per scope)")
    # the hoisted C++ type is (re)computed from the label chosen *now*: label and cache entry are overwritten together
    order_loops = [n for n in walk_local(pb) if isinstance(n, ast.For) and norm(n.iter) == "order" and pm.enclosing_func(n) is pb]
    okw = False
    if order_loops:
        lp = order_loops[-1]
        lab = [n for n in lp.body if isinstance(n, ast.Assign) and norm(n.targets[0]) == "parent_types[name]"]
        cache = [n for n in lp.body if isinstance(n, ast.Assign) and isinstance(n.targets[0], ast.Subscript) and norm(n.targets[0].slice) == "name" and isinstance(n.value, ast.Call) and call_name(n.value) == "_cpp_type"]
        okw = len(lab) == 1 and len(cache) == 1 and norm(cache[0].value.args[0]) == norm(lab[0].value)
        lazy = [n for n in walk_local(lp) if isinstance(n, ast.Call) and isinstance(n.func, ast.Attribute) and n.func.attr in ("setdefault", "get") and any(isinstance(a, ast.Call) and call_name(a) == "_cpp_type" for a in n.args)]
        okw = okw and not lazy
    r.check(okw, "_promote_branch_decls/cache-overwritten-with-current-label", (pm, pb), "for every hoisted name the scope's label (parent_types[name]) and the cached C++ type must be overwritten together from the same label; a kept/conditional cache entry (setdefault) leaves the type of an earlier hoist of the same name - `float pick(float, float)` would declare `int best`")
    rule_hoist_order(r, pm)
    # parameter specialisation
    pfn = pm.func("_parse_function")
    assigns = [n for n in walk_local(pfn) if isinstance(n, ast.Assign) and norm(n.targets[0]) == "param_type_label"]
    seen_forced = False
    for n in assigns:
        cs = lexical_conds(pm, n)
        if norm(n.value) == "forced_signature[idx]":
            seen_forced = True
            r.check(("forced_signature is not None", True) in cs and not any(t != "forced_signature is not None" and "forced_signature" not in t for t, _v in cs), "_parse_function/call-site-signature-decides-parameter-type", (pm, n), f"the call-site label is only used under {sorted(cs)}")
        else:
            r.check(("forced_signature is not None", False) in cs or ("forced_signature is None", True) in cs, "_parse_function/call-site-signature-decides-parameter-type", (pm, n), f"`{stmt_key(n)}` can override the label requested by the call site (conditions {sorted(cs)}): a float argument would be passed to a parameter declared with another type")
    r.check(seen_forced, "_parse_function/forced-signature-path", (pm, pfn), "the specialisation path (forced_signature) was not found")
    stores = [n for n in walk_local(pfn) if isinstance(n, ast.Assign) and norm(n.targets[0]) == "child_ctx['var_types'][arg.arg]"]
    r.check(len(stores) == 1 and norm(stores[0].value) == "param_type_label", "_parse_function/param-type-stored", (pm, pfn), "parameter label store changed")

    # ---- C02-REDECL --------------------------------------------------------------------------
    r = cx.rule("C02-REDECL", "re-assigning an already declared scalar with a value of another label is rejected or widens the declaration", floor=1)
    ha = pm.func("_handle_assignment_ast")
    compared = False
    for n in walk_local(ha):
        if isinstance(n, ast.Compare) and {"existing_type", "inferred_type"} <= {x.id for x in ast.walk(n) if isinstance(x, ast.Name)}:
            # only the list path compares today
            if not any(isinstance(a, ast.If) and "_is_list_type(existing_type" in norm(a.test) for a in pm.ancestors(n)):
                compared = True
    r.check(compared, "_handle_assignment_ast/scalar-retype-unchecked", (pm, ha), "the first assignment fixes a scalar's C++ type and later assignments of another label are not compared with it: `x = 1` then `x = 1.5` stores 1.5 in `int x`")
    # promotion merge across branches: _promote_branch_decls evaluated on two/three branch scopes that assign the same new
    # name with every ordered combination of labels; the hoisted label must hold every branch's value
    for combo in itertools.chain(itertools.permutations(NUM + ["String"], 2), itertools.permutations(NUM, 3)):
        j = join(*combo)
        if j is None:
            continue
        for with_else in (False, True):
            scopes = [({"var_types": {"x": lab_}, "var_declared": {"x"}, "_base_declared": set()}, []) for lab_ in combo]
            parent = {}
            try:
                out = it().call(pb, [scopes[:-1], scopes[-1], parent, "loop", 1] if with_else else [scopes, None, parent, "loop", 1])
            except dl.Unsupported as e:
                raise AnalysisError(f"_promote_branch_decls left the evaluable subset: {e}")
            got = parent.get("var_types", {}).get("x") if out.kind == "return" else None
            cpp_got = parent.get("_promotion_cpp_types", {}).get("x")
            ok = out.kind == "raise" or (got is not None and geq(got, j))
            if combo[0] == j or (RANK.get(combo[0], 9) >= max(RANK.get(c_, 9) for c_ in combo)):
                key = f"_promote_branch_decls/hoist-label[{'-then-'.join(combo)}]"
            else:
                key = "_promote_branch_decls/first-branch-type-wins"
            r.check(ok, key, (pm, rec), f"a name assigned {' / '.join(combo)} in successive branches{' (last one the else)' if with_else else ''} is hoisted as {got!r} ({cpp_got}); it must hold {j}")
            if ok and out.kind == "return" and got is not None:
                want_cpp = it().call(cpp, [got]).value
                r.check(cpp_got == want_cpp, f"_promote_branch_decls/hoist-cpp-type[{'-then-'.join(combo)}]", (pm, pb), f"label {got} but cached C++ type {cpp_got}")


    from .. import pe, cxx, l2
    from . import c09
    em = mod("transpile/emitter.py")
    cx.consulted(em)
    cls, _f = pe.ir_classes()

    # ---- C02-ACCESSOR ------------------------------------------------------------------------
    r = cx.rule("C02-ACCESSOR", "every device accessor call the expression translator accepts (`dev.get_speed()`, `mon.read()`, ...) is given a label whose C++ type holds the C++ type of the translated expression (typed by clang against the sketch that declares the device)", floor=12)
    import re as _re
    tce = pm.func("_to_c_expr")
    tce_emit = pm.funcs.get("_to_c_expr.emit")
    if tce_emit is None:
        raise AnalysisError("_to_c_expr.emit vanished")
    methods = set()
    for n in walk_local(tce_emit):
        if isinstance(n, ast.Compare) and isinstance(n.left, ast.Name) and n.left.id == "attr" and len(n.ops) == 1:
            v = lit.try_ev(n.comparators[0])
            if isinstance(n.ops[0], ast.Eq) and isinstance(v, str):
                methods.add(v)
            elif isinstance(n.ops[0], ast.In) and isinstance(v, (set, frozenset, tuple, list)):
                methods |= {x for x in v if isinstance(x, str)}
    # ... or kept in a table keyed by the accessor name: every accessor-like string constant of the parser is a candidate
    # (whether the translator accepts it is decided by evaluating it below)
    methods |= {n.value for n in ast.walk(pm.tree) if isinstance(n, ast.Constant) and isinstance(n.value, str) and _re.fullmatch(r"(get_|is_|read|measure_)[a-z_]*", n.value)}
    methods -= {"append", "remove"}
    # registry -> device kind (confirmed by reading the declaration handlers of _parse_simple_lines)
    REG = {"led_names": "Led", "buzzer_names": "Buzzer", "dc_motor_names": "DCMotor", "ultrasonic_names": "Ultrasonic", "button_names": "Button",
           "servo_names": "Servo", "potentiometer_names": "Potentiometer", "serial_monitors": "SerialMonitor"}
    regs_read = {lit.try_ev(c.args[0]) for c in walk_local(tce_emit) if isinstance(c, ast.Call) and isinstance(c.func, ast.Attribute) and c.func.attr in ("get", "setdefault") and c.args}
    extra = {x for x in regs_read if isinstance(x, str) and (x.endswith("_names") or x == "serial_monitors")} - set(REG) - {"button_poll_names"}
    if extra:
        raise AnalysisError(f"_to_c_expr reads device registries this rule has no device kind for: {sorted(extra)}")
    accepted = {}
    for reg, dev in sorted(REG.items()):
        for m_ in sorted(methods):
            ctx_ = {reg: {"dev"}, "potentiometer_pins": {"dev": "A0"}}
            try:
                out = dl.Interp(pm, opaque={"ast.parse": ast.parse, "re.fullmatch": _re.fullmatch, "re.sub": _re.sub}).call(tce, [f"dev.{m_}()", {}, ctx_])
            except dl.Unsupported as e:
                raise AnalysisError(f"_to_c_expr left the evaluable subset on `dev.{m_}()`: {e}")
            if out.kind == "return" and isinstance(out.value, str) and out.value:
                lab_ = it().call(inf, [ast.parse(f"dev.{m_}()", mode="eval").body, {}, {}, {}, {}, {reg: {"dev"}}])
                accepted.setdefault(dev, []).append((m_, out.value, lab_))
    if sum(len(v) for v in accepted.values()) < 12:
        raise AnalysisError(f"only {sum(len(v) for v in accepted.values())} accessor translations found (confirmed: 15)")

    def kind_of(cpp_t):
        t = (cpp_t or "").replace("const ", "").replace("&", "").strip()
        if t == "bool":
            return "bool"
        if t in ("int", "long", "unsigned int", "unsigned long", "short", "unsigned char", "char", "uint8_t", "size_t"):
            return "int"
        if t in ("float", "double"):
            return "float"
        if t == "String":
            return "String"
        return None

    for dev, rows in sorted(accepted.items()):
        res = pe.emit_program(setup=[l2.decl_node(dev)], ultrasonic=({"dev"} if dev == "Ultrasonic" else ()))
        if res.raised or not res.text:
            raise AnalysisError(f"emit() raises {res.raised} for a lone {dev} declaration")
        probe = "\nvoid __redu_probe() {\n" + "".join(f"  auto __p{i} = {e};\n" for i, (_m, e, _l) in enumerate(rows)) + "}\n"
        fns = l2.functions_of(res.text + probe, ["__redu_probe"])
        if not fns.get("__redu_probe"):
            raise AnalysisError(f"clang could not type the accessor expressions of {dev}")
        types = {st["name"]: st.get("type") for st in cxx.all_stmts(fns["__redu_probe"][0]["body"]) if st["k"] == "decl"}
        for i, (m_, e, lab_) in enumerate(rows):
            kt = kind_of(types.get(f"__p{i}"))
            if kt is None:
                raise AnalysisError(f"accessor `{e}` has C++ type {types.get(f'__p{i}')!r}: not a type this rule classifies")
            ok = lab_.kind == "return" and ((kt == "String" and lab_.value == "String") or (kt != "String" and lab_.value in RANK and RANK[lab_.value] >= RANK[kt]))
            r.check(ok, f"_infer_expr_type/accessor[{dev}.{m_}]", (pm, inf), f"`v = dev.{m_}()` translates to `{e}` of C++ type {types.get(f'__p{i}')} but is labelled {lab_!r}: the declaration `{it().call(cpp, [lab_.value]).value if lab_.kind == 'return' else '?'} v` cannot hold it", sample=f"{dev}.{m_}() -> {e} : {types.get(f'__p{i}')} / label {lab_.value if lab_.kind == 'return' else lab_!r}")

    # ---- C02-EMIT ----------------------------------------------------------------------------
    r = cx.rule("C02-EMIT", "the emitter writes the types the parser decided: every function overload is emitted (once) with its own parameter and return types, every declaration with its c_type; the list helper converts elements to the element type only", floor=12)
    S = cls["ReturnStmt"]
    fd = cls["FunctionDef"]
    VD = cls["VarDecl"]
    fns_ = [fd(name="scale", params=[("v", "int")], body=[VD(name="out", c_type="int", expr="(v * 2)", global_scope=False), S(expr="out")], return_type="int"),
            fd(name="scale", params=[("v", "float")], body=[VD(name="out", c_type="float", expr="(v * 2)", global_scope=False), S(expr="out")], return_type="float"),
            fd(name="scale", params=[("v", "String")], body=[VD(name="out", c_type="String", expr="v", global_scope=False), S(expr="out")], return_type="String"),
            fd(name="pick", params=[("a", "float"), ("b", "int")], body=[S(expr="a")], return_type="float"),
            fd(name="pick", params=[("a", "int"), ("b", "float")], body=[S(expr="b")], return_type="float")]
    res = pe.emit_program(setup=[cls["ExprStmt"](expr="scale(1)")], functions=fns_)
    if res.raised:
        raise AnalysisError(f"emit() raises {res.raised} for overloaded helpers")
    for f_ in fns_:
        hdr = f"{f_.return_type} {f_.name}(" + ", ".join(f"{t} {n}" for n, t in f_.params) + ")"
        cnt = res.text.count(hdr + " {")
        r.check(cnt == 1, f"emit/overload[{hdr}]-emitted-once", (em, em.func("emit")), f"`{hdr}` is defined {cnt} time(s): a call with these argument types would bind to another overload and convert its arguments")
        # each overload has its own body (its locals were typed for *its* parameter types)
        if cnt == 1 and f_.name == "scale":
            seg = res.text[res.text.index(hdr + " {"):]
            seg = seg[:seg.index("\n}") if "\n}" in seg else len(seg)]
            want_local = f"{f_.params[0][1]} out ="
            r.check(want_local in seg, f"emit/overload[{hdr}]-own-body", (em, em.func("emit")), f"the body emitted under `{hdr}` does not declare `{want_local} ...`: overloads share one rendered body, so a local keeps the type of another overload")
    for ct in ("int", "float", "bool", "String", "__redu_list<float>"):
        for place, kw in (("global", {"global_decls": [cls["VarDecl"](name="v", c_type=ct, expr="{}", global_scope=True)]}), ("setup", {"setup": [cls["VarDecl"](name="v", c_type=ct, expr="{}", global_scope=False)]}),
                          ("function", {"setup": [cls["ExprStmt"](expr="f()")], "functions": [fd(name="f", params=[], body=[cls["VarDecl"](name="v", c_type=ct, expr="{}", global_scope=False)], return_type="void")]})):
            res = pe.emit_program(**kw)
            r.check(not res.raised and f"{ct} v = {{}};" in (res.text or ""), f"emit/VarDecl[{ct}]@{place}", (em, em.func("_emit_block")), f"a {place} declaration with c_type {ct} is not emitted as `{ct} v = ...`")
    hf, _sn, _names = c09.list_helpers(em)
    gen = [f_ for f_ in hf.get("__redu_make_list", []) if any(t == "First" for _n, t in f_.get("params", []))]
    if not gen:
        raise AnalysisError("variadic __redu_make_list<T, First, Rest...> not found")
    for f_ in gen:
        bad = []
        for st in cxx.all_stmts(f_["body"]):
            if st["k"] == "decl" and st.get("type") and any(tp in st["type"] for tp in ("First", "Rest")):
                bad.append(f"{st['type']} {st['name']}")
            for e in cxx.stmt_exprs(st):
                for s_ in cxx.sub_exprs(e):
                    if s_[0] == "cast" and (s_[1] or "") not in ("T", "const T", "T &&", "const T &", "size_t", "unsigned long", "int"):
                        bad.append(f"cast to {s_[1]}")
        r.check(not bad, "make_list/elements-converted-to-T-only", (em.rel, em.const("LIST_HELPER_SNIPPET").lineno), f"list elements pass through {bad}: a later element wider than the first (`[1, 2.5]`) is narrowed before it reaches the list")
